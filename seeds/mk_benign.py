#!/usr/bin/env python3
# Behaviour-preserving edits: no check may raise an alarm on any of them (false-alarm battery).
# kinds: "replace" (first occurrence), "replace_all"
import json, os
B = []
def benign(name, what, *edits):
    B.append((name, dict(what=what, edits=[dict(file=f, old=o, new=n, all=a) for f, o, n, a in edits])))
MP = "motion/motionprocessor.go"; MO = "motion/motion.go"; FL = "motion/frameloop.go"; LL = "loglimiter/loglimiter.go"
TH = "throttle/throttled_recorder.go"; MAIN = "cmd/thermal-recorder/main.go"; TW = "cmd/thermal-writer/main.go"; CF = "cmd/thermal-recorder/cptvfilerecorder.go"

benign("rename-frames-written", "private counter renamed", (MP, "framesWritten", "postTriggerFrames", True))
benign("rename-write-until", "private stop target renamed", (MP, "writeUntil", "stopAt", True))
benign("flip-stop-comparison", "stop comparison written with swapped operands", (MP, "mp.framesWritten >= mp.writeUntil", "mp.writeUntil <= mp.framesWritten", False))
benign("flip-trigger-comparison", "trigger comparison written with swapped operands", (MP, "mp.triggered < mp.triggerFrames", "mp.triggerFrames > mp.triggered", False))
benign("rename-process-snapshot", "private method renamed", (MP, "processSnapshot", "handleTestRecording", True))
benign("extract-extend-helper", "target extension extracted into a helper method",
       (MP, "\t\t\tmp.writeUntil = min(mp.framesWritten+mp.minFrames, mp.maxFrames)\n", "\t\t\tmp.extendRecording()\n", False),
       (MP, "func (mp *MotionProcessor) ProcessFrame(", "func (mp *MotionProcessor) extendRecording() {\n\tmp.writeUntil = min(mp.framesWritten+mp.minFrames, mp.maxFrames)\n}\n\nfunc (mp *MotionProcessor) ProcessFrame(", False))
benign("min-args-swapped", "min called with swapped arguments", (MP, "min(mp.framesWritten+mp.minFrames, mp.maxFrames)", "min(mp.maxFrames, mp.minFrames+mp.framesWritten)", False))
benign("limiter-conjuncts-swapped", "log limiter tests the message first", (LL, "now.Sub(limiter.previousTime) < limiter.interval && s == limiter.previousEntry", "s == limiter.previousEntry && now.Sub(limiter.previousTime) < limiter.interval", False))
benign("limiter-negated-form", "log limiter written with the negated condition", (LL, "\tif now.Sub(limiter.previousTime) < limiter.interval && s == limiter.previousEntry {\n\t\treturn\n\t}\n\n\tlog.Print(s)\n\tlimiter.previousTime = now\n\tlimiter.previousEntry = s\n",
       "\tif now.Sub(limiter.previousTime) >= limiter.interval || s != limiter.previousEntry {\n\t\tlog.Print(s)\n\t\tlimiter.previousTime = now\n\t\tlimiter.previousEntry = s\n\t}\n", False))
benign("loop-bound-flipped", "kernel loop bound written as rowStop > y", (MO, "\tvar deltaCount int\n\tfor y := d.start; y < d.rowStop; y++ {\n\t\tfor x := d.start; x < d.columnStop; x++ {\n\t\t\tv := f1.Pix[y][x]", "\tvar deltaCount int\n\tfor y := d.start; d.rowStop > y; y++ {\n\t\tfor x := d.start; d.columnStop > x; x++ {\n\t\t\tv := f1.Pix[y][x]", False))
benign("rename-ring-mark", "ring mark field renamed", (FL, "oldest", "mark", True))
benign("previous-index-reordered", "previous index sum reordered", (FL, "(fl.currentIndex - 1 + fl.size) % fl.size", "(fl.size + fl.currentIndex - 1) % fl.size", False))
benign("rename-detector-fields", "detector bounds renamed", (MO, "columnStop", "colEnd", True), (MO, "rowStop", "rowEnd", True))
benign("clamp-written-with-else", "clamp written as if/else", (MO, "\t\t\tva := a.Pix[y][x]\n\t\t\tif va < d.tempThresh {\n\t\t\t\tva = d.tempThresh\n\t\t\t}\n\t\t\tvb := b.Pix[y][x]\n\t\t\tif vb < d.tempThresh {\n\t\t\t\tvb = d.tempThresh\n\t\t\t}\n\t\t\tout.Pix[y][x] = absDiff(va, vb)",
       "\t\t\tva := d.tempThresh\n\t\t\tif a.Pix[y][x] > d.tempThresh {\n\t\t\t\tva = a.Pix[y][x]\n\t\t\t}\n\t\t\tvb := b.Pix[y][x]\n\t\t\tif vb < d.tempThresh {\n\t\t\t\tvb = d.tempThresh\n\t\t\t}\n\t\t\tout.Pix[y][x] = absDiff(va, vb)", False))
benign("extra-logging", "extra log lines in the frame loop and the throttler", (MAIN, "\t\terr = processor.Process(rawFrame)\n", "\t\terr = processor.Process(rawFrame)\n\t\tif totalFrames == 1 {\n\t\t\tlog.Print(\"first frame processed\")\n\t\t}\n", False),
       (TH, "\tlog.Print(\"recording throttled\")\n", "\tlog.Print(\"recording throttled\")\n\tlog.Printf(\"bucket now holds %d frames\", throttler.bucket.Available())\n", False))
benign("throttle-rename-flag", "throttler flag renamed", (TH, "throttler.recording", "throttler.active", True), (TH, "\trecording          bool", "\tactive             bool", False))
benign("writer-rename-channels", "thermal-writer channels renamed", (TW, "spentFrames", "freeBuffers", True), (TW, "writeFrames", "pending", True))
benign("stop-err-two-statements", "if err := ...; form split into two statements", (MP, "\t\tif err := mp.constantRecorder.StartRecording(mp.motionDetector.background, 0); err != nil {\n", "\t\terr := mp.constantRecorder.StartRecording(mp.motionDetector.background, 0)\n\t\tif err != nil {\n", False))
benign("recorder-local-renamed", "locals in StartRecording renamed", (CF, "writer, err := cptv.NewFileWriter(filename, fw.camera)", "fwr, err := cptv.NewFileWriter(filename, fw.camera)", False), (CF, "\tif err = writer.WriteHeader(fw.header); err != nil {\n\t\twriter.Close()\n\t\treturn err\n\t}\n\tfw.header.BackgroundFrame = nil\n\tfw.writer = writer", "\tif err = fwr.WriteHeader(fw.header); err != nil {\n\t\tfwr.Close()\n\t\treturn err\n\t}\n\tfw.header.BackgroundFrame = nil\n\tfw.writer = fwr", False))
benign("threshold-temp-variable", "threshold computed through a differently named local", (MO, "func (d *motionDetector) calculateThreshold(backAverage float64) {\n\tif d.tempThreshMin != 0 {\n\t\tbackAverage = math.Max(backAverage, float64(d.tempThreshMin))\n\t}\n\tif d.tempThreshMax != 0 {\n\t\tbackAverage = math.Min(backAverage, float64(d.tempThreshMax))\n\t}\n\td.tempThresh = uint16(backAverage)",
       "func (d *motionDetector) calculateThreshold(backAverage float64) {\n\tlimited := backAverage\n\tif d.tempThreshMin != 0 {\n\t\tlimited = math.Max(float64(d.tempThreshMin), limited)\n\t}\n\tif d.tempThreshMax != 0 {\n\t\tlimited = math.Min(float64(d.tempThreshMax), limited)\n\t}\n\td.tempThresh = uint16(limited)", False))

BO = "cmd/thermal-recorder/boson.go"
benign("boson-hoisted-row-test", "Boson parser with the row test hoisted out of the pixel loop and the decoded value tested directly (correct refactor)",
       (BO, "\ti := 0\n\tfor y, row := range out.Pix {\n\t\tfor x := range row {\n\t\t\tout.Pix[y][x] = binary.LittleEndian.Uint16(raw[i : i+2])\n\t\t\tonEdge := y < edgePixels || x < edgePixels || y >= (len(out.Pix)-edgePixels) || x >= (len(row)-edgePixels)\n\t\t\tif !onEdge && out.Pix[y][x] == 0 {\n\t\t\t\terr := fmt.Errorf(\"bad pixel (%d,%d) of %d\", y, x, out.Pix[y][x])",
        "\trows := len(out.Pix)\n\ti := 0\n\tfor y, row := range out.Pix {\n\t\tcols := len(row)\n\t\tinteriorRow := y >= edgePixels && y < rows-edgePixels\n\t\tfor x := range row {\n\t\t\tv := binary.LittleEndian.Uint16(raw[i : i+2])\n\t\t\tout.Pix[y][x] = v\n\t\t\tif v == 0 && interiorRow && x >= edgePixels && x < cols-edgePixels {\n\t\t\t\terr := fmt.Errorf(\"bad pixel (%d,%d) of %d\", y, x, v)", False))

LD = "cmd/leptond/main.go"
benign("probe-length-named", "probe length expressed as len(marker)", (MAIN, "_, err := io.ReadFull(reader, rawFrame[:5])", "_, err := io.ReadFull(reader, rawFrame[:len(clearBuffer)])", False),
       (MAIN, "\t\tmessage := string(rawFrame[:5])\n\t\tif message == clearBuffer {", "\t\tmessage := string(rawFrame[:len(clearBuffer)])\n\t\tif message == clearBuffer {", False),
       (MAIN, "_, err = io.ReadFull(reader, rawFrame[5:])", "_, err = io.ReadFull(reader, rawFrame[len(clearBuffer):])", False))
benign("rename-raw-frame", "frame buffer renamed", (MAIN, "rawFrame", "frameBuf", True))
benign("rename-inlined-in-stop", "final-name helper inlined into StopRecording", (CF, "\t\tfinalName, err := renameTempRecording(fw.writer.Name())", "\t\ttempName := fw.writer.Name()\n\t\tfinalName := recordingFinalName(tempName)\n\t\terr := os.Rename(tempName, finalName)", False))
benign("leptond-map-reordered", "camera spec map entries reordered", (LD, "\t\theaders.XResolution: camera.ResX(),\n\t\theaders.YResolution: camera.ResY(),\n", "\t\theaders.YResolution: camera.ResY(),\n\t\theaders.XResolution: camera.ResX(),\n", False))
benign("header-by-assignment", "CPTV header fields set by assignment after the literal", (CF, "\t\tFirmware:     firmware,\n\t}\n", "\t}\n\tcptvHeader.Firmware = firmware\n", False))
benign("clamp-helper", "temp-thresh clamp extracted into a helper", (MO, "\t\t\tvb := b.Pix[y][x]\n\t\t\tif vb < d.tempThresh {\n\t\t\t\tvb = d.tempThresh\n\t\t\t}\n\t\t\tout.Pix[y][x] = absDiff(va, vb)", "\t\t\tvb := floorTo(b.Pix[y][x], d.tempThresh)\n\t\t\tout.Pix[y][x] = absDiff(va, vb)", False),
       (MO, "func absDiff(a, b uint16) uint16 {", "func floorTo(v, t uint16) uint16 {\n\tif v < t {\n\t\treturn t\n\t}\n\treturn v\n}\n\nfunc absDiff(a, b uint16) uint16 {", False))
benign("next-index-inlined", "ring advance written inline", (FL, "\tfl.currentIndex = fl.nextIndexAfter(fl.currentIndex)\n", "\tfl.currentIndex = (fl.currentIndex + 1) % fl.size\n", False))
benign("snapshot-lock-explicit-unlock-helper", "requesters wrapped in a helper that holds the mutex", (MAIN.replace("main.go","snapshot.go"), "func newSnapshotRecording() error {\n\tmu.Lock()\n\tdefer mu.Unlock()\n", "func newSnapshotRecording() error {\n\tmu.Lock()\n\tdefer func() { mu.Unlock() }()\n", False))
benign("continuous-counter-renamed", "continuous counter renamed", (MP, "crFrames", "constantFrames", True))
benign("detect-result-local", "Detect result kept in a local before use", (MP, "\tif mp.motionDetector.Detect(frame) {\n", "\tmotion := mp.motionDetector.Detect(frame)\n\tif motion {\n", False))
benign("writer-frame-var-renamed", "thermal-writer loop variable renamed", (TW, "\t\tframe := <-spentFrames\n\t\t_, err := io.ReadFull(reader, frame)", "\t\tbuf := <-spentFrames\n\t\t_, err := io.ReadFull(reader, buf)", False), (TW, "\t\twriteFrames <- frame\n", "\t\twriteFrames <- buf\n", False))

SNAPF = "cmd/thermal-recorder/snapshot.go"
SVCF = "cmd/thermal-recorder/service.go"
benign("rename-private-functions", "private functions renamed across the recorder and the writer",
       (MAIN, "handleConn", "serveCamera", True), (MAIN, "runMain", "run", True), (MAIN, "frameParser", "selectParser", True), (MAIN, "convertRawBosonFrame", "parseBoson", True),
       ("cmd/thermal-recorder/boson.go", "convertRawBosonFrame", "parseBoson", True), (MAIN, "deleteTempFiles", "cleanUp", True), (CF, "deleteTempFiles", "cleanUp", True),
       (SNAPF, "newSnapshotRecording", "requestTestRecording", True), (SVCF, "newSnapshotRecording", "requestTestRecording", True), (SNAPF, "newSnapshot(", "grabSnapshot(", True), (SVCF, "newSnapshot(", "grabSnapshot(", True),
       (TW, "handleConn", "serveCamera", True), (TW, "runMain", "run", True), ("cmd/thermal-writer/thermalraw.go", "newThermalRaw", "openRaw", True), (TW, "newThermalRaw", "openRaw", True),
       ("cmd/thermal-writer/bufferedfile.go", "bufferedFile", "flushingFile", True), ("cmd/thermal-writer/bufferedfile.go", "newBufferedFile", "newFlushingFile", True), ("cmd/thermal-writer/thermalraw.go", "bufferedFile", "flushingFile", True), ("cmd/thermal-writer/thermalraw.go", "newBufferedFile", "newFlushingFile", True),
       (CF, "renameTempRecording", "publishRecording", True), (CF, "recordingFinalName", "finalNameOf", True), (CF, "newRecordingTempName", "tempName", True), (CF, "checkDiskSpace", "enoughDisk", True))

benign("throttle-start-reads-remembered-fields", "maybeStartRecording takes no arguments and reads the fields StartRecording stored first (correct refactor)",
       (TH, "\tif err := throttler.maybeStartRecording(background, tempThresh); err != nil {\n\t\treturn err\n\t}\n\tif !throttler.recording {\n\t\tlog.Print(\"recording not started due to throttling\")\n\t\tthrottler.listener.WhenThrottled()\n\t}\n\tthrottler.backgroundFrame = background\n\tthrottler.tempThresh = tempThresh\n\treturn nil",
        "\tthrottler.backgroundFrame = background\n\tthrottler.tempThresh = tempThresh\n\tif err := throttler.maybeStartRecording(); err != nil {\n\t\treturn err\n\t}\n\tif !throttler.recording {\n\t\tlog.Print(\"recording not started due to throttling\")\n\t\tthrottler.listener.WhenThrottled()\n\t}\n\treturn nil", False),
       (TH, "\t\tif err := throttler.maybeStartRecording(throttler.backgroundFrame, throttler.tempThresh); err != nil {", "\t\tif err := throttler.maybeStartRecording(); err != nil {", False),
       (TH, "func (throttler *ThrottledRecorder) maybeStartRecording(background *cptvframe.Frame, tempThresh uint16) error {\n\tif throttler.bucket.Available() >= throttler.minRecordingLength {\n\t\tif err := throttler.recorder.StartRecording(background, tempThresh); err != nil {",
        "func (throttler *ThrottledRecorder) maybeStartRecording() error {\n\tif throttler.bucket.Available() >= throttler.minRecordingLength {\n\t\tif err := throttler.recorder.StartRecording(throttler.backgroundFrame, throttler.tempThresh); err != nil {", False))

benign("writer-pool-constructor", "thermal-writer buffer pool built by a helper that allocates each buffer freshly (correct refactor)",
       (TW, "\tspentFrames := make(chan []byte, inFlight)\n\tfor i := 0; i < inFlight; i++ {\n\t\tspentFrames <- make([]byte, header.FrameSize())\n\t}\n", "\tspentFrames := newFramePool(inFlight, header.FrameSize())\n", False),
       (TW, "func writer(", "func newFramePool(n, frameSize int) chan []byte {\n\tpool := make(chan []byte, n)\n\tfor i := 0; i < n; i++ {\n\t\tpool <- make([]byte, frameSize)\n\t}\n\treturn pool\n}\n\nfunc writer(", False))

benign("limiter-core-helper", "log limiter body moved into a helper that Print and Printf call with the final text (correct refactor)",
       (LL, "func (limiter *LogLimiter) Print(s string) {\n\tnow := limiter.nowFunc()", "func (limiter *LogLimiter) Print(s string) {\n\tlimiter.emit(s)\n}\n\nfunc (limiter *LogLimiter) emit(s string) {\n\tnow := limiter.nowFunc()", False))

benign("kernel-resliced-rows", "abs-diff kernel and one-frame counter range over re-sliced rows with both bounds (correct refactor)",
       (MO, "\t\tfor x := d.start; x < d.columnStop; x++ {\n\t\t\tv := f1.Pix[y][x]\n\t\t\td.debug.update(\"diff\", int(v))", "\t\tfor _, v := range f1.Pix[y][d.start:d.columnStop] {\n\t\t\td.debug.update(\"diff\", int(v))", False),
       (MO, "\t\tfor x := d.start; x < d.columnStop; x++ {\n\t\t\tva := a.Pix[y][x]\n\t\t\tif va < d.tempThresh {\n\t\t\t\tva = d.tempThresh\n\t\t\t}\n\t\t\tvb := b.Pix[y][x]\n\t\t\tif vb < d.tempThresh {\n\t\t\t\tvb = d.tempThresh\n\t\t\t}\n\t\t\tout.Pix[y][x] = absDiff(va, vb)",
        "\t\trowA, rowB, rowOut := a.Pix[y][d.start:d.columnStop], b.Pix[y][d.start:d.columnStop], out.Pix[y][d.start:d.columnStop]\n\t\tfor x, va := range rowA {\n\t\t\tif va < d.tempThresh {\n\t\t\t\tva = d.tempThresh\n\t\t\t}\n\t\t\tvb := rowB[x]\n\t\t\tif vb < d.tempThresh {\n\t\t\t\tvb = d.tempThresh\n\t\t\t}\n\t\t\trowOut[x] = absDiff(va, vb)", False))

benign("stop-reset-before-stop-call", "stopRecording resets its counters before calling the recorder and returns the recorder's error (correct reorder)",
       (MP, "\terr := mp.recorder.StopRecording()\n\n\tmp.framesWritten = 0\n\tmp.writeUntil = 0\n\tmp.isRecording = false\n\tmp.triggered = 0\n\t// if it starts recording again very quickly it won't write the same frames again\n\tmp.frameLoop.SetAsOldest()\n\n\treturn err",
        "\tmp.framesWritten = 0\n\tmp.writeUntil = 0\n\tmp.isRecording = false\n\tmp.triggered = 0\n\t// if it starts recording again very quickly it won't write the same frames again\n\tmp.frameLoop.SetAsOldest()\n\n\treturn mp.recorder.StopRecording()", False))

benign("throttle-maybe-start-single-exit", "maybeStartRecording in single-exit form that still returns the wrapped error (correct refactor)",
       (TH, "\tif throttler.bucket.Available() >= throttler.minRecordingLength {\n\t\tif err := throttler.recorder.StartRecording(background, tempThresh); err != nil {\n\t\t\treturn err\n\t\t}\n\t\tthrottler.recording = true\n\t}\n\treturn nil",
        "\tvar err error\n\tif throttler.bucket.Available() >= throttler.minRecordingLength {\n\t\tif err = throttler.recorder.StartRecording(background, tempThresh); err == nil {\n\t\t\tthrottler.recording = true\n\t\t}\n\t}\n\treturn err", False))

benign("throttle-config-logged", "throttle.NewConfig reads (does not write) the loaded settings for a log line",
       ("throttle/config.go", "\treturn &thermalThrottler, nil", "\tif thermalThrottler.MinRefill > thermalThrottler.BucketSize {\n\t\tlog.Printf(\"min-refill %v is longer than bucket-size %v\", thermalThrottler.MinRefill, thermalThrottler.BucketSize)\n\t}\n\treturn &thermalThrottler, nil", False),
       ("throttle/config.go", "import (\n", "import (\n\t\"log\"\n\n", False))

benign("detector-reset-via-pointers", "detector Reset resets its two rings through pointers to the fields (correct form of the loop)",
       (MO, "\td.flooredFrames.Reset()\n\td.diffFrames.Reset()", "\tfor _, loop := range []*FrameLoop{&d.flooredFrames, &d.diffFrames} {\n\t\tloop.Reset()\n\t}", False))

RC = "recorder/recorderconfig.go"
benign("counter-reset-at-start", "framesWritten is also zeroed when a recording starts (redundant, correct)",
       (MP, "\tmp.isRecording = true\n\tif mp.listener != nil {\n\t\tmp.listener.RecordingStarted()", "\tmp.isRecording = true\n\tmp.framesWritten = 0\n\tif mp.listener != nil {\n\t\tmp.listener.RecordingStarted()", False))

benign("writer-conn-deadline-cleared", "thermal-writer clears the connection deadline before reading (a non-reading use of conn)",
       (TW, "\treader := bufio.NewReader(conn)\n\theader, err := headers.ReadHeaderInfo(reader)", "\tconn.SetDeadline(time.Time{})\n\treader := bufio.NewReader(conn)\n\theader, err := headers.ReadHeaderInfo(reader)", False))

benign("recorder-config-locals-renamed", "recorder.NewConfig with renamed locals and the struct filled field by field (correct refactor)",
       (RC, "thermalRecorderConfig", "trc", True),
       (RC, "\trecorderConfig := RecorderConfig{\n\t\tMinSecs:          trc.MinSecs,\n\t\tMaxSecs:          trc.MaxSecs,\n\t\tPreviewSecs:      trc.PreviewSecs,\n\t\tWindow:           *w,\n\t\tConstantRecorder: trc.ConstantRecorder,\n\t}\n",
        "\tvar recorderConfig RecorderConfig\n\trecorderConfig.MinSecs = trc.MinSecs\n\trecorderConfig.MaxSecs = trc.MaxSecs\n\trecorderConfig.PreviewSecs = trc.PreviewSecs\n\trecorderConfig.Window = *w\n\trecorderConfig.ConstantRecorder = trc.ConstantRecorder\n", False))

benign("disk-gate-logs-space", "CheckCanRecord logs when space is low without touching any file (correct)",
       (CF, "\tenoughSpace, err := checkDiskSpace(cfr.minDiskSpace, cfr.outputDir)\n", "\tenoughSpace, err := checkDiskSpace(cfr.minDiskSpace, cfr.outputDir)\n\tif err == nil && !enoughSpace {\n\t\tlog.Printf(\"less than %d MB free in %s\", cfr.minDiskSpace, cfr.outputDir)\n\t}\n", False))

benign("motion-config-validate-rejects", "motion.NewConfig's validation returns an error for an inconsistent range instead of changing it (correct)",
       ("motion/motionconfig.go", "func validateConfig(*config.ThermalMotion) error {\n\t// TODO\n", "func validateConfig(conf *config.ThermalMotion) error {\n\tif conf.TempThreshMax != 0 && conf.TempThreshMax < conf.TempThreshMin {\n\t\treturn errors.New(\"temp-thresh-max is below temp-thresh-min\")\n\t}\n", False),
       ("motion/motionconfig.go", "import (\n", "import (\n\t\"errors\"\n", False))

# ---- batch 3: heavier refactors
benign("handler-recorder-factory", "handleConn builds its three file recorders through one local closure (correct refactor)",
       (MAIN, "\tcptvRecorder := NewCPTVFileRecorder(conf, headerInfo, headerInfo.Brand(), headerInfo.Model(), headerInfo.CameraSerial(), headerInfo.Firmware())\n",
        "\tnewFileRecorder := func() *CPTVFileRecorder {\n\t\treturn NewCPTVFileRecorder(conf, headerInfo, headerInfo.Brand(), headerInfo.Model(), headerInfo.CameraSerial(), headerInfo.Firmware())\n\t}\n\tcptvRecorder := newFileRecorder()\n", False),
       (MAIN, "\t\tconstantRecorder = NewCPTVFileRecorder(conf, headerInfo, headerInfo.Brand(), headerInfo.Model(), headerInfo.CameraSerial(), headerInfo.Firmware())\n", "\t\tconstantRecorder = newFileRecorder()\n", False),
       (MAIN, "\t\tNewCPTVFileRecorder(conf, headerInfo, headerInfo.Brand(), headerInfo.Model(), headerInfo.CameraSerial(), headerInfo.Firmware()),\n\t)", "\t\tnewFileRecorder(),\n\t)", False))

benign("throttle-budget-helper", "the budget test of the throttler moved into a small method (correct refactor)",
       (TH, "\tif throttler.bucket.Available() >= throttler.minRecordingLength {\n\t\tif err := throttler.recorder.StartRecording(background, tempThresh); err != nil {", "\tif throttler.hasBudget() {\n\t\tif err := throttler.recorder.StartRecording(background, tempThresh); err != nil {", False),
       (TH, "// realClock implements", "func (throttler *ThrottledRecorder) hasBudget() bool {\n\treturn throttler.bucket.Available() >= throttler.minRecordingLength\n}\n\n// realClock implements", False))

benign("limiter-elapsed-local", "log limiter computes the elapsed time into a local first",
       (LL, "\tif now.Sub(limiter.previousTime) < limiter.interval && s == limiter.previousEntry {", "\telapsed := now.Sub(limiter.previousTime)\n\tif elapsed < limiter.interval && s == limiter.previousEntry {", False))

benign("ring-next-index-inlined", "ring Move computes the next index inline",
       (FL, "\tfl.currentIndex = fl.nextIndexAfter(fl.currentIndex)\n", "\tfl.currentIndex = (fl.currentIndex + 1) % fl.size\n", False))

benign("ring-oldest-if-else", "ring Oldest written as if/else with a local",
       (FL, "\tif fl.oldest != NO_OLDEST_SET {\n\t\treturn fl.frames[fl.oldest]\n\t}\n\treturn fl.frames[fl.nextIndexAfter(fl.currentIndex)]", "\tidx := fl.nextIndexAfter(fl.currentIndex)\n\tif fl.oldest != NO_OLDEST_SET {\n\t\tidx = fl.oldest\n\t}\n\treturn fl.frames[idx]", False))

benign("process-switch-form", "the start decision chain of process written as a switch (correct refactor)",
       (MP, "\t\tif mp.isRecording {\n\t\t\t// increase the length of recording\n\t\t\tmp.writeUntil = min(mp.framesWritten+mp.minFrames, mp.maxFrames)\n\t\t} else if mp.triggered < mp.triggerFrames {\n\t\t\t// Only start recording after n (triggerFrames) consecutive frames with motion detected.\n\t\t} else if err := mp.canStartWriting(); err != nil {\n\t\t\tmp.log.Printf(\"Recording not started: %v\", err)\n\t\t} else if err := mp.startRecording(); err != nil {\n\t\t\tmp.log.Printf(\"Can't start recording file: %v\", err)\n\t\t} else {\n\t\t\tmp.writeUntil = mp.minFrames\n\t\t}\n",
        "\t\tswitch {\n\t\tcase mp.isRecording:\n\t\t\t// increase the length of recording\n\t\t\tmp.writeUntil = min(mp.framesWritten+mp.minFrames, mp.maxFrames)\n\t\tcase mp.triggered < mp.triggerFrames:\n\t\t\t// Only start recording after n (triggerFrames) consecutive frames with motion detected.\n\t\tdefault:\n\t\t\tif err := mp.canStartWriting(); err != nil {\n\t\t\t\tmp.log.Printf(\"Recording not started: %v\", err)\n\t\t\t} else if err := mp.startRecording(); err != nil {\n\t\t\t\tmp.log.Printf(\"Can't start recording file: %v\", err)\n\t\t\t} else {\n\t\t\t\tmp.writeUntil = mp.minFrames\n\t\t\t}\n\t\t}\n", False))

benign("process-write-helper", "writing the current frame moved into a helper method (correct refactor)",
       (MP, "\tif mp.isRecording {\n\t\terr := mp.recorder.WriteFrame(frame)\n\t\tif err != nil {\n\t\t\tmp.log.Printf(\"Failed to write to CPTV file %v\", err)\n\t\t}\n\t\tmp.framesWritten++\n\t}\n", "\tif mp.isRecording {\n\t\tmp.writeCurrent(frame)\n\t}\n", False),
       (MP, "func (mp *MotionProcessor) ProcessFrame(", "func (mp *MotionProcessor) writeCurrent(frame *cptvframe.Frame) {\n\tif err := mp.recorder.WriteFrame(frame); err != nil {\n\t\tmp.log.Printf(\"Failed to write to CPTV file %v\", err)\n\t}\n\tmp.framesWritten++\n}\n\nfunc (mp *MotionProcessor) ProcessFrame(", False))

benign("header-device-id-unconditional-when-positive", "NewCPTVFileRecorder sets DeviceID through a local (same condition)",
       (CF, "\tif config.DeviceID > 0 {\n\t\tcptvHeader.DeviceID = config.DeviceID\n\t}\n", "\tif id := config.DeviceID; id > 0 {\n\t\tcptvHeader.DeviceID = id\n\t}\n", False))

benign("handler-marker-compared-as-bytes-string", "handleConn compares the probe without the intermediate variable",
       (MAIN, "\t\tmessage := string(rawFrame[:5])\n\t\tif message == clearBuffer {", "\t\tif string(rawFrame[:5]) == clearBuffer {", False),
       (MAIN, "\t\tmessage = string(rawFrame[:5])\n\t\ttotalFrames++", "\t\ttotalFrames++", False))

benign("writer-frame-count-log", "thermal-writer logs every 1000th frame differently (no data-path change)",
       (TW, "\t\t\tlog.Printf(\"%d frames for this connection\", totalFrames)", "\t\t\tlog.Printf(\"%d frames so far on this connection\", totalFrames)", False))

benign("detector-ctor-helpers", "detector constructor allocates its background through a helper; Reset zeroes its counters through a helper (correct refactor)",
       (MO, "\td.background = cptvframe.NewFrame(camera)\n\td.background.Status.BackgroundFrame = true\n\td.backgroundWeight = make([][]float32, camera.ResY())\n\tfor i := range d.backgroundWeight {\n\t\td.backgroundWeight[i] = make([]float32, camera.ResX())\n\t}\n\n\treturn d\n}\n",
        "\td.allocBackground(camera)\n\n\treturn d\n}\n\nfunc (d *motionDetector) allocBackground(camera cptvframe.CameraSpec) {\n\td.background = cptvframe.NewFrame(camera)\n\td.background.Status.BackgroundFrame = true\n\td.backgroundWeight = make([][]float32, camera.ResY())\n\tfor i := range d.backgroundWeight {\n\t\td.backgroundWeight[i] = make([]float32, camera.ResX())\n\t}\n}\n\nfunc (d *motionDetector) restartCounters() {\n\td.backgroundFrames = 0\n\td.count = 0\n}\n", False),
       (MO, "\td.backgroundFrames = 0\n\td.count = 0\n\td.flooredFrames.Reset()", "\td.restartCounters()\n\td.flooredFrames.Reset()", False))

benign("pretrigger-early-return-single-frame", "recordPreTriggerFrames returns at once when the history holds only the current frame (correct shortcut)",
       (MP, "\tii := 0\n\n\t// it never writes the current frame as this will be written later\n", "\tii := 0\n\tif len(frames) <= 1 {\n\t\treturn nil\n\t}\n\n\t// it never writes the current frame as this will be written later\n", False))

benign("handler-marker-switch", "handleConn tests the marker with a switch statement (correct refactor)",
       (MAIN, "\t\tif message == clearBuffer {\n\t\t\tlog.Print(\"clearing motion buffer\")\n\t\t\tprocessor.Reset(headerInfo)\n\t\t\tcontinue\n\t\t}\n", "\t\tswitch message {\n\t\tcase clearBuffer:\n\t\t\tlog.Print(\"clearing motion buffer\")\n\t\t\tprocessor.Reset(headerInfo)\n\t\t\tcontinue\n\t\t}\n", False))

benign("handler-verbose-log-before-process", "handleConn logs each frame when verbose, between the read and Process (no frame skipped)",
       (MAIN, "\t\terr = processor.Process(rawFrame)\n", "\t\tif conf.Verbose && totalFrames < 10 {\n\t\t\tlog.Printf(\"frame %d read\", totalFrames)\n\t\t}\n\t\terr = processor.Process(rawFrame)\n", False))

benign("writer-reader-logs-slow-disk", "thermal-writer reader logs when the queue is long, then forwards the frame as before",
       (TW, "\t\twriteFrames <- frame\n", "\t\tif len(writeFrames) > inFlight/2 {\n\t\t\tlog.Print(\"disk is falling behind\")\n\t\t}\n\t\twriteFrames <- frame\n", False))

benign("writer-goroutine-ok-first", "writer goroutine tests the open channel first (if ok {...} else {close; return})",
       (TW, "\t\t\tif !ok {\n\t\t\t\tbuilder.Close()\n\t\t\t\treturn\n\t\t\t}\n\t\t\tif err := writeFrame(builder, frame); err != nil {\n\t\t\t\tpanic(err)\n\t\t\t}\n\t\t\toutFrames <- frame // Return the frame to be reused\n",
        "\t\t\tif ok {\n\t\t\t\tif err := writeFrame(builder, frame); err != nil {\n\t\t\t\t\tpanic(err)\n\t\t\t\t}\n\t\t\t\toutFrames <- frame // Return the frame to be reused\n\t\t\t} else {\n\t\t\t\tbuilder.Close()\n\t\t\t\treturn\n\t\t\t}\n", False))

benign("processor-detector-local", "NewMotionProcessor builds the detector into a local first (no caching of its fields)",
       (MP, "\treturn &MotionProcessor{\n\t\tparseFrame:        parseFrame,", "\tdetector := NewMotionDetector(*motionConf, recorderConf.PreviewSecs*c.FPS(), c)\n\treturn &MotionProcessor{\n\t\tparseFrame:        parseFrame,", False),
       (MP, "\t\tmotionDetector:    NewMotionDetector(*motionConf, recorderConf.PreviewSecs*c.FPS(), c),", "\t\tmotionDetector:    detector,", False))

benign("stop-notifies-listener-last", "stopRecording notifies the listener after the bookkeeping (same calls)",
       (MP, "\tif mp.listener != nil {\n\t\tmp.listener.RecordingEnded()\n\t}\n\n\terr := mp.recorder.StopRecording()\n\n\tmp.framesWritten = 0\n\tmp.writeUntil = 0\n\tmp.isRecording = false\n\tmp.triggered = 0\n\t// if it starts recording again very quickly it won't write the same frames again\n\tmp.frameLoop.SetAsOldest()\n\n\treturn err",
        "\terr := mp.recorder.StopRecording()\n\n\tmp.framesWritten = 0\n\tmp.writeUntil = 0\n\tmp.isRecording = false\n\tmp.triggered = 0\n\t// if it starts recording again very quickly it won't write the same frames again\n\tmp.frameLoop.SetAsOldest()\n\tif mp.listener != nil {\n\t\tmp.listener.RecordingEnded()\n\t}\n\n\treturn err", False))

benign("window-wrapper-fresh", "the processor keeps its window in a small wrapper struct whose Active() asks the configured window every time",
       (MP, "\t\twindow:            recorderConf.Window,", "\t\twindow:            recordingWindow{Window: recorderConf.Window},", False),
       (MP, "\twindow            window.Window\n", "\twindow            recordingWindow\n", False),
       (MP, "type RecordingListener interface {", "type recordingWindow struct {\n\twindow.Window\n\tasked int\n}\n\nfunc (rw *recordingWindow) Active() bool {\n\trw.asked++\n\treturn rw.Window.Active()\n}\n\ntype RecordingListener interface {", False))
benign("set-floor-two-branches", "setFloor copies on both branches of a debug test",
       (MO, "\tout.Copy(f)\n\treturn out\n", "\tif d.debug != nil {\n\t\td.debug.update(\"floor\", 1)\n\t\tout.Copy(f)\n\t\treturn out\n\t}\n\tout.Copy(f)\n\treturn out\n", False))

benign("process-frame-row-copy", "ProcessFrame copies the source frame row by row instead of through Frame.Copy",
       (MP, "\tframe.Copy(srcFrame)\n", "\tframe.Status = srcFrame.Status\n\tfor y := range frame.Pix {\n\t\tcopy(frame.Pix[y], srcFrame.Pix[y])\n\t}\n", False))
benign("copyrecent-local-after-lock", "CopyRecent keeps the chosen slot in a local (still under the lock)",
       (FL, "\tpreviousIndex := (fl.currentIndex - 1 + fl.size) % fl.size\n\treturn fl.frames[previousIndex].CreateCopy()", "\tpreviousIndex := (fl.currentIndex - 1 + fl.size) % fl.size\n\trecent := fl.frames[previousIndex]\n\treturn recent.CreateCopy()", False))
benign("stop-constant-logs-error", "stopConstantRecorder logs a failing stop but still clears its counter",
       (MP, "\tmp.constantRecorder.StopRecording()\n\tmp.crFrames = 0\n", "\tif err := mp.constantRecorder.StopRecording(); err != nil {\n\t\tmp.log.Printf(\"error with stoping constant recorder: %v\", err)\n\t}\n\tmp.crFrames = 0\n", False))
benign("mean-through-local", "the mean accumulates a local read after the update",
       (MO, "\t\t\taverage = average + float64(d.background.Pix[y][x])/d.numPixels\n\t\t\tfor x := 0; x < d.start; x++ {", "\t\t\tupdated := d.background.Pix[y][x]\n\t\t\taverage = average + float64(updated)/d.numPixels\n\t\t\tfor x := 0; x < d.start; x++ {", False))
benign("request-nonblocking-notify", "RequestSnapshot also pokes a buffered channel without blocking",
       (MP, "\tatomic.StoreUint32(&mp.startSnapshot, 1)\n}", "\tatomic.StoreUint32(&mp.startSnapshot, 1)\n\tselect {\n\tcase snapshotPoke <- struct{}{}:\n\tdefault:\n\t}\n}\n\nvar snapshotPoke = make(chan struct{}, 1)", False))

# test seams: package-level function variables whose default is the original function (E1c)
benign("seam-recorder-remove-rename-now", "the file recorder reaches os.Remove, os.Rename and time.Now through package-level function variables",
       (CF, "var reTempName = regexp.MustCompile(", "var (\n\tremoveFile = os.Remove\n\trenameFile = os.Rename\n\tnow        = time.Now\n)\n\nvar reTempName = regexp.MustCompile(", False),
       (CF, "\t\tos.Remove(fw.writer.Name())", "\t\tremoveFile(fw.writer.Name())", False),
       (CF, "\t\t\tif err := os.Remove(filename); err != nil {", "\t\t\tif err := removeFile(filename); err != nil {", False),
       (CF, "\terr := os.Rename(tempName, finalName)", "\terr := renameFile(tempName, finalName)", False),
       (CF, "\treturn time.Now().Format(", "\treturn now().Format(", False))
benign("seam-writer-file-name-clock", "thermal-writer takes the file name's time from a package-level clock variable",
       ("cmd/thermal-writer/thermalraw.go", "func nextFileName(", "var clock = time.Now\n\nfunc nextFileName(", False),
       ("cmd/thermal-writer/thermalraw.go", "time.Now().Format(\"2006_01_02T15_04_05\")", "clock().Format(\"2006_01_02T15_04_05\")", False))

here = os.path.dirname(os.path.abspath(__file__))
for f in os.listdir(os.path.join(here, "benign")):
    os.unlink(os.path.join(here, "benign", f))
for name, d in B:
    json.dump(d, open(os.path.join(here, "benign", name + ".json"), "w"), indent=1)
print(len(B), "benign edits")
