#!/usr/bin/env python3
# helper to (re)generate seed files from a compact table; seeds are textual edits applied to the CURRENT tree in memory
import json, os, sys
MP = "motion/motionprocessor.go"
S = []
def seed(pid, name, what, expect, *edits):
    S.append((pid, name, dict(what=what, expect=expect, edits=[dict(file=f, old=o, new=n) for f, o, n in edits])))

# ---- C01
seed("C01", "pretrigger-includes-current", "pre-trigger loop also writes the current frame (written twice)", ["C01.O3"],
     (MP, "for ii < len(frames)-1 {", "for ii < len(frames) {"))
seed("C01", "no-mark-at-stop", "stopRecording no longer marks the next slot as oldest", ["C01.O2"],
     (MP, "\tmp.frameLoop.SetAsOldest()\n", ""))
seed("C01", "move-after-stop", "the ring is advanced after the stop check instead of before it", ["C01.O2", "C01.O1"],
     (MP, "\tmp.frameLoop.Move()\n\n\tif mp.isRecording && mp.framesWritten >= mp.writeUntil {\n\t\terr := mp.stopRecording()\n\t\tif err != nil {\n\t\t\tmp.log.Printf(\"Failed to stop recording CPTV file %v\", err)\n\t\t}\n\t}\n",
          "\tif mp.isRecording && mp.framesWritten >= mp.writeUntil {\n\t\terr := mp.stopRecording()\n\t\tif err != nil {\n\t\t\tmp.log.Printf(\"Failed to stop recording CPTV file %v\", err)\n\t\t}\n\t}\n\tmp.frameLoop.Move()\n"))
seed("C01", "write-only-on-motion", "the current frame is written only when motion was detected on it", ["C01.O1"],
     (MP, "\t// If recording, write the frame.\n\tif mp.isRecording {", "\t// If recording, write the frame.\n\tif mp.isRecording && mp.triggered > 0 {"))
# ---- C02
seed("C02", "ring-size-const-fps", "ring capacity derived from a hard-coded 9 fps", ["C02.P1"],
     (MP, "NewFrameLoop(recorderConf.PreviewSecs*c.FPS()+motionConf.TriggerFrames, c)", "NewFrameLoop(recorderConf.PreviewSecs*9+motionConf.TriggerFrames, c)"))
seed("C02", "ring-size-no-trigger", "ring capacity without trigger-frames", ["C02.P1"],
     (MP, "NewFrameLoop(recorderConf.PreviewSecs*c.FPS()+motionConf.TriggerFrames, c)", "NewFrameLoop(recorderConf.PreviewSecs*c.FPS(), c)"))
seed("C02", "pretrigger-skips-oldest", "pre-trigger loop starts at index 1", ["C02.P2"],
     (MP, "\tii := 0\n", "\tii := 1\n"))
# ---- C03
seed("C03", "no-max-cap", "extension without the max-secs cap", ["C03.L2"],
     (MP, "mp.writeUntil = min(mp.framesWritten+mp.minFrames, mp.maxFrames)", "mp.writeUntil = mp.framesWritten + mp.minFrames"))
seed("C03", "min-frames-const-fps", "minFrames from a hard-coded 9 fps", ["C03.L2", "C03.L1"],
     (MP, "minFrames:         recorderConf.MinSecs * c.FPS(),", "minFrames:         recorderConf.MinSecs * 9,"))
seed("C03", "stop-strict", "stop when written > target", ["C03.L3"],
     (MP, "mp.framesWritten >= mp.writeUntil", "mp.framesWritten > mp.writeUntil"))
seed("C03", "extend-every-frame", "target extended on motionless frames too", ["C03.L2"],
     (MP, "\t} else {\n\t\tmp.triggered = 0\n\t}", "\t} else {\n\t\tmp.triggered = 0\n\t\tif mp.isRecording {\n\t\t\tmp.writeUntil = min(mp.framesWritten+mp.minFrames, mp.maxFrames)\n\t\t}\n\t}"))
seed("C03", "validate-inverted", "config validation accepts max < min", ["C03.L5"],
     ("recorder/recorderconfig.go", "if conf.MaxSecs < conf.MinSecs {", "if conf.MaxSecs < 0 {"))
# ---- C04
seed("C04", "no-window", "window gate dropped", ["C04.S1", "C04.S2"],
     (MP, "if !mp.window.Active() {", "if false && !mp.window.Active() {"))
seed("C04", "trigger-off-by-one", "start refused while triggered <= triggerFrames", ["C04.S4", "C04.S1"],
     (MP, "mp.triggered < mp.triggerFrames", "mp.triggered <= mp.triggerFrames"))
seed("C04", "reset-on-refusal", "counter reset when the start is refused", ["C04.S3"],
     (MP, "\t\t\tmp.log.Printf(\"Recording not started: %v\", err)\n", "\t\t\tmp.log.Printf(\"Recording not started: %v\", err)\n\t\t\tmp.triggered = 0\n"))
seed("C04", "disk-strict", "disk gate uses > instead of >=", ["C04.S5"],
     ("cmd/thermal-recorder/cptvfilerecorder.go", "fs.Bavail*uint64(fs.Bsize)/1024/1024 >= mb", "fs.Bavail*uint64(fs.Bsize)/1024/1024 > mb"))
seed("C04", "start-on-still-frame", "a pending start is performed on a motionless frame", ["C04.S1", "C04.S3"],
     (MP, "\t} else {\n\t\tmp.triggered = 0\n\t}", "\t} else {\n\t\tif mp.triggered >= mp.triggerFrames && !mp.isRecording {\n\t\t\tmp.startRecording()\n\t\t}\n\t\tmp.triggered = 0\n\t}"))
# ---- C12
seed("C12", "flag-before-start", "isRecording set before the start succeeded", ["C12.Y1", "C12.Y3"],
     (MP, "\tif err := mp.recorder.StartRecording(mp.motionDetector.background, mp.motionDetector.tempThresh); err != nil {\n\t\treturn err\n\t}\n\n\tmp.isRecording = true\n",
          "\tmp.isRecording = true\n\tif err := mp.recorder.StartRecording(mp.motionDetector.background, mp.motionDetector.tempThresh); err != nil {\n\t\treturn err\n\t}\n\n"))
seed("C12", "crframes-not-reset-on-badframe", "regression of fix 921e0e3", ["C12.Y1", "C12.Y3"],
     (MP, "\tmp.constantRecorder.StopRecording()\n\tmp.crFrames = 0\n", "\tmp.constantRecorder.StopRecording()\n"))
seed("C12", "second-request-restarts", "regression of fix 27bf03e", ["C12.Y2"],
     (MP, "atomic.CompareAndSwapUint32(&mp.startSnapshot, 1, 0) && !mp.SnapshotRecording {", "atomic.CompareAndSwapUint32(&mp.startSnapshot, 1, 0) {"))
seed("C12", "test-write-before-start", "test sink written before its start", ["C12.Y1"],
     (MP, "\tif !mp.SnapshotRecording {\n\t\treturn\n\t}\n", ""))
# ---- C13
seed("C13", "badframe-keeps-recording", "bad frame no longer stops the motion recording", ["C13.B2"],
     (MP, "\t\tmp.stopRecording()\n\t\tmp.stopConstantRecorder()\n\t\treturn err", "\t\tmp.stopConstantRecorder()\n\t\treturn err"))
seed("C13", "badframe-advances-ring", "ring advanced even when parsing failed", ["C13.B2"],
     (MP, "\t\tmp.stopRecording()\n\t\tmp.stopConstantRecorder()\n\t\treturn err", "\t\tmp.stopRecording()\n\t\tmp.stopConstantRecorder()\n\t\tmp.frameLoop.Move()\n\t\treturn err"))
seed("C13", "badframe-error-swallowed", "Process returns nil for a bad frame", ["C13.B2"],
     (MP, "\t\tmp.stopRecording()\n\t\tmp.stopConstantRecorder()\n\t\treturn err", "\t\tmp.stopRecording()\n\t\tmp.stopConstantRecorder()\n\t\treturn nil"))
# ---- C17
seed("C17", "continuous-off-by-one", "continuous file closed at count >= K", ["C17.V2"],
     (MP, "if mp.crFrames > mp.maxFrames {", "if mp.crFrames >= mp.maxFrames {"))
seed("C17", "test-20-frames", "test recording closed at 20 frames", ["C17.V2"],
     (MP, "if mp.snapshotFrames > 20 {", "if mp.snapshotFrames >= 20 {"))
seed("C17", "test-starts-late", "test file opened but the consuming frame not written", ["C17.V3"],
     (MP, "\t\tmp.SnapshotRecording = true\n\t}", "\t\tmp.SnapshotRecording = true\n\t\treturn\n\t}"))
seed("C17", "continuous-only-when-idle", "continuous recorder skipped while a motion recording is open", ["C17.V1"],
     (MP, "\tmp.processConstantRecorder(frame)", "\tif !mp.isRecording {\n\t\tmp.processConstantRecorder(frame)\n\t}"))
seed("C17", "continuous-throttled", "continuous sink routed through the throttler", ["C17.V5"],
     ("cmd/thermal-recorder/main.go", "\t\theaderInfo,\n\t\tconstantRecorder,", "\t\theaderInfo,\n\t\tthrottle.NewThrottledRecorder(constantRecorder, &conf.Throttler, 1, nil, headerInfo),"))

TH = "throttle/throttled_recorder.go"
MAIN = "cmd/thermal-recorder/main.go"
# ---- C05
seed("C05", "forward-before-take", "frame forwarded before the token is taken", ["C05.T1"],
     (TH, "\tif throttler.bucket.TakeAvailable(1) > 0 {\n\t\treturn throttler.recorder.WriteFrame(frame)\n\t}\n",
          "\terr := throttler.recorder.WriteFrame(frame)\n\tif throttler.bucket.TakeAvailable(1) > 0 {\n\t\treturn err\n\t}\n"))
seed("C05", "bucket-const-fps", "bucket capacity from a constant fps", ["C05.T2"],
     (TH, "bucketFrames := int64(config.BucketSize.Seconds()) * int64(camera.FPS())", "bucketFrames := int64(config.BucketSize.Seconds()) * 9"))
seed("C05", "refill-per-second", "refill rate ignores min-refill", ["C05.T2"],
     (TH, "refillRate := float64(minFrames) / config.MinRefill.Seconds()", "refillRate := float64(minFrames)"))
seed("C05", "min-length-without-preview", "minimum recording length without preview-secs", ["C05.T3"],
     (MAIN, "minRecordingLength := conf.Recorder.MinSecs + conf.Recorder.PreviewSecs", "minRecordingLength := conf.Recorder.MinSecs"))
seed("C05", "activate-ignored", "bare recorder wired although the throttler is activated", ["C05.T3"],
     (MAIN, "\t\trecorder = throttle.NewThrottledRecorder(", "\t\t_ = throttle.NewThrottledRecorder("))
seed("C05", "take-two", "two tokens per frame", ["C05.T1"],
     (TH, "throttler.bucket.TakeAvailable(1) > 0", "throttler.bucket.TakeAvailable(2) > 0"))
# ---- C06
seed("C06", "event-per-dropped-frame", "an event for every frame dropped while throttled", ["C06.X3"],
     (TH, "\t\tif !throttler.recording {\n\t\t\treturn nil\n\t\t}\n", "\t\tif !throttler.recording {\n\t\t\tthrottler.listener.WhenThrottled()\n\t\t\treturn nil\n\t\t}\n"))
seed("C06", "restart-without-budget", "mid-trigger restart without the Available test", ["C06.X2"],
     (TH, "\tif !throttler.recording {\n\t\tif err := throttler.maybeStartRecording(throttler.backgroundFrame, throttler.tempThresh); err != nil {\n\t\t\treturn err\n\t\t}\n",
          "\tif !throttler.recording {\n\t\tif err := throttler.recorder.StartRecording(throttler.backgroundFrame, throttler.tempThresh); err != nil {\n\t\t\treturn err\n\t\t}\n\t\tthrottler.recording = true\n"))
seed("C06", "flag-not-cleared-on-cut", "recording flag left set after the cut", ["C06.X1", "C06.X3"],
     (TH, "\tif throttler.recording {\n\t\tthrottler.recording = false\n\t\treturn throttler.recorder.StopRecording()\n\t}", "\tif throttler.recording {\n\t\treturn throttler.recorder.StopRecording()\n\t}"))
seed("C06", "swap-remembered", "remembered background/threshold not stored (restart uses stale values)", ["C06.X4"],
     (TH, "\tthrottler.backgroundFrame = background\n", ""))
seed("C06", "flag-before-start", "recording flag set although the wrapped start failed", ["C06.X1"],
     (TH, "\t\tif err := throttler.recorder.StartRecording(background, tempThresh); err != nil {\n\t\t\treturn err\n\t\t}\n\t\tthrottler.recording = true",
          "\t\tthrottler.recording = true\n\t\tif err := throttler.recorder.StartRecording(background, tempThresh); err != nil {\n\t\t\treturn err\n\t\t}"))
seed("C06", "min-length-const-fps", "minimum length from a constant fps", ["C06.X2"],
     (TH, "minFrames := int64(minSeconds * camera.FPS())", "minFrames := int64(minSeconds * 9)"))

LL = "loglimiter/loglimiter.go"
# ---- C20
seed("C20", "interval-inclusive", "suppression also exactly at the interval boundary", ["C20.G1"],
     (LL, "now.Sub(limiter.previousTime) < limiter.interval", "now.Sub(limiter.previousTime) <= limiter.interval"))
seed("C20", "or-instead-of-and", "suppress on same message OR within interval", ["C20.G1"],
     (LL, "< limiter.interval && s == limiter.previousEntry", "< limiter.interval || s == limiter.previousEntry"))
seed("C10", "cleanup-ignores-remove-error", "the start-up clean-up ignores a failing removal and carries on", ["C10.D5"],
     ("cmd/thermal-recorder/cptvfilerecorder.go", "\t\t\tif err := os.Remove(filename); err != nil {\n\t\t\t\treturn err\n\t\t\t}", "\t\t\tos.Remove(filename)"))
seed("C19", "slots-share-one-frame", "the constructor allocates one frame outside the filling loop and puts it into every slot", ["C19.Q2"],
     ("motion/frameloop.go", "\tfor i := range frames {\n\t\tframes[i] = cptvframe.NewFrame(camera)\n\t}", "\tblank := cptvframe.NewFrame(camera)\n\tfor i := range frames {\n\t\tframes[i] = blank\n\t}"))
seed("C20", "direct-log-in-frame-path", "a per-frame message printed with log.Printf instead of through the limiter", ["C20.G1"],
     (MP, "\t\t\tmp.log.Printf(\"Recording not started: %v\", err)", "\t\t\tlog.Printf(\"Recording not started: %v\", err)"),
     (MP, "import (\n", "import (\n\t\"log\"\n"))
seed("C20", "suppressed-extends-window", "time updated when suppressing", ["C20.G3"],
     (LL, "s == limiter.previousEntry {\n\t\treturn", "s == limiter.previousEntry {\n\t\tlimiter.previousTime = now\n\t\treturn"))
seed("C20", "interval-one-second", "recorder builds the limiter with one second", ["C20.G5"],
     (MP, "const minLogInterval = time.Minute", "const minLogInterval = time.Second"))
seed("C20", "entry-not-remembered", "last entry not updated when printing", ["C20.G3"],
     (LL, "\tlimiter.previousEntry = s\n", ""))
seed("C20", "message-decorated", "printed message is decorated", ["C20.G2"],
     (LL, "\tlog.Print(s)", "\tlog.Print(\"recorder: \" + s)"))

MO = "motion/motion.go"
# ---- C07
seed("C07", "delta-inclusive", "pixel counted when diff >= delta", ["C07.K4"],
     (MO, "\t\t\tif v > d.deltaThresh {", "\t\t\tif v >= d.deltaThresh {"))
seed("C07", "count-strict", "motion only when count > count-thresh", ["C07.K4"],
     (MO, "return deltaCount >= d.countThresh, deltaCount", "return deltaCount > d.countThresh, deltaCount"))
seed("C07", "clamp-one-operand", "only the current frame is raised to temp-thresh in the abs kernel", ["C07.K2"],
     (MO, "\t\t\tvb := b.Pix[y][x]\n\t\t\tif vb < d.tempThresh {\n\t\t\t\tvb = d.tempThresh\n\t\t\t}\n\t\t\tout.Pix[y][x] = absDiff(va, vb)", "\t\t\tvb := b.Pix[y][x]\n\t\t\tout.Pix[y][x] = absDiff(va, vb)"))
seed("C07", "compare-gap-off-by-one", "comparison ring holds only frame-compare-gap frames", ["C07.K5"],
     (MO, "NewFrameLoop(args.FrameCompareGap+1, camera)", "NewFrameLoop(args.FrameCompareGap, camera)"))
seed("C07", "two-diff-or", "two-diff test uses OR", ["C07.K4"],
     (MO, "(v1 > d.deltaThresh) && (v2 > d.deltaThresh)", "(v1 > d.deltaThresh) || (v2 > d.deltaThresh)"))
seed("C07", "warmer-uses-abs", "warmer-only computes the absolute difference", ["C07.K2", "C07.K3"],
     (MO, "out.Pix[y][x] = warmerDiff(va, vb)", "out.Pix[y][x] = absDiff(va, vb)"))
seed("C07", "first-frame-verdict", "first comparison already produces a verdict", ["C07.K6", "C07.F1"],
     (MO, "\tif !d.firstDiff {\n\t\td.firstDiff = true\n\t\treturn false, 0\n\t}\n", "\td.firstDiff = true\n"))
seed("C07", "diff-in-uint16", "difference computed in uint16 (wraps)", ["C07.K3", "C07.K2"],
     (MO, "func warmerDiff(a, b uint16) uint16 {\n\td := int32(a) - int32(b)\n\n\tif d < 0 {\n\t\treturn 0\n\t}\n\treturn uint16(d)", "func warmerDiff(a, b uint16) uint16 {\n\td := a - b\n\n\tif a < b {\n\t\treturn 0\n\t}\n\treturn d"))
# ---- C08
seed("C08", "count-includes-border-rows", "counting loop starts at row 0", ["C08.N1"],
     (MO, "\tvar deltaCount int\n\tfor y := d.start; y < d.rowStop; y++ {\n\t\tfor x := d.start; x < d.columnStop; x++ {\n\t\t\tv := f1.Pix[y][x]", "\tvar deltaCount int\n\tfor y := 0; y < d.rowStop; y++ {\n\t\tfor x := d.start; x < d.columnStop; x++ {\n\t\t\tv := f1.Pix[y][x]"))
seed("C08", "neighbour-read", "difference reads the left neighbour (border column for x = start)", ["C08.N1"],
     (MO, "\t\t\tvb := b.Pix[y][x]\n\t\t\tif vb < d.tempThresh {\n\t\t\t\tvb = d.tempThresh\n\t\t\t}\n\t\t\tout.Pix[y][x] = absDiff(va, vb)", "\t\t\tvb := b.Pix[y][x-1]\n\t\t\tif vb < d.tempThresh {\n\t\t\t\tvb = d.tempThresh\n\t\t\t}\n\t\t\tout.Pix[y][x] = absDiff(va, vb)"))
seed("C08", "unclamped-operand", "unclamped pixel used in the difference", ["C08.N4"],
     (MO, "out.Pix[y][x] = absDiff(va, vb)", "out.Pix[y][x] = absDiff(a.Pix[y][x], vb)"))
seed("C08", "border-from-input-border", "background border seeded from the input's border pixel", ["C08.N3", "C08.N1"],
     (MO, "d.background.Pix[y][x] = new_frame.Pix[y][d.start]", "d.background.Pix[y][x] = new_frame.Pix[y][x]"))
seed("C08", "background-without-dynamic", "background updated with a fixed threshold too", ["C08.N5"],
     (MO, "if d.dynamicThresh && !d.affectedByFCC {", "if !d.affectedByFCC {"))
seed("C08", "wide-seed-copy", "seed copies whole rows of the input", ["C08.N2"],
     (MO, "copy(d.background.Pix[y][d.start:d.columnStop], new_frame.Pix[y][d.start:d.columnStop])", "copy(d.background.Pix[y], new_frame.Pix[y])"))
# ---- C09
seed("C09", "only-current-ffc", "frame directly after the FFC period is compared", ["C09.F1", "C09.F3"],
     (MO, "if isAffectedByFFC(frame) || prevFFC {", "if isAffectedByFFC(frame) {"))
seed("C09", "ffc-period-1s", "FFC period shortened to 1 s", ["C09.F2"],
     (MO, "const ffcPeriod = 10 * time.Second", "const ffcPeriod = 1 * time.Second"))
seed("C09", "ffc-inclusive", "FFC period test inclusive", ["C09.F2"],
     (MO, "f.Status.TimeOn-f.Status.LastFFCTime < ffcPeriod", "f.Status.TimeOn-f.Status.LastFFCTime <= ffcPeriod"))
seed("C09", "no-remark-after-ffc", "comparison ring not re-marked on FFC", ["C09.F3"],
     (MO, "\t\td.flooredFrames.SetAsOldest()\n", ""))
seed("C09", "reset-without-detector", "camera reset does not reset the detector", ["C09.F5"],
     (MP, "\tmp.motionDetector.Reset(camera)\n", ""))
seed("C09", "reset-keeps-compare-ring", "detector reset keeps the comparison history", ["C09.F5"],
     (MO, "\td.flooredFrames.Reset()\n", ""))
seed("C09", "prev-after-store", "previous FFC state read after it was overwritten", ["C09.F1"],
     (MO, "\tprevFFC := d.affectedByFCC\n\td.affectedByFCC = isAffectedByFFC(frame)", "\td.affectedByFCC = isAffectedByFFC(frame)\n\tprevFFC := d.affectedByFCC"))
seed("C09", "background-during-ffc", "background updated during FFC", ["C09.F4"],
     (MO, "if d.dynamicThresh && !d.affectedByFCC {", "if d.dynamicThresh {"))
# ---- C15
seed("C15", "min-ignored-with-max", "regression of fix 23ba4d9", ["C15.A1"],
     (MO, "\tif d.tempThreshMax != 0 {\n\t\tbackAverage = math.Min(backAverage, float64(d.tempThreshMax))", "\tif d.tempThreshMax != 0 {\n\t\tbackAverage = math.Min(orig, float64(d.tempThreshMax))"),
     (MO, "func (d *motionDetector) calculateThreshold(backAverage float64) {\n", "func (d *motionDetector) calculateThreshold(backAverage float64) {\n\torig := backAverage\n"))
seed("C15", "seed-mean-zero", "regression of fix efec66d", ["C15.A2"],
     (MO, "\t\treturn average, true\n\t}\n\n\tvar changed bool = false", "\t\treturn 0, true\n\t}\n\n\tvar changed bool = false"))
seed("C15", "bounds-swapped", "max applied as lower bound and min as upper bound", ["C15.A1"],
     (MO, "backAverage = math.Max(backAverage, float64(d.tempThreshMin))", "backAverage = math.Min(backAverage, float64(d.tempThreshMin))"))
seed("C15", "mean-over-whole-frame", "mean accumulated over all columns", ["C15.A2", "C15.A3", "C15.A5"],
     (MO, "\tfor y := d.start; y < d.rowStop; y++ {\n\t\tfor x := d.start; x < d.columnStop; x++ {\n\t\t\tweight := d.backgroundWeight[y][x]", "\tfor y := d.start; y < d.rowStop; y++ {\n\t\tfor x := 0; x < d.columnStop; x++ {\n\t\t\tweight := d.backgroundWeight[y][x]"))
seed("C15", "no-reseed-after-ffc", "background not re-seeded after FFC", ["C15.A4"],
     (MO, "if prevFFC || (float32(new_frame.Pix[y][x])-weight) < float32(d.background.Pix[y][x]) {", "if (float32(new_frame.Pix[y][x]) - weight) < float32(d.background.Pix[y][x]) {"))
seed("C15", "stale-threshold-stored", "recording stores the configured threshold instead of the current one", ["C15.A6"],
     (MP, "mp.recorder.StartRecording(mp.motionDetector.background, mp.motionDetector.tempThresh)", "mp.recorder.StartRecording(mp.motionDetector.background, mp.motionDetector.tempThreshMin)"))
seed("C15", "envelope-raises", "background raised immediately", ["C15.A5"],
     (MO, "(float32(new_frame.Pix[y][x])-weight) < float32(d.background.Pix[y][x])", "(float32(new_frame.Pix[y][x])-weight) > float32(d.background.Pix[y][x])"))
seed("C15", "numpixels-whole-frame", "mean divided by the whole frame's pixel count", ["C15.A2"],
     (MO, "d.numPixels = float64((d.rowStop - d.start) * (d.columnStop - d.start))", "d.numPixels = float64(camera.ResY() * camera.ResX())"))

FL = "motion/frameloop.go"
# ---- C19
seed("C19", "copyrecent-no-wrap", "previous index without + size", ["C19.Q6", "C19.Q2"],
     (FL, "previousIndex := (fl.currentIndex - 1 + fl.size) % fl.size", "previousIndex := (fl.currentIndex - 1) % fl.size"))
seed("C19", "history-length-off-by-one", "history length without + 1", ["C19.Q4"],
     (FL, "historyLength := (fl.currentIndex-fl.oldest+fl.size)%fl.size + 1", "historyLength := (fl.currentIndex - fl.oldest + fl.size) % fl.size"))
seed("C19", "mark-never-expires", "mark not cleared when overwritten", ["C19.Q3"],
     (FL, "\tif fl.currentIndex == fl.oldest {\n\t\tfl.oldest = NO_OLDEST_SET\n\t}\n", ""))
seed("C19", "reset-keeps-wrapped", "Reset leaves bufferFull set", ["C19.Q3"],
     (FL, "\tfl.oldest = 0\n\tfl.bufferFull = false\n", "\tfl.oldest = 0\n"))
seed("C19", "oldest-is-current", "Oldest returns the current slot when unmarked", ["C19.Q6"],
     (FL, "return fl.frames[fl.nextIndexAfter(fl.currentIndex)]", "return fl.frames[fl.currentIndex]"))
seed("C19", "rotation-wrong-offset", "second copy segment placed at the wrong offset", ["C19.Q5"],
     (FL, "copy(fl.orderedFrames[fl.size-nextIndex:], fl.frames[:nextIndex])", "copy(fl.orderedFrames[nextIndex:], fl.frames[:nextIndex])"))
seed("C19", "copyrecent-unlocked", "CopyRecent without the lock", ["C19.Q6"],
     (FL, "func (fl *FrameLoop) CopyRecent() *cptvframe.Frame {\n\tfl.mu.Lock()\n\tdefer fl.mu.Unlock()\n", "func (fl *FrameLoop) CopyRecent() *cptvframe.Frame {\n"))
seed("C19", "copyrecent-aliases", "CopyRecent returns the slot itself", ["C19.Q6"],
     (FL, "return fl.frames[previousIndex].CreateCopy()", "return fl.frames[previousIndex]"))
seed("C19", "unwrapped-returns-all", "not-yet-wrapped history includes unwritten slots", ["C19.Q5"],
     (FL, "\t\treturn fl.orderedFrames[:nextIndex]", "\t\treturn fl.orderedFrames"))
seed("C19", "mark-next-slot", "SetAsOldest marks the following slot", ["C19.Q3"],
     (FL, "\tfl.oldest = fl.currentIndex\n", "\tfl.oldest = fl.nextIndexAfter(fl.currentIndex)\n"))

SNAP = "cmd/thermal-recorder/snapshot.go"
SVC = "cmd/thermal-recorder/service.go"
# ---- C16
seed("C16", "copyrecent-unlocked", "CopyRecent without the ring lock", ["C16.R1", "C16.R2"],
     (FL, "func (fl *FrameLoop) CopyRecent() *cptvframe.Frame {\n\tfl.mu.Lock()\n\tdefer fl.mu.Unlock()\n", "func (fl *FrameLoop) CopyRecent() *cptvframe.Frame {\n"))
seed("C16", "framecount-plain-read", "frame counter read without atomic", ["C16.R1"],
     (MP, "return atomic.LoadUint32(&mp.CurrentFrame), mp.frameLoop.CopyRecent()", "return mp.CurrentFrame, mp.frameLoop.CopyRecent()"))
seed("C16", "copy-current-slot", "snapshot copies the slot being filled", ["C16.R2"],
     (FL, "previousIndex := (fl.currentIndex - 1 + fl.size) % fl.size", "previousIndex := fl.currentIndex"))
seed("C16", "publish-processor-unlocked", "processor published without the mutex (regression of f5c2f68)", ["C16.R1"],
     (MAIN, "\tmu.Lock()\n\tprocessor = newProcessor\n\tmu.Unlock()\n", "\tprocessor = newProcessor\n"))
seed("C16", "wait-loop-unlocked", "snapshot trigger polls processor without the mutex", ["C16.R1"],
     (SNAP, "\tfor !haveProcessor() {", "\tfor processor == nil {"))
seed("C16", "camerainfo-unlocked", "CameraInfo reads headerInfo without the mutex", ["C16.R1"],
     (SVC, "\tmu.Lock()\n\theaderInfo := headerInfo\n\tmu.Unlock()\n", ""))
seed("C16", "request-flag-plain", "request flag set with a plain store", ["C16.R1"],
     (MP, "\tatomic.StoreUint32(&mp.startSnapshot, 1)", "\tmp.startSnapshot = 1"))
seed("C16", "fill-oldest-slot", "ProcessFrame copies the source into the ring's oldest slot", ["C16.R3"],
     (MP, "\tframe := mp.frameLoop.Current()\n\tframe.Copy(srcFrame)", "\tframe := mp.frameLoop.Oldest()\n\tframe.Copy(srcFrame)"))
seed("C16", "requester-early-unlock", "newSnapshot releases the mutex before using the processor", ["C16.R4", "C16.R1"],
     (SNAP, "func newSnapshot(lastFrame int) (*cptvframe.Frame, error) {\n\tmu.Lock()\n\tdefer mu.Unlock()\n", "func newSnapshot(lastFrame int) (*cptvframe.Frame, error) {\n\tmu.Lock()\n\tmu.Unlock()\n"))

TW = "cmd/thermal-writer/main.go"
TR = "cmd/thermal-writer/thermalraw.go"
BF = "cmd/thermal-writer/bufferedfile.go"
# ---- C18
seed("C18", "single-buffer", "all in-flight slots share one buffer", ["C18.W1"],
     (TW, "\tfor i := 0; i < inFlight; i++ {\n\t\tspentFrames <- make([]byte, header.FrameSize())\n\t}", "\tone := make([]byte, header.FrameSize())\n\tfor i := 0; i < inFlight; i++ {\n\t\tspentFrames <- one\n\t}"))
seed("C18", "use-after-send", "frame inspected after being handed to the writer", ["C18.W1"],
     (TW, "\t\twriteFrames <- frame\n\t\tchLen := len(writeFrames)", "\t\twriteFrames <- frame\n\t\tif frame[0] == 0 {\n\t\t\tlog.Print(\"zero lead byte\")\n\t\t}\n\t\tchLen := len(writeFrames)"))
seed("C18", "no-close-on-disconnect", "write channel not closed when the connection ends", ["C18.W4"],
     (TW, "\t\tif err != nil {\n\t\t\tclose(writeFrames)\n\t\t\treturn err\n\t\t}", "\t\tif err != nil {\n\t\t\treturn err\n\t\t}"))
seed("C18", "writer-returns-without-close", "writer returns without closing the builder", ["C18.W4"],
     (TW, "\t\t\tif !ok {\n\t\t\t\tbuilder.Close()\n\t\t\t\treturn\n\t\t\t}", "\t\t\tif !ok {\n\t\t\t\treturn\n\t\t\t}"))
seed("C18", "framesize-from-header", "FrameSize field taken from the header, not the slice", ["C18.W5"],
     (TR, "func writeFrame(b *Builder, frame []byte) error {\n\tfields := cptv.NewFieldWriter()\n\tfields.Uint32(cptv.FrameSize, uint32(len(frame)))", "func writeFrame(b *Builder, frame []byte) error {\n\tfields := cptv.NewFieldWriter()\n\tfields.Uint32(cptv.FrameSize, uint32(cap(frame)-1))"))
seed("C18", "fewer-buffers-than-capacity", "fewer buffers than channel capacity are injected", ["C18.W3"],
     (TW, "for i := 0; i < inFlight; i++ {", "for i := 0; i < inFlight/2; i++ {"))
seed("C18", "close-without-flush", "file closed without flushing", ["C18.W4"],
     (BF, "\tif err := bf.w.Flush(); err != nil {\n\t\treturn err\n\t}\n\treturn bf.f.Close()", "\treturn bf.f.Close()"))
seed("C18", "frame-data-before-fields", "frame data written before its fields", ["C18.W5"],
     (TR, "\t// Frame fields\n\t_, err = b.w.Write(fieldData)\n\tif err != nil {\n\t\treturn err\n\t}\n\n\t// Frame thermal data\n\t_, err = b.w.Write(frameData)\n\treturn err", "\t_, err = b.w.Write(frameData)\n\tif err != nil {\n\t\treturn err\n\t}\n\t_, err = b.w.Write(fieldData)\n\treturn err"))
seed("C18", "handback-before-write", "buffer handed back before it is written", ["C18.W1", "C18.W2"],
     (TW, "\t\t\tif err := writeFrame(builder, frame); err != nil {\n\t\t\t\tpanic(err)\n\t\t\t}\n\t\t\toutFrames <- frame // Return the frame to be reused", "\t\t\toutFrames <- frame // Return the frame to be reused\n\t\t\tif err := writeFrame(builder, frame); err != nil {\n\t\t\t\tpanic(err)\n\t\t\t}"))
seed("C18", "builder-retains-frame", "builder keeps a reference to the last frame", ["C18.W2"],
     (TR, "type Builder struct {\n\tw io.WriteCloser\n}", "type Builder struct {\n\tw    io.WriteCloser\n\tlast []byte\n}"),
     (TR, "\t// Frame thermal data\n\t_, err = b.w.Write(frameData)", "\t// Frame thermal data\n\tb.last = frameData\n\t_, err = b.w.Write(frameData)"))
seed("C18", "magic-changed", "file magic changed", ["C18.W5"],
     (TR, 'thermalRawMagic        = "CPTR"', 'thermalRawMagic        = "CPTX"'))

LD = "cmd/leptond/main.go"
HI = "headers/headerinfo.go"
# ---- C14
seed("C14", "marker-differs", "leptond sends a different marker", ["C14.M1"],
     (LD, 'clearBuffer    = "clear"', 'clearBuffer    = "reset"'))
seed("C14", "probe-too-short", "probe reads 4 bytes", ["C14.M2"],
     (MAIN, "_, err := io.ReadFull(reader, rawFrame[:5])", "_, err := io.ReadFull(reader, rawFrame[:4])"))
seed("C14", "remainder-overlaps", "remainder read from offset 4", ["C14.M2"],
     (MAIN, "_, err = io.ReadFull(reader, rawFrame[5:])", "_, err = io.ReadFull(reader, rawFrame[4:])"))
seed("C14", "second-buffered-reader", "frames read through a second bufio.Reader", ["C14.M3"],
     (MAIN, "\trawFrame := make([]byte, headerInfo.FrameSize())\n", "\trawFrame := make([]byte, headerInfo.FrameSize())\n\treader = bufio.NewReader(conn)\n"))
seed("C14", "fps-key-dropped", "leptond no longer sends FPS", ["C14.M5"],
     (LD, "\t\theaders.FPS:         camera.FPS(),\n", ""))
seed("C14", "marker-not-resetting", "marker consumed without resetting the processor", ["C14.M2"],
     (MAIN, "\t\t\tprocessor.Reset(headerInfo)\n\t\t\tcontinue", "\t\t\tcontinue"))
seed("C14", "marker-falls-through", "after the marker the loop reads the rest of a frame", ["C14.M2"],
     (MAIN, "\t\t\tprocessor.Reset(headerInfo)\n\t\t\tcontinue", "\t\t\tprocessor.Reset(headerInfo)"))
seed("C14", "header-eof-tolerated", "truncated header yields a partial description", ["C14.M4"],
     (HI, "\t\tif err != nil {\n\t\t\treturn nil, err\n\t\t}\n\t\tif strings.Trim", "\t\tif err != nil {\n\t\t\tbreak\n\t\t}\n\t\tif strings.Trim"))
seed("C14", "framesize-written-as-string", "frame size sent as a string", ["C14.M5"],
     (LD, "headers.FrameSize:   lepton3.BytesPerFrame,", 'headers.FrameSize:   fmt.Sprint(lepton3.BytesPerFrame),'))
seed("C14", "short-read-ignored", "short frame read ignored", ["C14.M2"],
     (MAIN, "\t\t_, err = io.ReadFull(reader, rawFrame[5:])\n\t\tif err != nil {\n\t\t\treturn err\n\t\t}", "\t\t_, err = io.ReadFull(reader, rawFrame[5:])\n\t\tif err != nil {\n\t\t\tlog.Print(err)\n\t\t}"))
seed("C14", "marker-mid-loop", "marker also written inside the frame loop on service reset", ["C14.M6", "C14.M1"],
     (LD, '\t\t\tlog.Println("reset triggered through service")\n', '\t\t\tlog.Println("reset triggered through service")\n\t\t\tconn.Write([]byte(clearBuffer))\n'))

BO = "cmd/thermal-recorder/boson.go"
# ---- C13 (parsers / handler)
seed("C13", "boson-edge-strict", "Boson: last border row/column counted as interior", ["C13.B1"],
     (BO, "y >= (len(out.Pix)-edgePixels)", "y > (len(out.Pix)-edgePixels)"))
seed("C13", "boson-big-endian", "Boson frames decoded big-endian", ["C13.B1"],
     (BO, "binary.LittleEndian.Uint16(raw[i : i+2])", "binary.BigEndian.Uint16(raw[i : i+2])"))
seed("C13", "boson-zero-ignored-in-first-rows", "Boson: zero pixels tolerated in the upper half", ["C13.B1"],
     (BO, "if !onEdge && out.Pix[y][x] == 0 {", "if !onEdge && y > len(out.Pix)/2 && out.Pix[y][x] == 0 {"))
seed("C13", "boson-cursor-per-row", "Boson: byte cursor restarted for every row", ["C13.B1"],
     (BO, "\tfor y, row := range out.Pix {\n", "\tfor y, row := range out.Pix {\n\t\ti = 0\n"))
seed("C13", "boson-generic-error", "Boson: bad pixel reported as a plain error", ["C13.B1"],
     (BO, "\t\t\t\treturn &lepton3.BadFrameErr{Cause: err}", "\t\t\t\t_ = &lepton3.BadFrameErr{Cause: err}\n\t\t\t\treturn err"))
seed("C13", "handler-returns-on-badframe", "connection dropped on a bad frame", ["C13.B4"],
     (MAIN, "\t\t\tleptondController.RestartCamera()\n", "\t\t\tleptondController.RestartCamera()\n\t\t\treturn err\n"))
seed("C13", "handler-no-restart", "bad frame does not trigger a camera restart", ["C13.B4"],
     (MAIN, "\t\t\tleptondController.RestartCamera()\n", ""))
seed("C13", "parse-into-oldest", "raw frame parsed into the oldest ring slot", ["C13.B3"],
     (MP, "\tframe := mp.frameLoop.Current()\n\tif err := mp.parseFrame(rawFrame, frame, mp.motionDetector.start); err != nil {", "\tframe := mp.frameLoop.Oldest()\n\tif err := mp.parseFrame(rawFrame, frame, mp.motionDetector.start); err != nil {"))

CF = "cmd/thermal-recorder/cptvfilerecorder.go"
# ---- C10
seed("C10", "rename-before-close", "file renamed to .cptv before the writer is closed", ["C10.D2"],
     (CF, "\t\tfw.writer.Close()\n\n\t\tfinalName, err := renameTempRecording(fw.writer.Name())", "\t\tfinalName, err := renameTempRecording(fw.writer.Name())\n\t\tfw.writer.Close()"))
seed("C10", "temp-ext-cptv", "in-progress files already named .cptv", ["C10.D1"],
     (MAIN, 'cptvTempExt = "cptv.temp"', 'cptvTempExt = "cptv"'))
seed("C10", "no-startup-cleanup", "start-up clean-up call removed", ["C10.D4"],
     (MAIN, '\tif err := deleteTempFiles(conf.OutputDir); err != nil {\n\t\treturn err\n\t}\n', ""))
seed("C10", "stop-without-remove", "Stop() leaves the temporary file behind", ["C10.D3"],
     (CF, "\t\tfw.writer.Close()\n\t\tos.Remove(fw.writer.Name())\n", "\t\tfw.writer.Close()\n"))
seed("C10", "cleanup-misses-scratch", "regression of fix d4475b2 (glob without the scratch suffix)", ["C10.D5"],
     (CF, 'filepath.Join(dir, "*."+cptvTempExt+"*")', 'filepath.Join(dir, "*."+cptvTempExt)'))
seed("C10", "cleanup-misses-constant-dir", "regression of fix d4475b2 (constant recorder folder not cleaned)", ["C10.D5"],
     (CF, "[]string{directory, path.Join(directory, constantRecordingsDir)}", "[]string{directory}"))
seed("C10", "writer-set-before-header", "writer published before the header was written", ["C10.D3"],
     (CF, "\tif err = writer.WriteHeader(fw.header); err != nil {\n\t\twriter.Close()\n\t\treturn err\n\t}\n\tfw.header.BackgroundFrame = nil\n\tfw.writer = writer", "\tfw.writer = writer\n\tif err = writer.WriteHeader(fw.header); err != nil {\n\t\twriter.Close()\n\t\treturn err\n\t}\n\tfw.header.BackgroundFrame = nil"))
seed("C10", "stop-keeps-writer-on-rename-error", "writer not cleared when the rename fails", ["C10.D3"],
     (CF, "\t\tfw.writer = nil\n\n\t\treturn err", "\t\tif err == nil {\n\t\t\tfw.writer = nil\n\t\t}\n\n\t\treturn err"))
seed("C10", "final-name-keeps-temp", "final name regexp no longer strips .temp", ["C10.D2"],
     (CF, "regexp.MustCompile(`(.+)\\.temp$`)", "regexp.MustCompile(`(.+)\\.tmp$`)"))
seed("C10", "no-deferred-stop", "connection handler does not discard the in-progress file", ["C10.D3"],
     (MAIN, "\tdefer cptvRecorder.Stop()\n", ""))
seed("C10", "cleanup-after-first-connection", "clean-up runs after the first connection", ["C10.D4"],
     (MAIN, '\tif err := deleteTempFiles(conf.OutputDir); err != nil {\n\t\treturn err\n\t}\n', ""),
     (MAIN, "\t\terr = handleConn(conn, conf)\n", "\t\terr = handleConn(conn, conf)\n\t\tdeleteTempFiles(conf.OutputDir)\n"))

CFG = "cmd/thermal-recorder/config.go"
RC = "recorder/recorderconfig.go"
# ---- C11
seed("C11", "brand-model-swapped", "brand and model arguments swapped at the motion recorder site", ["C11.H1"],
     (MAIN, "cptvRecorder := NewCPTVFileRecorder(conf, headerInfo, headerInfo.Brand(), headerInfo.Model(),", "cptvRecorder := NewCPTVFileRecorder(conf, headerInfo, headerInfo.Model(), headerInfo.Brand(),"))
seed("C11", "resx-from-resy", "ResX filled from the ResY key", ["C11.H2"],
     (HI, "resX:      toInt(h[XResolution]),", "resX:      toInt(h[YResolution]),"))
seed("C11", "minsecs-from-maxsecs", "min-secs setting taken from max-secs", ["C11.H3"],
     (RC, "MinSecs:          thermalRecorderConfig.MinSecs,", "MinSecs:          thermalRecorderConfig.MaxSecs,"))
seed("C11", "recorder-before-motion-config", "file recorder built before the camera-model motion config is loaded", ["C11.H4"],
     (MAIN, "\tconf.LoadMotionConfig(headerInfo.Model())\n\tlogConfig(conf)\n", "\tlogConfig(conf)\n"),
     (MAIN, "\tdefer cptvRecorder.Stop()\n", "\tdefer cptvRecorder.Stop()\n\tconf.LoadMotionConfig(headerInfo.Model())\n"))
seed("C11", "header-fps-constant", "header fps hard-coded", ["C11.H1"],
     (CF, "FPS:          camera.FPS(),", "FPS:          9,"))
seed("C11", "threshold-not-recorded", "triggered threshold replaced by the configured one", ["C11.H1"],
     (CF, 'motionYAML := fmt.Sprintf("%striggeredthresh: %d\\n", fw.motionYAML, tempThreshold)', 'motionYAML := fmt.Sprintf("%striggeredthresh: %d\\n", fw.motionYAML, 0)'))
seed("C11", "background-dropped", "background frame not stored in the header", ["C11.H1"],
     (CF, "\tfw.header.BackgroundFrame = background\n", ""))
seed("C11", "boson-parsed-as-lepton", "boson frames parsed with the Lepton parser", ["C11.H5"],
     (MAIN, '\tcase "boson":\n\t\treturn convertRawBosonFrame', '\tcase "boson":\n\t\treturn lepton3.ParseRawFrame'))
seed("C11", "device-name-from-id", "device name missing from the header", ["C11.H1"],
     (CF, "\t\tDeviceName:   config.DeviceName,\n", ""))
seed("C11", "wrong-section", "recorder settings read from the lepton section", ["C11.H3"],
     (RC, "conf.Unmarshal(config.ThermalRecorderKey, &thermalRecorderConfig)", "conf.Unmarshal(config.LeptonKey, &thermalRecorderConfig)"))
seed("C11", "output-dir-from-frame-output", "output dir wired from the wrong setting", ["C11.H3"],
     (CFG, "OutputDir:    thermalRecorderConfig.OutputDir,", "OutputDir:    leptonConfig.FrameOutput,"))
seed("C11", "motion-defaults-ignore-model", "motion defaults loaded for a fixed model", ["C11.H4", "C11.H3"],
     (CFG, "motion.NewConfig(configRW, cameraModel)", 'motion.NewConfig(configRW, "lepton3")'))
seed("C11", "serial-getter-returns-fps", "CameraSerial getter returns another field", ["C11.H2"],
     (HI, "func (h *HeaderInfo) CameraSerial() int {\n\treturn h.serial", "func (h *HeaderInfo) CameraSerial() int {\n\treturn h.fps"))

seed("C08", "cold-zero-skipped", "sub-threshold value 0 treated differently from other cold values", ["C08.N4"],
     (MO, "\t\t\tva := a.Pix[y][x]\n\t\t\tif va < d.tempThresh {\n\t\t\t\tva = d.tempThresh\n\t\t\t}\n\t\t\tvb := b.Pix[y][x]\n\t\t\tif vb < d.tempThresh {\n\t\t\t\tvb = d.tempThresh\n\t\t\t}\n\t\t\tout.Pix[y][x] = absDiff(va, vb)", "\t\t\tva := a.Pix[y][x]\n\t\t\tif va == 0 {\n\t\t\t\tcontinue\n\t\t\t}\n\t\t\tif va < d.tempThresh {\n\t\t\t\tva = d.tempThresh\n\t\t\t}\n\t\t\tvb := b.Pix[y][x]\n\t\t\tif vb < d.tempThresh {\n\t\t\t\tvb = d.tempThresh\n\t\t\t}\n\t\t\tout.Pix[y][x] = absDiff(va, vb)"))

# ---- later additions
seed("C05", "frozen-clock", "the bucket's clock never advances", ["C05.T2"],
     (TH, "func (realClock) Now() time.Time {\n\treturn time.Now()", "var clockStart = time.Now()\n\nfunc (realClock) Now() time.Time {\n\treturn clockStart"))
seed("C14", "no-blank-line-after-header", "leptond does not terminate the camera description with a blank line", ["C14.M6"],
     (LD, '\tconn.Write([]byte("\\n"))\n\treturn nil', '\treturn nil'))
seed("C18", "rotation-without-close", "old file not closed on rotation", ["C18.W4"],
     (TW, "\t\tcase <-changeFile:\n\t\t\tbuilder.Close()\n", "\t\tcase <-changeFile:\n"))
seed("C01", "mark-expires-late", "ring mark expires one slot late", ["C01.O3", "C01.O2"],
     (FL, "\tif fl.currentIndex == fl.oldest {\n\t\tfl.oldest = NO_OLDEST_SET\n\t}\n", "\tif fl.nextIndexAfter(fl.currentIndex) == fl.oldest {\n\t\tfl.oldest = NO_OLDEST_SET\n\t}\n"))
seed("C02", "mark-expires-late", "ring mark expires one slot late", ["C02.P2", "C02.P4"],
     (FL, "\tif fl.currentIndex == fl.oldest {\n\t\tfl.oldest = NO_OLDEST_SET\n\t}\n", "\tif fl.nextIndexAfter(fl.currentIndex) == fl.oldest {\n\t\tfl.oldest = NO_OLDEST_SET\n\t}\n"))
seed("C07", "compare-ring-never-wraps-flag", "wrapped flag set one step late", ["C07.K5"],
     (FL, "\tif fl.currentIndex == 0 {\n\t\tfl.bufferFull = true\n\t}", "\tif fl.currentIndex == 1 {\n\t\tfl.bufferFull = true\n\t}"))

seed("C04", "window-start-stop-swapped", "recording window built with start and stop swapped", ["C04.S7"],
     (RC, "\t\twindowsConfig.StartRecording,\n\t\twindowsConfig.StopRecording,", "\t\twindowsConfig.StopRecording,\n\t\twindowsConfig.StartRecording,"))

# ---- round-3 obligations
seed("C03", "written-never-reset", "the written counter is not reset when a recording stops", ["C03.L6"],
     (MP, "\tmp.framesWritten = 0\n\tmp.writeUntil = 0\n\tmp.isRecording = false", "\tmp.writeUntil = 0\n\tmp.isRecording = false"))
seed("C03", "written-reset-only-on-clean-stop", "the counters are reset only when the recorder's stop succeeds", ["C03.L6"],
     (MP, "\terr := mp.recorder.StopRecording()\n\n\tmp.framesWritten = 0\n\tmp.writeUntil = 0\n", "\terr := mp.recorder.StopRecording()\n\n\tif err == nil {\n\t\tmp.framesWritten = 0\n\t\tmp.writeUntil = 0\n\t}\n"))
seed("C04", "throttler-start-error-logged-only", "the throttler logs a refused start and reports success", ["C04.S6"],
     ("throttle/throttled_recorder.go", "\t\tif err := throttler.recorder.StartRecording(background, tempThresh); err != nil {\n\t\t\treturn err\n\t\t}\n\t\tthrottler.recording = true", "\t\tif err := throttler.recorder.StartRecording(background, tempThresh); err != nil {\n\t\t\tlog.Printf(\"start failed: %v\", err)\n\t\t\treturn nil\n\t\t}\n\t\tthrottler.recording = true"))
seed("C06", "throttler-start-error-logged-only", "the throttler logs a refused start and reports success", ["C06.X3"],
     ("throttle/throttled_recorder.go", "\t\tif err := throttler.recorder.StartRecording(background, tempThresh); err != nil {\n\t\t\treturn err\n\t\t}\n\t\tthrottler.recording = true", "\t\tif err := throttler.recorder.StartRecording(background, tempThresh); err != nil {\n\t\t\tlog.Printf(\"start failed: %v\", err)\n\t\t\treturn nil\n\t\t}\n\t\tthrottler.recording = true"))
seed("C05", "defaults-restored-after-load", "throttle.NewConfig re-applies the defaults after reading the section", ["C05.T2"],
     ("throttle/config.go", "\treturn &thermalThrottler, nil", "\tif thermalThrottler.BucketSize <= 0 {\n\t\tthermalThrottler = config.DefaultThermalThrottler()\n\t}\n\treturn &thermalThrottler, nil"))
seed("C05", "bucket-size-floored", "main floors the configured bucket size before building the throttler", ["C05.T2"],
     ("cmd/thermal-recorder/config.go", "\t\tThrottler:    *throttlerConfig,", "\t\tThrottler:    floorBucket(*throttlerConfig),"),
     ("cmd/thermal-recorder/config.go", "func ParseConfig(", "func floorBucket(t goconfig.ThermalThrottler) goconfig.ThermalThrottler {\n\tif t.BucketSize < t.MinRefill {\n\t\tt.BucketSize = t.MinRefill\n\t}\n\treturn t\n}\n\nfunc ParseConfig("))
seed("C03", "min-secs-floored-in-main", "runMain raises min-secs after the config was loaded", ["C03.L1"],
     ("cmd/thermal-recorder/main.go", "\tconf.LoadMotionConfig(headerInfo.Model())\n\tlogConfig(conf)\n", "\tconf.LoadMotionConfig(headerInfo.Model())\n\tif conf.Recorder.MinSecs < 5 {\n\t\tconf.Recorder.MinSecs = 5\n\t}\n\tlogConfig(conf)\n"))
seed("C18", "frames-through-second-reader", "frames are read through a second buffered reader", ["C18.W2"],
     ("cmd/thermal-writer/main.go", "\tt0 := time.Now()\n\tfor {\n\t\tframe := <-spentFrames\n\t\t_, err := io.ReadFull(reader, frame)", "\tt0 := time.Now()\n\tframeReader := bufio.NewReaderSize(conn, 1<<16)\n\tfor {\n\t\tframe := <-spentFrames\n\t\t_, err := io.ReadFull(frameReader, frame)"))
seed("C10", "cleanup-on-every-connection", "the temp-file clean-up also runs from the connection handler", ["C10.D4"],
     ("cmd/thermal-recorder/main.go", "func handleConn(conn net.Conn, conf *Config) error {\n", "func handleConn(conn net.Conn, conf *Config) error {\n\tif err := deleteTempFiles(conf.OutputDir); err != nil {\n\t\treturn err\n\t}\n"))
seed("C17", "cleanup-on-every-connection", "the temp-file clean-up also runs from the connection handler", ["C17.V4"],
     ("cmd/thermal-recorder/main.go", "func handleConn(conn net.Conn, conf *Config) error {\n", "func handleConn(conn net.Conn, conf *Config) error {\n\tif err := deleteTempFiles(conf.OutputDir); err != nil {\n\t\treturn err\n\t}\n"))
seed("C13", "edge-pixels-minimum-one", "the loaded edge-pixels setting is raised to at least 1", ["C13.B1"],
     ("motion/motionconfig.go", "func validateConfig(*config.ThermalMotion) error {\n\t// TODO\n", "func validateConfig(conf *config.ThermalMotion) error {\n\tif conf.EdgePixels < 1 {\n\t\tconf.EdgePixels = 1\n\t}\n"))

# ---- round-4 obligations
seed("C01", "refused-start-returns-before-move", "a refused start returns from process before the ring is advanced", ["C01.O1"],
     (MP, "\t\t} else if err := mp.canStartWriting(); err != nil {\n\t\t\tmp.log.Printf(\"Recording not started: %v\", err)\n", "\t\t} else if err := mp.canStartWriting(); err != nil {\n\t\t\tmp.log.Printf(\"Recording not started: %v\", err)\n\t\t\treturn\n"))
seed("C02", "pretrigger-needs-three-frames", "the pre-trigger history is skipped unless it holds at least three frames", ["C02.P2"],
     (MP, "\tii := 0\n\n\t// it never writes the current frame as this will be written later\n", "\tii := 0\n\tif len(frames) < 3 {\n\t\treturn nil\n\t}\n\n\t// it never writes the current frame as this will be written later\n"))
seed("C13", "badframe-keeps-flag-on-stop-error", "stopRecording keeps isRecording when the recorder's stop fails", ["C13.B2"],
     (MP, "\terr := mp.recorder.StopRecording()\n\n\tmp.framesWritten = 0", "\terr := mp.recorder.StopRecording()\n\tif err != nil {\n\t\treturn err\n\t}\n\n\tmp.framesWritten = 0"))
seed("C14", "marker-only-while-recording-frames", "the clear marker is honoured only after the first frame", ["C14.M2"],
     ("cmd/thermal-recorder/main.go", "\t\tif message == clearBuffer {", "\t\tif message == clearBuffer && totalFrames > 0 {"))
seed("C16", "badframe-advances-ring", "a rejected frame advances the pre-trigger ring", ["C16.R5"],
     (MP, "\t\tmp.stopConstantRecorder()\n\t\treturn err\n", "\t\tmp.stopConstantRecorder()\n\t\tmp.frameLoop.Move()\n\t\treturn err\n"))
seed("C17", "test-sink-is-continuous-recorder", "handleConn passes the continuous recorder as the test-recording sink too", ["C17.V4"],
     ("cmd/thermal-recorder/main.go", "\t\tconstantRecorder,\n\t\tNewCPTVFileRecorder(conf, headerInfo, headerInfo.Brand(), headerInfo.Model(), headerInfo.CameraSerial(), headerInfo.Firmware()),\n\t)", "\t\tconstantRecorder,\n\t\tconstantRecorder,\n\t)"))
seed("C12", "test-sink-is-continuous-recorder", "handleConn passes the continuous recorder as the test-recording sink too", ["C12.Y5"],
     ("cmd/thermal-recorder/main.go", "\t\tconstantRecorder,\n\t\tNewCPTVFileRecorder(conf, headerInfo, headerInfo.Brand(), headerInfo.Model(), headerInfo.CameraSerial(), headerInfo.Firmware()),\n\t)", "\t\tconstantRecorder,\n\t\tconstantRecorder,\n\t)"))
seed("C15", "snapshot-start-without-background", "the test recording is started with a nil background", ["C15.A6"],
     (MP, "mp.snapshotRecorder.StartRecording(mp.motionDetector.background, 0)", "mp.snapshotRecorder.StartRecording(nil, 0)"))
seed("C11", "continuous-start-passes-threshold-as-background-flag", "the continuous recording is started with the live threshold instead of 0", ["C11.H1"],
     (MP, "mp.constantRecorder.StartRecording(mp.motionDetector.background, 0)", "mp.constantRecorder.StartRecording(mp.motionDetector.background, mp.motionDetector.tempThresh)"))
seed("C18", "reader-nonblocking-pool-receive", "the reader allocates a buffer when the pool is empty", ["C18.W3"],
     ("cmd/thermal-writer/main.go", "\t\tframe := <-spentFrames\n", "\t\tvar frame []byte\n\t\tselect {\n\t\tcase frame = <-spentFrames:\n\t\tdefault:\n\t\t\tframe = make([]byte, header.FrameSize())\n\t\t}\n"))
seed("C20", "emit-through-printf", "the limiter emits through log.Printf(s)", ["C20.G1"],
     ("loglimiter/loglimiter.go", "\tlog.Print(s)\n", "\tlog.Printf(s)\n"))

seed("C14", "frames-dropped-while-busy", "handleConn skips Process for every other frame in the first minute", ["C14.M2"],
     ("cmd/thermal-recorder/main.go", "\t\terr = processor.Process(rawFrame)\n", "\t\tif totalFrames < 10 && totalFrames%2 == 0 {\n\t\t\tcontinue\n\t\t}\n\t\terr = processor.Process(rawFrame)\n"))
seed("C18", "reader-drops-frames-when-queue-long", "the reader forwards a frame only while the write queue is short", ["C18.W2"],
     ("cmd/thermal-writer/main.go", "\t\twriteFrames <- frame\n", "\t\tif len(writeFrames) > inFlight/2 {\n\t\t\tspentFrames <- frame\n\t\t\tcontinue\n\t\t}\n\t\twriteFrames <- frame\n"))
seed("C18", "writer-skips-empty-looking-frames", "the writer skips frames whose first byte is zero", ["C18.W2"],
     ("cmd/thermal-writer/main.go", "\t\t\tif err := writeFrame(builder, frame); err != nil {\n\t\t\t\tpanic(err)\n\t\t\t}\n", "\t\t\tif frame[0] != 0 {\n\t\t\t\tif err := writeFrame(builder, frame); err != nil {\n\t\t\t\t\tpanic(err)\n\t\t\t\t}\n\t\t\t}\n"))


# ---- found by the mechanical sweep (sweep/): polarity of error / nil tests, lock pairing, request consumption
HDR = "headers/headerinfo.go"
SNAP = "cmd/thermal-recorder/snapshot.go"
SVC = "cmd/thermal-recorder/service.go"
LEP = "cmd/leptond/main.go"
TRAW = "cmd/thermal-writer/thermalraw.go"
BUFF = "cmd/thermal-writer/bufferedfile.go"
RCONF = "cmd/thermal-recorder/config.go"
seed("C14", "sweep-blank-line-test-negated", "the header loop leaves at the first NON-blank line", ["C14.M4"],
     (HDR, 'if strings.Trim(line, " ") == "\\n" {', 'if !(strings.Trim(line, " ") == "\\n") {'))
seed("C14", "sweep-yaml-error-test-reversed", "the YAML error is returned when it is nil", ["C14.M4"],
     (HDR, "\terr := yaml.Unmarshal(buf.Bytes(), &h)\n\tif err != nil {", "\terr := yaml.Unmarshal(buf.Bytes(), &h)\n\tif err == nil {"))
seed("C14", "sweep-toint-ok-reversed", "toInt returns 0 exactly when the assertion succeeded", ["C14.M5"],
     (HDR, "\tout, ok := v.(int)\n\tif !ok {", "\tout, ok := v.(int)\n\tif ok {"))
seed("C14", "sweep-blank-line-after-failed-write", "leptond writes the blank line only when the description could NOT be written", ["C14.M6"],
     (LEP, "if _, err := conn.Write(cameraYAML); err != nil {", "if _, err := conn.Write(cameraYAML); err == nil {"))
seed("C10", "sweep-cleanup-error-test-reversed", "start-up goes on after a FAILED clean-up and aborts after a successful one", ["C10.D4"],
     (MAIN, "if err := deleteTempFiles(conf.OutputDir); err != nil {", "if err := deleteTempFiles(conf.OutputDir); err == nil {"))
seed("C18", "sweep-flush-error-test-reversed", "Close returns early when the flush SUCCEEDED", ["C18.W4"],
     (BUFF, "if err := bf.w.Flush(); err != nil {", "if err := bf.w.Flush(); err == nil {"))
seed("C18", "sweep-section-write-test-reversed", "the frame section stops after its first successful write", ["C18.W5"],
     (TRAW, "\t_, err = b.w.Write(fieldData)\n\tif err != nil {", "\t_, err = b.w.Write(fieldData)\n\tif err == nil {"))
seed("C16", "sweep-handler-unlock-dropped", "the connection handler publishes the processor and keeps the mutex", ["C16.R4"],
     (MAIN, "\tmu.Lock()\n\tprocessor = newProcessor\n\tmu.Unlock()\n", "\tmu.Lock()\n\tprocessor = newProcessor\n"))
seed("C16", "sweep-requester-defer-unlock-dropped", "newSnapshot never releases the package mutex", ["C16.R4"],
     (SNAP, "func newSnapshot(lastFrame int) (*cptvframe.Frame, error) {\n\tmu.Lock()\n\tdefer mu.Unlock()\n", "func newSnapshot(lastFrame int) (*cptvframe.Frame, error) {\n\tmu.Lock()\n"))
seed("C16", "sweep-nil-processor-test-reversed", "a snapshot request before the first connection dereferences the nil processor", ["C16.R4"],
     (SNAP, "\tif processor == nil {\n\t\treturn nil, errors.New(\"reading from camera has not started yet\")", "\tif processor != nil {\n\t\treturn nil, errors.New(\"reading from camera has not started yet\")"))
seed("C17", "sweep-request-cas-reversed", "the request flag is compared and swapped the wrong way round (a test recording on every idle frame)", ["C17.V3"],
     (MP, "atomic.CompareAndSwapUint32(&mp.startSnapshot, 1, 0)", "atomic.CompareAndSwapUint32(&mp.startSnapshot, 0, 1)"))
seed("C17", "sweep-constant-mode-flag-false", "SetAsConstantRecorder stores false", ["C17.V5"],
     (CF, "\tcfr.constantRecorder = true\n", "\tcfr.constantRecorder = false\n"))
seed("C11", "sweep-recorder-drops-frames", "the file recorder's WriteFrame returns nil without writing", ["C11.H1"],
     (CF, "\treturn fw.writer.WriteFrame(frame)\n", "\treturn nil\n"))
seed("C11", "sweep-section-error-test-reversed", "ParseConfig goes on with defaults when a section cannot be decoded", ["C11.H3"],
     (RCONF, "\tif err := configRW.Unmarshal(goconfig.LocationKey, &locationConfig); err != nil {", "\tif err := configRW.Unmarshal(goconfig.LocationKey, &locationConfig); err == nil {"))
seed("C11", "sweep-motion-config-from-output-dir", "the motion settings are read from another directory than the daemon's configuration", ["C11.H3"],
     (RCONF, "goconfig.New(c.ConfigDir)", "goconfig.New(c.OutputDir)"))


# ---- second operator set of the sweep (duplicated / swapped statements, wrong variable of the same type)
seed("C14", "sweep-frame-processed-twice", "the frame loop hands every frame to Process twice", ["C14.M2"],
     (MAIN, "\t\terr = processor.Process(rawFrame)\n", "\t\terr = processor.Process(rawFrame)\n\t\terr = processor.Process(rawFrame)\n"))
seed("C14", "sweep-header-line-buffered-twice", "every header line is buffered twice", ["C14.M4"],
     (HDR, "\t\tbuf.WriteString(line)\n", "\t\tbuf.WriteString(line)\n\t\tbuf.WriteString(line)\n"))
seed("C14", "sweep-toint-always-default", "toInt returns its default on every feasible path", ["C14.M5"],
     (HDR, "\tout, ok := v.(int)\n\tif !ok {", "\tout, ok := v.(int)\n\tif true || !ok {"))
seed("C18", "sweep-write-channel-closed-twice", "the write channel is closed twice at the end of a connection", ["C18.W4"],
     (TW, "\t\t\tclose(writeFrames)\n", "\t\t\tclose(writeFrames)\n\t\t\tclose(writeFrames)\n"))
seed("C16", "sweep-unlock-twice", "the handler releases the package mutex twice after publishing the processor", ["C16.R4"],
     (MAIN, "\tprocessor = newProcessor\n\tmu.Unlock()\n", "\tprocessor = newProcessor\n\tmu.Unlock()\n\tmu.Unlock()\n"))
seed("C17", "sweep-constant-mode-on-motion-recorder", "the motion recorder is switched into constant-recorder mode instead of the continuous one", ["C17.V5"],
     (MAIN, "\t\tconstantRecorder.SetAsConstantRecorder()\n", "\t\tcptvRecorder.SetAsConstantRecorder()\n"))
seed("C17", "sweep-constant-mode-set-twice", "constant-recorder mode is set twice (the folder nests)", ["C17.V5"],
     (MAIN, "\t\tconstantRecorder.SetAsConstantRecorder()\n", "\t\tconstantRecorder.SetAsConstantRecorder()\n\t\tconstantRecorder.SetAsConstantRecorder()\n"))

here = os.path.dirname(os.path.abspath(__file__))
for pid, name, d in S:
    os.makedirs(os.path.join(here, pid), exist_ok=True)
    json.dump(d, open(os.path.join(here, pid, name + ".json"), "w"), indent=1)
print(len(S), "seeds")
