#!/bin/bash
# Builds the analyser offline and warms the build cache used by go/packages.
set -e
cd "$(dirname "$0")"
export GOFLAGS=-mod=mod GOPROXY=off GOSUMDB=off GOTOOLCHAIN=local GOWORK=off
mkdir -p bin evidence replays
(cd sa && go build -o ../bin/trsa .)
# warm export data for the repository's dependencies (host and arm); failures here are not fatal
(cd /repo && go build ./... >/dev/null 2>&1 || true)
(cd /repo && GOARCH=arm GOOS=linux CGO_ENABLED=0 go build ./... >/dev/null 2>&1 || true)
echo "setup done"
