package main

import (
	"fmt"
	"strings"

	"golang.org/x/tools/go/ssa"
)

// dumpFunc prints the normal forms of the stores, calls and returns of a function (debug aid).
func dumpFunc(w *World, spec string) {
	i := strings.Index(spec, ":")
	fn := w.Func(spec[:i], spec[i+1:])
	if fn == nil {
		fmt.Println("no such function", spec)
		return
	}
	e := newTermEnv(w)
	if T := w.NamedType("motion", "MotionProcessor"); T != nil {
		if m, err := buildMotionComponent(w, true); err == nil {
			e.useCtor(T, m.C.Ctor)
		}
	}
	for _, b := range fn.Blocks {
		fmt.Printf("block %d guards=%v\n", b.Index, guardStrings(e.guardsOf(b)))
		for _, in := range b.Instrs {
			switch x := in.(type) {
			case *ssa.Store:
				fmt.Printf("   %s: store %s <- %s\n", w.InstrPos(in), e.termOf(x.Addr), e.termOf(x.Val))
			case ssa.CallInstruction:
				var as []string
				for _, a := range x.Common().Args {
					as = append(as, e.termOf(a).String())
				}
				fmt.Printf("   %s: call %s(%s)\n", w.InstrPos(in), calleeName(x), strings.Join(as, " ; "))
			case *ssa.Return:
				var as []string
				for _, a := range x.Results {
					as = append(as, e.termOf(a).String())
				}
				fmt.Printf("   %s: return %s\n", w.InstrPos(in), strings.Join(as, " ; "))
			case *ssa.If:
				fmt.Printf("   if %s\n", e.termOf(x.Cond))
			}
		}
	}
}
