package main

import (
	"fmt"
	"sort"
	"strings"

	"golang.org/x/tools/go/ssa"
)

// dumpFunc prints the normal forms of the stores, calls and returns of a function (debug aid).
func dumpFunc(w *World, spec string) {
	if spec == "detector" {
		dumpDetector(w)
		return
	}
	if strings.HasPrefix(spec, "writes=") { // writes=<pkgpath>#<type>
		a := strings.SplitN(strings.TrimPrefix(spec, "writes="), "#", 2)
		for _, cw := range settingsWrites(w, newTermEnv(w), a[0], a[1]) {
			fmt.Printf("%s %s.%s field=%q <- %s\n", w.InstrPos(cw.Instr), relPkg(cw.Fn), cw.Fn.Name(), cw.Field, cw.Val)
		}
		return
	}
	i := strings.Index(spec, ":")
	fn := w.Func(spec[:i], spec[i+1:])
	if fn == nil {
		fmt.Println("no such function", spec)
		return
	}
	e := newTermEnv(w)
	if T := w.NamedType("motion", "MotionProcessor"); T != nil {
		if m, err := buildMotionComponent(w, true); err == nil {
			e.useCtor(T, m.C.Ctor)
		}
	}
	for _, b := range fn.Blocks {
		fmt.Printf("block %d guards=%v\n", b.Index, guardStrings(e.guardsOf(b)))
		for _, in := range b.Instrs {
			switch x := in.(type) {
			case *ssa.Store:
				fmt.Printf("   %s: store %s <- %s\n", w.InstrPos(in), e.termOf(x.Addr), e.termOf(x.Val))
			case ssa.CallInstruction:
				var as []string
				for _, a := range x.Common().Args {
					as = append(as, e.termOf(a).String())
				}
				fmt.Printf("   %s: call %s(%s)\n", w.InstrPos(in), calleeName(x), strings.Join(as, " ; "))
			case *ssa.Return:
				var as []string
				for _, a := range x.Results {
					as = append(as, e.termOf(a).String())
				}
				fmt.Printf("   %s: return %s\n", w.InstrPos(in), strings.Join(as, " ; "))
			case *ssa.If:
				fmt.Printf("   if %s\n", e.termOf(x.Cond))
			}
		}
	}
}

func dumpDetector(w *World) {
	d := getDetector(w)
	fmt.Println("err:", d.Err)
	var rs []string
	for r, fi := range d.Role {
		rs = append(rs, fmt.Sprintf("%s -> %s", r, d.St.Field(fi).Name()))
	}
	sort.Strings(rs)
	for _, r := range rs {
		fmt.Println("  role", r)
	}
	e := newTermEnv(w)
	for _, fn := range d.Funcs {
		fmt.Println("func", fn.Name())
		for _, a := range pixAccessesOf(fn) {
			kind := "load "
			if a.IsStore {
				kind = "store"
			}
			row := d.rangeOf(e, a.Row)
			cs := "-"
			if a.Col != nil {
				c := d.colRange(e, a)
				cs = fmt.Sprintf("[%s, %s] %v %s", c.lo, c.hi, c.ok, c.why)
			}
			fmt.Printf("   %s %s frame=%s row=[%s, %s] %v %s col=%s\n", w.InstrPos(a.Instr), kind, e.termOf(a.Frame), row.lo, row.hi, row.ok, row.why, cs)
		}
	}
}
