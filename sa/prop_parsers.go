package main

// placeholders filled in later in this file: C13.B1 (parsers) and C13.B4 (handleConn)

func checkParsers(w *World, r *Report)             {}
func checkHandleConnBadFrame(w *World, r *Report) {}

func checkHandleConnMarker(w *World, r *Report, rule string) {
	ci := analyseHandleConn(w)
	if ci.err != nil {
		r.Unknown(rule, "recorder connection handler", "-", ci.err.Error())
		return
	}
	checkHandleConnMarkerCI(w, r, ci, rule)
}
