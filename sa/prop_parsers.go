package main

// C13.B1 (raw frame parsers, sibling cross-check against one specification) and C13.B4
// (the connection handler's reaction to a bad frame).

import (
	"fmt"
	"go/types"
	"sort"
	"strings"

	"golang.org/x/tools/go/ssa"
)

type parserSpec struct {
	name   string
	fn     *ssa.Function
	endian string // "bigEndian" / "littleEndian"
}

func checkParsers(w *World, r *Report, rule string) {
	var ps []parserSpec
	// the repo's own parser: the repo function the selector can return
	if sel := findParserSelector(w); sel != nil {
		outs, _ := selectorOutcomes(newTermEnv(w), sel)
		for _, o := range outs {
			if fn := o.fn; fn != nil && w.IsRepoFunc(fn) {
				dup := false
				for _, p := range ps {
					if p.fn == fn {
						dup = true
					}
				}
				if !dup {
					ps = append(ps, parserSpec{"Boson (little-endian)", fn, "littleEndian"})
				}
			}
		}
	}
	if l3 := w.SSAPkgs["github.com/TheCacophonyProject/lepton3"]; l3 != nil {
		if fn := l3.Func("ParseRawFrame"); fn != nil && len(fn.Blocks) > 0 {
			ps = append(ps, parserSpec{"Lepton (big-endian)", fn, "bigEndian"})
		}
	}
	// which parsers are actually selected: the functions returned by the parser selection
	sel := findParserSelector(w)
	selected := map[*ssa.Function]bool{}
	if sel != nil {
		outs, _ := selectorOutcomes(newTermEnv(w), sel)
		for _, o := range outs {
			if o.fn != nil {
				selected[o.fn] = true
			}
		}
		for fn := range selected {
			known := false
			for _, p := range ps {
				if p.fn == fn {
					known = true
				}
			}
			r.Check(known, rule, "parser selected by the recorder is one of the two analysed parsers: "+fn.Name(), w.Pos(sel.Pos()), fn.String())
		}
	}
	r.Check(len(ps) == 2, "G4", "both raw-frame parsers found", "-", fmt.Sprint(len(ps)))
	for _, p := range ps {
		checkOneParser(w, r, p, rule)
	}
}

func checkOneParser(w *World, r *Report, p parserSpec, rule string) {
	e := newTermEnv(w)
	fn := p.fn
	// parameters by type: raw []byte, out *Frame, edge int
	var out, edge, raw *ssa.Parameter
	for _, pa := range fn.Params {
		switch {
		case typeIs(pa.Type(), "github.com/TheCacophonyProject/go-cptv/cptvframe", "Frame"):
			out = pa
		case isInteger(pa.Type()):
			edge = pa
		default:
			if _, ok := pa.Type().Underlying().(*types.Slice); ok {
				raw = pa
			}
		}
	}
	if out == nil || edge == nil || raw == nil {
		r.Unknown(rule, p.name+": parameters", w.Pos(fn.Pos()), "signature is not (raw []byte, out *Frame, edge int)")
		return
	}
	P := "cptvframe.Frame.Pix@" + e.termOf(out).String()
	Y := "rangeidx(" + P + ")"
	ROW := "index(" + P + ", " + Y + ")"
	X := "rangeidx(" + ROW + ")"
	E := e.termOf(edge).String()
	PIX := "index(" + ROW + ", " + X + ")"
	// (1) pixel stores
	stores := 0
	for _, a := range pixAccessesOf(fn) {
		if !a.IsStore || a.Col == nil {
			continue
		}
		stores++
		addr := e.termOf(a.Addr).String()
		r.Check(addr == "addr("+PIX+")", rule, p.name+": pixel (y,x) of the output frame is stored for every y, x in row-major order", w.InstrPos(a.Instr), addr)
		val := e.termOf(a.Val)
		okv := val.Op == "call" && strings.HasSuffix(val.Name, "binary."+p.endian+".Uint16") && len(val.Args) == 2
		detail := val.String()
		if okv {
			sl := val.Args[1]
			// slice(rawpix, CUR, CUR+2), CUR advancing by 2 per pixel from 0, never reset per row
			okv = sl.Op == "slice" && len(sl.Args) == 3 && sl.Args[1].Op == "iv" && sl.Args[1].Args[1].String() == "2" &&
				strings.HasPrefix(sl.Args[1].Args[0].String(), "phi(0, loopvar:") && sl.Args[2].String() == tadd(sl.Args[1], tconst(2)).String()
			if okv {
				base := sl.Args[0].String()
				okv = base == e.termOf(raw).String() || strings.HasPrefix(base, "slice("+e.termOf(raw).String()+", ")
			}
		}
		r.Check(okv, rule, p.name+": pixel = "+p.endian+" 16-bit word at a cursor advancing 2 bytes per pixel over the raw data", w.InstrPos(a.Instr), detail)
	}
	r.Check(stores == 1, rule, p.name+": exactly one pixel store", w.Pos(fn.Pos()), fmt.Sprint(stores))
	// the value just decoded (a parser may test it directly instead of re-reading the pixel it stored)
	var decoded []string
	for _, a := range pixAccessesOf(fn) {
		if a.IsStore && a.Col != nil {
			decoded = append(decoded, e.termOf(a.Val).String())
		}
	}
	isZeroTest := func(s string) bool {
		if s == "eq(0, "+PIX+")" {
			return true
		}
		for _, d := range decoded {
			if s == "eq(0, "+d+")" {
				return true
			}
		}
		return false
	}
	// (2) bad-frame returns
	wantOr := []string{"lt(" + Y + ", " + E + ")", "lt(" + X + ", " + E + ")", "le((-1*" + E + " + len(" + P + ")), " + Y + ")", "le((-1*" + E + " + len(" + ROW + ")), " + X + ")"}
	sort.Strings(wantOr)
	badReturns, nilReturns := 0, 0
	for _, b := range fn.Blocks {
		ret, ok := b.Instrs[len(b.Instrs)-1].(*ssa.Return)
		if !ok {
			continue
		}
		v := unwrapIface(ret.Results[0])
		if c, isC := v.(*ssa.Const); isC && c.Value == nil {
			nilReturns++
			continue
		}
		if al, isAl := v.(*ssa.Alloc); isAl && typeIs(al.Type(), "github.com/TheCacophonyProject/lepton3", "BadFrameErr") {
			badReturns++
			gs := e.guardsOf(b)
			var zero, edgeG string
			for _, g := range gs {
				s := g.String()
				if isZeroTest(s) {
					zero = s
				}
				if strings.HasPrefix(s, "not(or(") {
					edgeG = s
				}
			}
			r.Check(zero != "", rule, p.name+": a bad frame is reported only for a zero pixel", w.InstrPos(ret), strings.Join(guardStrings(gs), " ; "))
			_ = edgeG
			// the interior predicate as a set of atomic constraints (form independent: not(a ∨ b) = ¬a ∧ ¬b,
			// hoisted row tests, nested ifs)
			var atoms []string
			for _, g := range gs {
				for _, a := range atomsOf(g.Cond, g.Pos) {
					if isZeroTest(a) || strings.HasPrefix(a, "lt(rangeidx(") && strings.Contains(a, ", len(") && !strings.Contains(a, E) || isNilCheck(a) {
						continue
					}
					atoms = append(atoms, a)
				}
			}
			sort.Strings(atoms)
			wantAtoms := []string{"le(" + E + ", " + Y + ")", "le(" + E + ", " + X + ")", "lt(" + Y + ", (-1*" + E + " + len(" + P + ")))", "lt(" + X + ", (-1*" + E + " + len(" + ROW + ")))"}
			sort.Strings(wantAtoms)
			r.Check(strings.Join(atoms, " ∧ ") == strings.Join(wantAtoms, " ∧ "), rule, p.name+": ...outside the border: e <= y < H-e and e <= x < W-e, nothing more, nothing less", w.InstrPos(ret), strings.Join(atoms, " ∧ "))
			continue
		}
		// other error returns (telemetry) are fine but must not be BadFrameErr
		r.Pass(rule, p.name+": other error return (telemetry) is not a bad-frame report", w.InstrPos(ret), e.termOf(ret.Results[0]).String())
	}
	r.Check(badReturns == 1 && nilReturns >= 1, rule, p.name+": one bad-frame return and a success return", w.Pos(fn.Pos()), fmt.Sprintf("%d/%d", badReturns, nilReturns))
	// (3) the zero test covers every interior pixel: the If on eq(0,pix) is reached on the false edge of the edge test, inside both loops
	for _, b := range fn.Blocks {
		iff, ok := b.Instrs[len(b.Instrs)-1].(*ssa.If)
		if !ok || !isZeroTest(e.termOf(iff.Cond).String()) {
			continue
		}
		gs := guardStrings(e.guardsOf(b))
		ok2 := true
		extra := 0
		for _, g := range e.guardsOf(b) {
			for _, a := range atomsOf(g.Cond, g.Pos) {
				okAtom := strings.HasPrefix(a, "lt(rangeidx(") || isNilCheck(a) ||
					a == "le("+E+", "+Y+")" || a == "le("+E+", "+X+")" || a == "lt("+Y+", (-1*"+E+" + len("+P+")))" || a == "lt("+X+", (-1*"+E+" + len("+ROW+")))"
				if !okAtom {
					extra++
				}
			}
		}
		r.Check(ok2 && extra == 0, rule, p.name+": every interior pixel is tested for zero (no additional condition skips the test)", w.InstrPos(iff), strings.Join(gs, " ; "))
	}
}

// checkHandleConnBadFrame: B4
func checkHandleConnBadFrame(w *World, r *Report) {
	ci := analyseHandleConn(w)
	if ci.err != nil {
		r.Unknown("B4", "recorder connection handler", "-", ci.err.Error())
		return
	}
	e := newTermEnv(w)
	// no return is dominated by the Process call: a Process error never ends the connection
	pb := ci.process.Block()
	okNoRet := true
	for _, b := range ci.fn.Blocks {
		if _, ok := b.Instrs[len(b.Instrs)-1].(*ssa.Return); ok && pb.Dominates(b) {
			okNoRet = false
		}
		if _, ok := b.Instrs[len(b.Instrs)-1].(*ssa.Panic); ok && pb.Dominates(b) {
			okNoRet = false
		}
	}
	r.Check(okNoRet, "B4", "a Process error (bad frame) never ends the frame loop", w.InstrPos(ci.process), "")
	// the loop continues: from the Process block the probe read is reachable
	r.Check(reaches(pb, ci.probe.Block()) && inLoop(pb), "B4", "processing resumes with the next frame", w.InstrPos(ci.process), "")
	// BadFrameErr recognised and camera restart requested
	var ta *ssa.TypeAssert
	if refs := ci.process.Referrers(); refs != nil {
		for _, rf := range *refs {
			if t, ok := rf.(*ssa.TypeAssert); ok && typeIs(t.AssertedType, "github.com/TheCacophonyProject/lepton3", "BadFrameErr") {
				ta = t
			}
		}
	}
	scan := ci.fn
	if ta == nil {
		// the recognition moved into a helper that is handed Process' result: helper(processor.Process(frame))
		if refs := ci.process.Referrers(); refs != nil {
			for _, rf := range *refs {
				hc, ok := rf.(*ssa.Call)
				if !ok || hc.Call.StaticCallee() == nil || !w.IsRepoFunc(hc.Call.StaticCallee()) || len(hc.Call.StaticCallee().Blocks) == 0 {
					continue
				}
				h := hc.Call.StaticCallee()
				for i, a := range hc.Call.Args {
					if a != ssa.Value(ci.process) || i >= len(h.Params) || h.Params[i].Referrers() == nil {
						continue
					}
					for _, pr := range *h.Params[i].Referrers() {
						if t, ok := pr.(*ssa.TypeAssert); ok && typeIs(t.AssertedType, "github.com/TheCacophonyProject/lepton3", "BadFrameErr") {
							ta, scan = t, h
						}
					}
				}
			}
		}
	}
	if ta == nil {
		r.Fail("B4", "the bad-frame error type is recognised", w.InstrPos(ci.process), "no type assertion of Process' result to *lepton3.BadFrameErr", "")
		return
	}
	r.Pass("B4", "the bad-frame error type is recognised", w.InstrPos(ta), "")
	okRestart := false
	for _, b := range scan.Blocks {
		for _, in := range b.Instrs {
			if c, ok := in.(*ssa.Call); ok && (calleeName(c) == "leptondController.RestartCamera" || alwaysCalls(w, c.Call.StaticCallee(), "leptondController.RestartCamera", 0)) {
				gs := e.guardsOf(b)
				for _, g := range gs {
					if g.Pos && strings.HasPrefix(g.Cond.String(), "#1(lepton3.BadFrameErr(") {
						okRestart = true
					}
				}
			}
		}
	}
	r.Check(okRestart, "B4", "a bad frame makes the recorder ask the camera daemon to restart the camera", w.InstrPos(ta), "")
}

func checkHandleConnMarker(w *World, r *Report, rule string) {
	ci := analyseHandleConn(w)
	if ci.err != nil {
		r.Unknown(rule, "recorder connection handler", "-", ci.err.Error())
		return
	}
	checkHandleConnMarkerCI(w, r, ci, rule)
}

// atomsOf flattens a guard into atomic comparisons: a positive and(...) and a negative or(...) split into their
// members (De Morgan); everything else is one atom in normalised polarity.
func atomsOf(t *Term, pos bool) []string {
	if pos && t.Op == "and" || !pos && t.Op == "or" {
		var out []string
		for _, a := range t.Args {
			out = append(out, atomsOf(a, pos)...)
		}
		return out
	}
	if t.Op == "not" {
		return atomsOf(t.Args[0], !pos)
	}
	if pos {
		return []string{t.String()}
	}
	return []string{tnot(t).String()}
}

func isNilCheck(a string) bool {
	if strings.HasPrefix(a, "eq(") && (strings.HasPrefix(a, "eq(nil, ") || strings.HasSuffix(a, ", nil)")) {
		return true
	}
	// "the destination frame is not nil": a guard on a pointer parameter the caller always supplies
	return strings.HasPrefix(a, "ne(nil, param") || (strings.HasPrefix(a, "ne(param") && strings.HasSuffix(a, ", nil)"))
}

// findParserSelector: the function of the recorder package that maps (brand, model) strings to a raw-frame
// parser func([]byte, *cptvframe.Frame, int) error.
func findParserSelector(w *World) *ssa.Function {
	for _, fn := range w.funcsInPkg("cmd/thermal-recorder") {
		sig := fn.Signature
		if sig.Recv() != nil || sig.Results().Len() != 1 || sig.Params().Len() < 1 || sig.Params().Len() > 2 {
			continue // (brand, model string) or a camera description whose Brand()/Model() it asks
		}
		rs, ok := sig.Results().At(0).Type().Underlying().(*types.Signature)
		if !ok || rs.Params().Len() != 3 || rs.Results().Len() != 1 {
			continue
		}
		if typeIs(rs.Params().At(1).Type(), "github.com/TheCacophonyProject/go-cptv/cptvframe", "Frame") {
			return fn
		}
	}
	return nil
}

// alwaysCalls: fn is a function of the repository every execution of which calls `name` (directly, or through another
// repository function that always does), i.e. the call sits in a block that dominates every return of fn.
func alwaysCalls(w *World, fn *ssa.Function, name string, depth int) bool {
	if fn == nil || depth > 2 || len(fn.Blocks) == 0 || !w.IsRepoFunc(fn) {
		return false
	}
	for _, b := range fn.Blocks {
		always := true
		for _, rb := range fn.Blocks {
			if _, isRet := rb.Instrs[len(rb.Instrs)-1].(*ssa.Return); isRet && !b.Dominates(rb) {
				always = false
			}
		}
		if !always {
			continue
		}
		for _, in := range b.Instrs {
			if c, ok := in.(*ssa.Call); ok {
				if calleeName(c) == name || alwaysCalls(w, c.Call.StaticCallee(), name, depth+1) {
					return true
				}
			}
		}
	}
	return false
}

// ---- selection outcomes (switch, if-chain or a constant lookup table) ---------------------------------------

type mapEntry struct {
	key string // exact constant string (quoted)
	val ssa.Value
}

var constMapCache = map[*ssa.Global][]mapEntry{}
var constMapKnown = map[*ssa.Global]bool{}

// constMapGlobal: g is a package variable holding a map that is built once, in the package initialiser, from a literal
// with constant string keys, and that nothing in the program writes to afterwards (no second store to the variable, no
// element assignment or delete through a loaded value, the map value handed to no call). Reading it is then the same
// as a switch over its keys.
func constMapGlobal(g *ssa.Global) ([]mapEntry, bool) {
	if constMapKnown[g] {
		es := constMapCache[g]
		return es, es != nil
	}
	constMapKnown[g] = true
	if g.Pkg == nil {
		return nil, false
	}
	var entries []mapEntry
	stores, bad := 0, false
	seen := map[*ssa.Function]bool{}
	var scan func(fn *ssa.Function, isInit bool)
	scan = func(fn *ssa.Function, isInit bool) {
		if fn == nil || seen[fn] {
			return
		}
		seen[fn] = true
		for _, b := range fn.Blocks {
			for _, in := range b.Instrs {
				switch x := in.(type) {
				case *ssa.Store:
					if x.Addr == ssa.Value(g) {
						mm, ok := x.Val.(*ssa.MakeMap)
						if !isInit || !ok {
							bad = true
							continue
						}
						stores++
						for _, ref := range *mm.Referrers() {
							switch u := ref.(type) {
							case *ssa.MapUpdate:
								k, isC := u.Key.(*ssa.Const)
								if u.Map != ssa.Value(mm) || !isC || k.Value == nil {
									bad = true
								} else {
									entries = append(entries, mapEntry{k.Value.ExactString(), u.Value})
								}
							case *ssa.Store:
								if u != x {
									bad = true
								}
							default:
								bad = true
							}
						}
						continue
					}
				case *ssa.UnOp:
					if x.X == ssa.Value(g) {
						for _, ref := range *x.Referrers() {
							switch u := ref.(type) {
							case *ssa.Lookup:
								if u.X != ssa.Value(x) {
									bad = true
								}
							case *ssa.Range, *ssa.DebugRef:
							case *ssa.Call:
								if bi, ok := u.Call.Value.(*ssa.Builtin); !ok || bi.Name() != "len" {
									bad = true
								}
							default:
								bad = true
							}
						}
						continue
					}
				}
				for _, op := range in.Operands(nil) {
					if *op == ssa.Value(g) {
						bad = true
					}
				}
			}
		}
		for _, af := range fn.AnonFuncs {
			scan(af, false)
		}
	}
	for _, p := range g.Pkg.Prog.AllPackages() {
		if p != g.Pkg && !importsPkg(p, g.Pkg) {
			continue
		}
		for _, m := range p.Members {
			switch x := m.(type) {
			case *ssa.Function:
				scan(x, p == g.Pkg && x.Name() == "init")
			case *ssa.Type:
				for _, t := range []types.Type{x.Type(), types.NewPointer(x.Type())} {
					ms := p.Prog.MethodSets.MethodSet(t)
					for i := 0; i < ms.Len(); i++ {
						scan(p.Prog.MethodValue(ms.At(i)), false)
					}
				}
			}
		}
	}
	if bad || stores != 1 || len(entries) == 0 {
		return nil, false
	}
	sort.Slice(entries, func(i, j int) bool { return entries[i].key < entries[j].key })
	constMapCache[g] = entries
	return entries, true
}

// selOutcome is one way a selector function can return: the conditions (normal-form strings) and the value.
type selOutcome struct {
	conds []string
	ret   string
	fn    *ssa.Function // the function returned, if it is one
	pos   ssa.Instruction
	ifs   []*ssa.If
}

func funcValueOf(v ssa.Value) *ssa.Function {
	for {
		switch x := v.(type) {
		case *ssa.ChangeType:
			v = x.X
			continue
		case *ssa.MakeClosure:
			if f, ok := x.Fn.(*ssa.Function); ok && len(x.Bindings) == 0 {
				return f
			}
			return nil
		case *ssa.Function:
			return x
		}
		return nil
	}
}

// selectorOutcomes enumerates the outcomes of a loop-free selector. A path that returns table[key], table being a
// constant map (constMapGlobal), is expanded into one outcome per key plus the zero value when no key matches.
func selectorOutcomes(e *termEnv, sel *ssa.Function) ([]selOutcome, bool) {
	paths, complete := enumPaths(e, sel, 64)
	if !complete {
		return nil, false
	}
	var out []selOutcome
	for _, p := range paths {
		var conds []string
		var ifs []*ssa.If
		for _, g := range p.Conds {
			conds = append(conds, g.String())
			ifs = append(ifs, g.If)
		}
		rv := p.Ret.Results[0]
		expanded := false
		rv0 := rv
		for {
			if ct, ok := rv0.(*ssa.ChangeType); ok {
				rv0 = ct.X
				continue
			}
			break
		}
		if lk, ok := rv0.(*ssa.Lookup); ok && !lk.CommaOk {
			if ld, ok := lk.X.(*ssa.UnOp); ok {
				if g, ok := ld.X.(*ssa.Global); ok {
					if es, ok := constMapGlobal(g); ok {
						key := p.Term(e, lk.Index).String()
						var negs []string
						for _, en := range es {
							c := append(append([]string{}, conds...), eqStr(en.key, key))
							o := selOutcome{conds: c, pos: p.Ret, ifs: ifs, fn: funcValueOf(en.val)}
							o.ret = e.termOf(en.val).String()
							out = append(out, o)
							negs = append(negs, "ne("+strings.TrimPrefix(eqStr(en.key, key), "eq("))
						}
						out = append(out, selOutcome{conds: append(append([]string{}, conds...), negs...), ret: "nil", pos: p.Ret, ifs: ifs})
						expanded = true
					}
				}
			}
		}
		if !expanded {
			out = append(out, selOutcome{conds: conds, ret: p.Term(e, rv).String(), fn: funcValueOf(rv), pos: p.Ret, ifs: ifs})
		}
	}
	return out, true
}

func hasCond(conds []string, want string) bool {
	for _, c := range conds {
		if c == want {
			return true
		}
	}
	return false
}
