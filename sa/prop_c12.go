package main

import (
	"fmt"
	"go/types"
	"sort"
	"strings"

	"golang.org/x/tools/go/ssa"
)

func init() { register("C12", propC12) }

// callOrdinal gives a stable name to a call site: enclosing function + ordinal of the
// call among calls of the same method in that function (never a line number).
func callOrdinal(in ssa.Instruction, method string) string {
	fn := in.Parent()
	n := 0
	for _, b := range fn.Blocks {
		for _, x := range b.Instrs {
			ci, ok := x.(ssa.CallInstruction)
			if !ok {
				continue
			}
			name := ""
			if ci.Common().IsInvoke() {
				name = ci.Common().Method.Name()
			} else if c := ci.Common().StaticCallee(); c != nil {
				name = c.Name()
			}
			if name == method {
				n++
				if x == in {
					return fmt.Sprintf("%s#%d", fn.Name(), n)
				}
			}
		}
	}
	return fn.Name()
}

func propC12(w *World, r *Report) {
	r.Explanation = "Decided clause: for the three recorder sinks of motion.MotionProcessor, over ALL sequences of entry events {Process (parse ok/bad, motion/no motion, window, disk check), ProcessFrame, Reset, RequestSnapshot, GetRecentFrame} and ALL placements of start/write/stop failures: WriteFrame only while open (Y1), StartRecording only while closed (Y2), each sink's bookkeeping field is perfectly correlated with its open/closed state at every quiescent state (Y3, 'back to a normal state after any failure'), no sink method is called from outside the component or a Recorder wrapper (Y4), the wiring passes non-nil motion/test sinks (Y5), no method is ever called on a nil sink (the panic the statement names). Rule: finite relational typestate fix-point over the SSA of the component (powerset of abstract states; every fork is explored; no code is run)."
	r.RuleText = "obligation = (rule, sink role, call site) discharged when no reachable abstract state violates the sink protocol at that call site; distinct = distinct (rule, construct) pairs that matched real code"
	r.Assumptions = []string{
		"sink failure model: StartRecording error => stays closed, nil => open; StopRecording => closed whatever it returns; WriteFrame => unchanged (checked for CPTVFileRecorder/ThrottledRecorder by C10/C06)",
		"StopRecording on a closed sink is tolerated (both implementations make it a no-op)",
		"'never panics' is decided for nil-sink / closed-file writes only; arbitrary other panics (index errors in the detector, ...) are not claimed here",
		"reflect.Value.IsNil on the continuous sink models typed-nil pointers; other reflection is not used by the component",
	}
	runs, err := getMotionRuns(w)
	if err != nil {
		r.Unknown("roles", "motion.MotionProcessor", "-", "role resolution failed: "+err.Error())
		return
	}
	run := runs.fault
	c := run.C
	reportRun(r, run, map[string]string{"Y1": "Y1", "Y2": "Y2", "nil-sink": "Y1"}, "G3")
	// per call site obligations
	failed := map[string]bool{}
	for _, v := range run.Viol {
		failed[v.Pos+v.Rule] = true
	}
	counts := map[string]int{}
	for _, ev := range run.sortedEvents() {
		if !strings.HasPrefix(ev.Kind, "sink:") {
			continue
		}
		m := strings.TrimPrefix(ev.Kind, "sink:")
		rn := c.RoleNames[ev.Role]
		counts[rn+"/"+m]++
		rule := map[string]string{"WriteFrame": "Y1", "StartRecording": "Y2", "StopRecording": "Y1", "CheckCanRecord": "Y1"}[m]
		pos := w.InstrPos(ev.Instr)
		if failed[pos+rule] || failed[pos+"nil-sink"] {
			continue
		}
		r.Pass(rule, fmt.Sprintf("sink=%s/%s at %s", rn, m, callOrdinal(ev.Instr, m)), pos,
			fmt.Sprintf("protocol respected in all %d abstract contexts reaching this call", len(ev.Ctxs)))
	}
	for _, rn := range c.RoleNames {
		for _, m := range []string{"StartRecording", "WriteFrame", "StopRecording"} {
			r.Check(counts[rn+"/"+m] >= 1, "G4", fmt.Sprintf("sink=%s/%s has a call site", rn, m), "-",
				fmt.Sprintf("%d call site(s) reached by the fix-point", counts[rn+"/"+m]))
		}
	}
	// Y3: inferred invariant coupling each sink with its bookkeeping
	inv := inferSinkInvariant(run)
	var qs []string
	for _, q := range run.Reach {
		qs = append(qs, run.prettyQ(q))
	}
	sort.Strings(qs)
	for role, rn := range c.RoleNames {
		if inv[role].pred == "" {
			r.Fail("Y3", "sink="+rn+"/bookkeeping", "-",
				"no field of the processor is perfectly correlated with the open/closed state of this sink over the reachable quiescent states; after some event sequence the processor believes the sink is open while it is closed or vice versa",
				inv[role].counter)
		} else {
			r.Pass("Y3", "sink="+rn+"/bookkeeping", "-", "inferred invariant at all "+fmt.Sprint(len(run.Reach))+" quiescent states: "+inv[role].pred+" <=> "+rn+" sink open")
		}
	}
	checkWrappedSinkProtocol(w, r, "Y1", "Y3")
	checkStopToleratesClosed(w, r, "Y1") // discharges the assumption "StopRecording on a closed sink is tolerated" for the file recorder
	// back to a normal state after a failure: a recording whose counter a failed start left above its target is still
	// ended by the next stop test (the comparison is non-strict)
	checkStopTaken(w, r, runs, resolveMotionRoles(runs.fault), "Y3")
	// ... and a start that failed or was refused is tried again on the next motion frame: the run counter keeps counting
	// past the trigger length, so the refusal test must be the strict inequality (an equality test would never fire again)
	if mr := resolveMotionRoles(runs.fault); mr.TrigLabel != "" {
		cl, _ := parseCmpLabel(mr.TrigLabel)
		r.Check(relationOn(mr.TrigLabel, mr.Trig, 1) == "<" || relationOn(mr.TrigLabel, mr.Trig, 0) == "<", "Y3", "a failed or refused start is retried while the motion continues (trigger test is counter < trigger-frames)", "-", cl.Raw)
	} else {
		r.Unknown("Y3", "trigger comparison", "-", "consecutive-motion counter / trigger comparison not resolved")
	}
	r.Extra["reachable_states"] = len(run.Reach)
	r.Extra["interpreter_steps"] = run.Steps
	r.Extra["quiescent_states"] = qs
	r.Extra["entries"] = entryNames(c)
	r.Extra["tracked_fields"] = trackedNames(c)
	// Y6: no index panic in the pre-trigger ring: its update forms (Lemma R in DESIGN.md needs exactly these) and
	// the processor never rewinding it
	checkRingMove(w, r, "Y6")
	checkRingResetAndOldest(w, r, "Y6")
	checkRingHistoryForms(w, r, "Y6")
	checkRingUsage(w, r, run, "Y6")
	// Y4: who may call the sinks
	checkWhoMayCallSinks(w, r, c)
	// Y5: wiring passes non-nil motion and test sinks
	checkSinkWiring(w, r, runs)
	checkSinksDistinct(w, r, runs, "Y5")
	r.Samples = append(r.Samples, map[string]interface{}{"inferred_invariant": []string{inv[0].pred, inv[1].pred, inv[2].pred}})
}

func entryNames(c *Component) []string {
	var out []string
	for _, e := range c.Entries {
		out = append(out, e.Name)
	}
	return out
}

func trackedNames(c *Component) []string {
	var out []string
	for i, k := range c.Tracked {
		if k != tNone {
			out = append(out, fmt.Sprintf("%s:%s", c.fieldName(i), [...]string{"", "bool", "sign", "enum", "nilness"}[k]))
		}
	}
	sort.Strings(out)
	return out
}

type sinkInv struct {
	pred    string
	field   int
	counter string
}

// inferSinkInvariant finds, per sink, a tracked field whose truth value (bool) or
// non-zero-ness (int) coincides with "sink open" in every reachable quiescent state.
func inferSinkInvariant(run *tsRun) []sinkInv {
	c := run.C
	out := make([]sinkInv, len(c.RoleNames))
	var fields []int
	for i, k := range c.Tracked {
		if k == tBool || k == tSign || k == tEnum {
			fields = append(fields, i)
		}
	}
	sort.Ints(fields)
	var keys []string
	for k := range run.Reach {
		keys = append(keys, k)
	}
	sort.Strings(keys)
	for role := range c.RoleNames {
		out[role].field = -1
		bestMis, bestWitness := -1, ""
		for _, fi := range fields {
			n, mis := 0, 0
			first := ""
			for _, k := range keys {
				q := run.Reach[k]
				if q.present[role] == 0 {
					continue
				}
				n++
				v := q.fields[fi]
				on := false
				switch v.k {
				case kBool:
					on = v.n == 1
				case kSign, kConst:
					on = v.n != 0
				}
				if on != (q.sinks[role] == 1) {
					mis++
					if first == "" {
						first = fmt.Sprintf("closest candidate %s disagrees with the sink after: %s  => %s", c.fieldName(fi), run.traceOf(k), run.prettyQ(q))
					}
				}
			}
			if n == 0 {
				continue
			}
			if mis == 0 {
				p := c.fieldName(fi)
				if c.Tracked[fi] != tBool {
					p += " != 0"
				}
				out[role].pred = p
				out[role].field = fi
				break
			}
			if bestMis < 0 || mis < bestMis {
				bestMis, bestWitness = mis, first
			}
		}
		if out[role].pred == "" {
			out[role].counter = bestWitness
		}
	}
	return out
}

// looksLikeBookkeeping: the field is written in a function that also calls the sink (heuristic used only to pick the witness).
func looksLikeBookkeeping(c *Component, fi, role int) bool {
	return true
}

// checkWhoMayCallSinks: Y4 — StartRecording/WriteFrame/StopRecording on anything implementing
// recorder.Recorder are only called by MotionProcessor methods or by Recorder wrappers.
func checkWhoMayCallSinks(w *World, r *Report, c *Component) {
	rec := recorderIface(w)
	iface := rec.Underlying().(*types.Interface)
	implements := func(t types.Type) bool {
		return types.Implements(t, iface) || types.Implements(types.NewPointer(t), iface)
	}
	isSinkMethod := map[string]bool{"StartRecording": true, "WriteFrame": true, "StopRecording": true}
	n := 0
	for _, fn := range w.RepoFuncs() {
		for _, b := range fn.Blocks {
			for _, in := range b.Instrs {
				ci, ok := in.(ssa.CallInstruction)
				if !ok {
					continue
				}
				cc := ci.Common()
				var recvT types.Type
				name := ""
				if cc.IsInvoke() {
					name = cc.Method.Name()
					recvT = cc.Value.Type()
				} else if callee := cc.StaticCallee(); callee != nil && callee.Signature.Recv() != nil {
					name = callee.Name()
					recvT = callee.Signature.Recv().Type()
				}
				if !isSinkMethod[name] || recvT == nil {
					continue
				}
				if !(types.Identical(recvT, rec) || implements(recvT)) {
					continue
				}
				n++
				// allowed callers: methods of the component, methods of types implementing Recorder (wrappers)
				caller := fn
				for caller.Parent() != nil {
					caller = caller.Parent()
				}
				okCaller := false
				if rv := caller.Signature.Recv(); rv != nil {
					if isPtrTo(rv.Type(), c.T) || implements(rv.Type()) {
						okCaller = true
					}
				}
				construct := fmt.Sprintf("caller=%s/%s", caller.String(), name)
				if okCaller {
					r.Pass("Y4", construct, w.InstrPos(in), "sink method called from the component or a Recorder wrapper")
				} else if rv := caller.Signature.Recv(); rv != nil && types.Identical(rv.Type(), c.T) {
					r.Fail("Y4", construct, w.InstrPos(in), "the sink is driven from a VALUE-receiver method of "+c.T.Obj().Name()+": it works on a copy, so the bookkeeping it updates next to the sink call (recording flags, frame counters) is lost while the sink itself changes state - the two disagree afterwards", "")
				} else {
					r.Fail("Y4", construct, w.InstrPos(in), "a recorder sink method is called from outside MotionProcessor / a Recorder wrapper: the fix-point's closed-world assumption (and the sink protocol) no longer holds", "")
				}
			}
		}
	}
	r.Floor("Y4", 9)
}

// checkSinkWiring: Y5 — per production call of the constructor, report which sinks are
// provably present; the fix-point was run once per site with exactly that presence and the
// entry points invoked on the processor created there.
func checkSinkWiring(w *World, r *Report, runs *motionRuns) {
	c := runs.model.C
	for _, st := range runs.sites {
		var es []string
		for e := range st.Entries {
			es = append(es, e)
		}
		sort.Strings(es)
		if st.Escapes {
			es = append(es, "(escapes: all entries assumed)")
		}
		for role, rn := range c.RoleNames {
			p := map[int8]string{1: "present", 0: "absent (nil)", -1: "unknown (both explored)"}[st.Present[role]]
			r.Pass("Y5", fmt.Sprintf("wiring in %s: %s sink %s", st.Fn.Name(), rn, p), w.InstrPos(st.Call),
				fmt.Sprintf("%s; entry points used on this processor: %s; explored with this presence, nil-sink calls are reported under Y1", st.Why[role], strings.Join(es, ",")))
		}
	}
	r.Floor("Y5", 3)
}

// provablyNonNil: value is (an interface holding) the result of an allocation, of a function
// all of whose returns are provably non-nil, or a phi of such.
// nilWorld: the program in which provablyNonNil looks up the callers of a function (set by the loader).
var nilWorld *World

func provablyNonNil(v ssa.Value, depth int) (bool, string) {
	if depth > 6 {
		return false, "too deep"
	}
	switch x := v.(type) {
	case *ssa.MakeInterface:
		return provablyNonNil(x.X, depth+1)
	case *ssa.ChangeInterface:
		return provablyNonNil(x.X, depth+1)
	case *ssa.Alloc:
		return true, "allocation"
	case *ssa.Phi:
		for _, e := range x.Edges {
			if ok, why := provablyNonNil(e, depth+1); !ok {
				return false, "phi edge: " + why
			}
		}
		return true, "all phi edges non-nil"
	case *ssa.Call:
		callee := x.Call.StaticCallee()
		if callee == nil || len(callee.Blocks) == 0 {
			return false, "result of a call that cannot be resolved"
		}
		for _, b := range callee.Blocks {
			for _, in := range b.Instrs {
				if ret, ok := in.(*ssa.Return); ok {
					if len(ret.Results) == 0 {
						return false, "no result"
					}
					if ok, why := provablyNonNil(ret.Results[0], depth+1); !ok {
						return false, callee.Name() + " may return nil: " + why
					}
				}
			}
		}
		return true, "every return of " + callee.Name() + " is a fresh allocation"
	case *ssa.Const:
		return false, "constant nil"
	case *ssa.Parameter:
		// a parameter of a function that is only ever called directly: non-nil when every call passes a non-nil value
		fn := x.Parent()
		if nilWorld == nil || fn == nil || fn.Parent() != nil {
			break
		}
		idx := -1
		for i, p := range fn.Params {
			if p == x {
				idx = i
			}
		}
		n := 0
		for g := range nilWorld.AllFuncs {
			for _, b := range g.Blocks {
				for _, in := range b.Instrs {
					for _, op := range in.Operands(nil) {
						if *op == ssa.Value(fn) {
							if ci, isCall := in.(ssa.CallInstruction); !isCall || ci.Common().Value != ssa.Value(fn) {
								return false, fn.Name() + " is used as a value"
							}
						}
					}
					ci, ok := in.(ssa.CallInstruction)
					if !ok || ci.Common().StaticCallee() != fn || idx >= len(ci.Common().Args) {
						continue
					}
					n++
					if ok, why := provablyNonNil(ci.Common().Args[idx], depth+1); !ok {
						return false, "argument at a call of " + fn.Name() + ": " + why
					}
				}
			}
		}
		if n > 0 {
			return true, "every call of " + fn.Name() + " passes a non-nil value"
		}
	}
	return false, fmt.Sprintf("cannot show %s non-nil", v.Name())
}

// checkSinksDistinct: at every production call of the processor's constructor the motion, continuous and test sinks are
// different recorder objects (no object reachable from one argument is reachable from another). Each sink is driven by
// its own start/write/stop state machine; two of them sharing one file recorder interleave their calls on one writer
// (frames written twice, the other recording's file orphaned, a nil writer after the first stop).
func checkSinksDistinct(w *World, r *Report, runs *motionRuns, rule string) {
	c := runs.model.C
	// inside the processor too: its constructor keeps each of the three recorder arguments in a field of its own
	{
		perRole := map[int][]string{}
		for fi, role := range c.SinkField {
			perRole[role] = append(perRole[role], c.fieldName(fi))
		}
		ok := len(perRole) == 3
		var parts []string
		for role := 0; role < 3; role++ {
			sort.Strings(perRole[role])
			parts = append(parts, fmt.Sprintf("%s -> %v", c.RoleNames[role], perRole[role]))
			if len(perRole[role]) != 1 {
				ok = false
			}
		}
		r.Check(ok, rule, "the processor keeps the motion, continuous and test recorders it is given in three different fields (none twice, none dropped)", w.Pos(c.Ctor.Pos()), strings.Join(parts, " ; "))
	}
	var origins func(v ssa.Value, depth int, out map[ssa.Value]bool)
	origins = func(v ssa.Value, depth int, out map[ssa.Value]bool) {
		if v == nil || depth > 8 || out[v] {
			return
		}
		switch x := v.(type) {
		case *ssa.MakeInterface:
			origins(x.X, depth+1, out)
		case *ssa.ChangeInterface:
			origins(x.X, depth+1, out)
		case *ssa.ChangeType:
			origins(x.X, depth+1, out)
		case *ssa.Phi:
			for _, e := range x.Edges {
				origins(e, depth+1, out)
			}
		case *ssa.Const:
		case *ssa.UnOp:
			if al, ok := x.X.(*ssa.Alloc); ok && al.Referrers() != nil {
				for _, rf := range *al.Referrers() {
					if st, ok := rf.(*ssa.Store); ok && st.Addr == ssa.Value(al) {
						origins(st.Val, depth+1, out)
					}
				}
				return
			}
			out[v] = true
		case *ssa.Call:
			out[v] = true
			for _, a := range x.Call.Args {
				switch a.Type().Underlying().(type) {
				case *types.Pointer, *types.Interface:
					if _, isConst := a.(*ssa.Const); !isConst {
						origins(a, depth+1, out)
					}
				}
			}
		default:
			out[v] = true
		}
	}
	n := 0
	for _, st := range runs.sites {
		sets := map[int]map[ssa.Value]bool{}
		for pi, role := range c.CtorSink {
			m := map[ssa.Value]bool{}
			origins(st.Call.Call.Args[pi], 0, m)
			// shared context objects (configuration, camera description) are not recorders: only values whose type
			// implements the recorder interface, or calls producing such, count
			for v := range m {
				if !implementsRecorder(w, v.Type()) {
					delete(m, v)
				}
			}
			sets[role] = m
		}
		for a := 0; a < len(c.RoleNames); a++ {
			for b := a + 1; b < len(c.RoleNames); b++ {
				var shared ssa.Value
				for v := range sets[a] {
					if sets[b][v] {
						shared = v
					}
				}
				n++
				construct := fmt.Sprintf("wiring in %s: the %s and %s sinks are different recorder objects", st.Fn.Name(), c.RoleNames[a], c.RoleNames[b])
				if shared != nil {
					pos := w.InstrPos(st.Call)
					if in, ok := shared.(ssa.Instruction); ok {
						pos = w.InstrPos(in)
					}
					r.Fail(rule, construct, pos, "both sinks are (wrappers of) the same recorder: "+shared.String()+" - their start/write/stop sequences interleave on one file writer", "")
				} else {
					r.Pass(rule, construct, w.InstrPos(st.Call), fmt.Sprintf("%d / %d recorder objects, disjoint", len(sets[a]), len(sets[b])))
				}
			}
		}
	}
	r.Check(n >= 3, "G4", "sink pairs examined at the wiring sites", "-", fmt.Sprint(n))
}

func implementsRecorder(w *World, t types.Type) bool {
	rec := recorderIface(w)
	if rec == nil {
		return false
	}
	it, ok := rec.Underlying().(*types.Interface)
	if !ok {
		return false
	}
	if types.Implements(t, it) {
		return true
	}
	if _, isPtr := t.(*types.Pointer); !isPtr {
		return types.Implements(types.NewPointer(t), it)
	}
	return false
}

// checkSinkBookkeeping: for the given sink roles, over all placements of start/write/stop failures, some field of the
// processor mirrors the sink's open/closed state at every quiescent state (so a failed start leaves "not recording",
// a failed stop leaves "closed"); shared by C12 (all sinks) and C17 (continuous and test sinks: a test recording whose
// start failed must not swallow the next request or write into a closed file).
func checkSinkBookkeeping(w *World, r *Report, run *tsRun, rule string, roles ...int) {
	inv := inferSinkInvariant(run)
	for _, role := range roles {
		rn := run.C.RoleNames[role]
		if inv[role].pred == "" {
			r.Fail(rule, "sink="+rn+"/bookkeeping under failures", "-",
				"no field of the processor mirrors the open/closed state of the "+rn+" sink over all failure placements: after some event sequence the processor believes the sink is open while it is closed (or the reverse)",
				inv[role].counter)
		} else {
			r.Pass(rule, "sink="+rn+"/bookkeeping under failures", "-", "at all "+fmt.Sprint(len(run.Reach))+" quiescent states: "+inv[role].pred+" <=> "+rn+" sink open")
		}
	}
}
