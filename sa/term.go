package main

// E4: value normal forms and provenance. SSA values are normalised to terms over
// leaves (parameters, config fields, getter calls, constants). Integer terms are
// kept in a commutative polynomial normal form; min/max are recognised in builtin,
// helper and if-form; comparisons are normalised in direction and strictness. This
// is constant propagation generalised to a symbolic domain: a dataflow over def-use
// chains, not execution.

import (
	"fmt"
	"go/ast"
	"go/constant"
	"go/token"
	"go/types"
	"sort"
	"strings"

	"golang.org/x/tools/go/ssa"
)

type Term struct {
	Op   string // const, leaf, add, mul, div, rem, min, max, lt, le, eq, ne, not, and, or, select, call, trunc, len, index, neg, unk
	Name string
	Args []*Term
	str  string
}

func mk(op, name string, args ...*Term) *Term { return &Term{Op: op, Name: name, Args: args} }
func tconst(n int64) *Term                    { return &Term{Op: "const", Name: fmt.Sprint(n)} }
func tleaf(name string) *Term                 { return &Term{Op: "leaf", Name: name} }

var unkCounter int

func tunk(why string) *Term {
	unkCounter++
	return &Term{Op: "unk", Name: fmt.Sprintf("?%d<%s>", unkCounter, why)}
}

func (t *Term) String() string {
	if t == nil {
		return "<nil>"
	}
	if t.str != "" {
		return t.str
	}
	var s string
	switch t.Op {
	case "const", "leaf", "unk":
		s = t.Name
	case "add":
		s = "(" + joinTerms(t.Args, " + ") + ")"
	case "mul":
		s = joinTerms(t.Args, "*")
	default:
		n := t.Op
		if t.Name != "" {
			n = t.Name
		}
		s = n + "(" + joinTerms(t.Args, ", ") + ")"
	}
	t.str = s
	return s
}

func joinTerms(a []*Term, sep string) string {
	ss := make([]string, len(a))
	for i, x := range a {
		ss[i] = x.String()
	}
	return strings.Join(ss, sep)
}

func (t *Term) isConst() (int64, bool) {
	if t.Op != "const" {
		return 0, false
	}
	var n int64
	if _, err := fmt.Sscan(t.Name, &n); err != nil {
		return 0, false
	}
	return n, true
}

func (t *Term) HasUnknown() bool {
	if t.Op == "unk" {
		return true
	}
	for _, a := range t.Args {
		if a.HasUnknown() {
			return true
		}
	}
	return false
}

// Leaves returns the set of leaf names occurring in the term.
func (t *Term) Leaves(into map[string]bool) map[string]bool {
	if into == nil {
		into = map[string]bool{}
	}
	if t.Op == "leaf" || t.Op == "unk" {
		into[t.Name] = true
	}
	if t.Op == "call" {
		into[t.Name+"()"] = true
	}
	for _, a := range t.Args {
		a.Leaves(into)
	}
	return into
}

func sortTerms(a []*Term) {
	sort.SliceStable(a, func(i, j int) bool { return a[i].String() < a[j].String() })
}

func tadd(a ...*Term) *Term {
	var flat []*Term
	var c int64
	var walk func(x *Term)
	walk = func(x *Term) {
		if x.Op == "add" {
			for _, y := range x.Args {
				walk(y)
			}
			return
		}
		if n, ok := x.isConst(); ok {
			c += n
			return
		}
		flat = append(flat, x)
	}
	for _, x := range a {
		walk(x)
	}
	// combine x and -1*x
	sortTerms(flat)
	if c != 0 {
		flat = append(flat, tconst(c))
	}
	switch len(flat) {
	case 0:
		return tconst(0)
	case 1:
		return flat[0]
	}
	return mk("add", "", flat...)
}

func tmul(a ...*Term) *Term {
	var flat []*Term
	c := int64(1)
	var walk func(x *Term)
	walk = func(x *Term) {
		if x.Op == "mul" {
			for _, y := range x.Args {
				walk(y)
			}
			return
		}
		if n, ok := x.isConst(); ok {
			c *= n
			return
		}
		flat = append(flat, x)
	}
	for _, x := range a {
		walk(x)
	}
	if c == 0 {
		return tconst(0)
	}
	// distribute over a single sum: (a+b)*c => a*c + b*c (keeps polynomial normal form)
	for i, x := range flat {
		if x.Op == "add" {
			rest := append(append([]*Term{}, flat[:i]...), flat[i+1:]...)
			var sum []*Term
			for _, y := range x.Args {
				sum = append(sum, tmul(append([]*Term{y, tconst(c)}, rest...)...))
			}
			return tadd(sum...)
		}
	}
	sortTerms(flat)
	if c != 1 {
		flat = append([]*Term{tconst(c)}, flat...)
	}
	switch len(flat) {
	case 0:
		return tconst(1)
	case 1:
		return flat[0]
	}
	return mk("mul", "", flat...)
}

func tsub(a, b *Term) *Term { return tadd(a, tmul(tconst(-1), b)) }

func tminmax(op string, a ...*Term) *Term {
	var flat []*Term
	for _, x := range a {
		if x.Op == op {
			flat = append(flat, x.Args...)
		} else {
			flat = append(flat, x)
		}
	}
	sortTerms(flat)
	// dedupe
	var out []*Term
	for i, x := range flat {
		if i > 0 && x.String() == flat[i-1].String() {
			continue
		}
		out = append(out, x)
	}
	if len(out) == 1 {
		return out[0]
	}
	return mk(op, "", out...)
}

// tcmp builds a normalised comparison from a Go operator.
func tcmp(op token.Token, a, b *Term) *Term {
	switch op {
	case token.LSS:
		return mk("lt", "", a, b)
	case token.GTR:
		return mk("lt", "", b, a)
	case token.LEQ:
		return mk("le", "", a, b)
	case token.GEQ:
		return mk("le", "", b, a)
	case token.EQL, token.NEQ:
		x := []*Term{a, b}
		sortTerms(x)
		if op == token.EQL {
			return mk("eq", "", x...)
		}
		return mk("ne", "", x...)
	}
	return tunk("cmp")
}

func tnot(a *Term) *Term {
	switch a.Op {
	case "lt":
		return mk("le", "", a.Args[1], a.Args[0])
	case "le":
		return mk("lt", "", a.Args[1], a.Args[0])
	case "eq":
		return mk("ne", "", a.Args...)
	case "ne":
		return mk("eq", "", a.Args...)
	case "not":
		return a.Args[0]
	case "const":
		if a.Name == "true" {
			return &Term{Op: "const", Name: "false"}
		}
		if a.Name == "false" {
			return &Term{Op: "const", Name: "true"}
		}
	}
	return mk("not", "", a)
}

func tselect(c, a, b *Term) *Term {
	if a.String() == b.String() {
		return a
	}
	if c.Op == "const" {
		if c.Name == "true" {
			return a
		}
		if c.Name == "false" {
			return b
		}
	}
	// boolean short-circuit forms: c ? x : false = c && x ; c ? true : x = c || x
	if b.Op == "const" && b.Name == "false" {
		parts := []*Term{c, a}
		sortTerms(parts)
		return mk("and", "", parts...)
	}
	if a.Op == "const" && a.Name == "true" {
		parts := []*Term{c, b}
		sortTerms(parts)
		return mk("or", "", parts...)
	}
	// |x| in if-form: select(x < 0, -x, x)
	if (c.Op == "lt" || c.Op == "le") && c.Args[1].String() == "0" && b.String() == c.Args[0].String() && a.String() == tmul(tconst(-1), b).String() {
		return mk("abs", "", b)
	}
	// min / max in if-form
	if c.Op == "lt" || c.Op == "le" {
		x, y := c.Args[0].String(), c.Args[1].String()
		switch {
		case a.String() == x && b.String() == y:
			return tminmax("min", a, b)
		case a.String() == y && b.String() == x:
			return tminmax("max", a, b)
		}
	}
	if c.Op == "not" {
		return tselect(c.Args[0], b, a)
	}
	return mk("select", "", c, a, b)
}

// ---- evaluation ---------------------------------------------------------------

type termEnv struct {
	w       *World
	bind    map[ssa.Value]*Term // parameter / phi bindings for inlined frames
	depth   int
	recvOf  map[*types.Named]*ctorInfo // immutable receiver fields resolved through constructors
	visited map[ssa.Value]bool
	loading map[*ssa.Alloc]bool // cells being resolved (cycle guard of load)
	// pathPred maps a block to the predecessor it was entered from (tree unfolding)
	pathPred    map[*ssa.BasicBlock]*ssa.BasicBlock
	forceInline map[*ssa.Function]bool
	// inside a constructor: loads of fields of the object under construction are forwarded
	// to the terms already stored there
	ctorAlloc    ssa.Value
	ctorInfo     *ctorInfo
	valueHelpers bool // opt-in: also unfold unexported store-free helpers that make calls (see isValueHelper)
}

// isPureHelper: small, loop-free, no stores, no calls except to other pure helpers / builtins.
func isPureHelper(fn *ssa.Function, depth int) bool {
	if len(fn.Blocks) == 0 || len(fn.Blocks) > 6 || depth > 3 || hasLoop(fn) {
		return false
	}
	for _, b := range fn.Blocks {
		for _, in := range b.Instrs {
			switch x := in.(type) {
			case *ssa.Store, *ssa.Defer, *ssa.Go, *ssa.Send, *ssa.MapUpdate, *ssa.Panic:
				return false
			case *ssa.Call:
				if b, ok := x.Call.Value.(*ssa.Builtin); ok {
					switch b.Name() {
					case "len", "cap", "min", "max":
						continue
					}
					return false
				}
				c := x.Call.StaticCallee()
				if c == nil || !isPureHelper(c, depth+1) {
					return false
				}
			}
		}
	}
	return true
}

// isValueHelper: an unexported, loop-free, small function without stores, sends, defers or goroutines: what it returns
// is a function of its arguments, of memory it only reads, and of the results of the calls it makes.
func isValueHelper(fn *ssa.Function) bool {
	if len(fn.Blocks) == 0 || len(fn.Blocks) > 8 || hasLoop(fn) || ast.IsExported(fn.Name()) || fn.Signature.Results().Len() == 0 {
		return false
	}
	for _, b := range fn.Blocks {
		for _, in := range b.Instrs {
			switch x := in.(type) {
			case *ssa.Store:
				// stores into the function's own locals (variadic argument arrays, spilled variables) are invisible outside
				if !isLocalAddr(x.Addr) {
					return false
				}
			case *ssa.Defer, *ssa.Go, *ssa.Send, *ssa.MapUpdate, *ssa.Panic, *ssa.Select:
				return false
			}
		}
	}
	return true
}

type ctorInfo struct {
	T       *types.Named
	Ctor    *ssa.Function
	Stores  map[int]*Term // field index -> term stored by the constructor (in terms of ctor parameters)
	Mutable map[int]bool  // fields stored outside the constructor
}

func newTermEnv(w *World) *termEnv {
	return &termEnv{w: w, bind: map[ssa.Value]*Term{}, recvOf: map[*types.Named]*ctorInfo{}, visited: map[ssa.Value]bool{}, pathPred: map[*ssa.BasicBlock]*ssa.BasicBlock{}, forceInline: map[*ssa.Function]bool{}}
}

func (e *termEnv) child() *termEnv {
	n := &termEnv{w: e.w, bind: map[ssa.Value]*Term{}, depth: e.depth + 1, recvOf: e.recvOf, visited: map[ssa.Value]bool{}, pathPred: map[*ssa.BasicBlock]*ssa.BasicBlock{}, forceInline: e.forceInline, valueHelpers: e.valueHelpers}
	return n
}

func typeShort(t types.Type) string {
	for {
		if p, ok := t.(*types.Pointer); ok {
			t = p.Elem()
			continue
		}
		break
	}
	if n, ok := t.(*types.Named); ok {
		if n.Obj().Pkg() != nil {
			return n.Obj().Pkg().Name() + "." + n.Obj().Name()
		}
		return n.Obj().Name()
	}
	return t.String()
}

func isFloat(t types.Type) bool {
	b, ok := t.Underlying().(*types.Basic)
	return ok && b.Info()&types.IsFloat != 0
}
func isInteger(t types.Type) bool {
	b, ok := t.Underlying().(*types.Basic)
	return ok && b.Info()&types.IsInteger != 0
}

// useCtor registers a component type whose immutable fields are resolved through its constructor.
func (e *termEnv) useCtor(T *types.Named, ctor *ssa.Function) *ctorInfo {
	if ci, ok := e.recvOf[T]; ok {
		return ci
	}
	ci := &ctorInfo{T: T, Ctor: ctor, Stores: map[int]*Term{}, Mutable: map[int]bool{}}
	e.recvOf[T] = ci
	// mutable fields: any store to recv.f (or atomic op on it) outside the constructor
	for fn := range e.w.AllFuncs {
		if fn == ctor || len(fn.Blocks) == 0 {
			continue
		}
		for _, b := range fn.Blocks {
			for _, in := range b.Instrs {
				switch x := in.(type) {
				case *ssa.Store:
					if fa, ok := x.Addr.(*ssa.FieldAddr); ok && isPtrTo(fa.X.Type(), T) {
						ci.Mutable[fa.Field] = true
					}
				case ssa.CallInstruction:
					for _, a := range x.Common().Args {
						if fa, ok := a.(*ssa.FieldAddr); ok && isPtrTo(fa.X.Type(), T) {
							ci.Mutable[fa.Field] = true
						}
					}
				}
			}
		}
	}
	ce := e.child()
	ce.recvOf = map[*types.Named]*ctorInfo{} // constructor terms are over its own parameters
	for k, v := range e.recvOf {
		if k != T {
			ce.recvOf[k] = v
		}
	}
	var alloc ssa.Value
	for _, b := range ctor.Blocks {
		for _, in := range b.Instrs {
			if al, ok := in.(*ssa.Alloc); ok && types.Identical(al.Type().(*types.Pointer).Elem(), T) {
				alloc = al
			}
		}
	}
	ce.ctorAlloc, ce.ctorInfo = alloc, ci
	for _, b := range ctor.Blocks {
		for _, in := range b.Instrs {
			st, ok := in.(*ssa.Store)
			if !ok {
				continue
			}
			fa, ok := st.Addr.(*ssa.FieldAddr)
			if !ok || !isPtrTo(fa.X.Type(), T) {
				continue
			}
			if alloc != nil && fa.X != alloc {
				// store through another pointer of the same type: treat field as mutable
				if _, isLoad := fa.X.(*ssa.UnOp); !isLoad {
					continue
				}
			}
			if _, dup := ci.Stores[fa.Field]; dup {
				ci.Mutable[fa.Field] = true
				continue
			}
			ci.Stores[fa.Field] = ce.termOf(st.Val)
		}
	}
	return ci
}

var pureGetters = map[string]bool{"FPS": true, "ResX": true, "ResY": true, "FrameSize": true, "Brand": true, "Model": true, "Firmware": true, "CameraSerial": true, "Seconds": true}

func (e *termEnv) termOf(v ssa.Value) *Term {
	if t, ok := e.bind[v]; ok {
		return t
	}
	if e.depth > 12 {
		return tunk("depth")
	}
	switch x := v.(type) {
	case *ssa.Const:
		if x.Value == nil {
			return &Term{Op: "const", Name: "nil"}
		}
		switch x.Value.Kind() {
		case constant.Int:
			if n, ok := constant.Int64Val(x.Value); ok {
				return tconst(n)
			}
		case constant.Bool:
			return &Term{Op: "const", Name: fmt.Sprint(constant.BoolVal(x.Value))}
		case constant.String:
			return &Term{Op: "const", Name: fmt.Sprintf("%q", constant.StringVal(x.Value))}
		case constant.Float:
			f, _ := constant.Float64Val(x.Value)
			if f == float64(int64(f)) {
				return tconst(int64(f))
			}
			return &Term{Op: "const", Name: fmt.Sprint(f)}
		}
		return &Term{Op: "const", Name: x.Value.ExactString()}
	case *ssa.Parameter:
		idx := -1
		for i, p := range x.Parent().Params {
			if p == x {
				idx = i
			}
		}
		if x.Parent().Signature.Recv() != nil && idx == 0 {
			return tleaf("recv:" + typeShort(x.Type()))
		}
		// parameters are named by type; the index is added only when the type is ambiguous
		same := 0
		for _, p := range x.Parent().Params {
			if types.Identical(p.Type(), x.Type()) {
				same++
			}
		}
		if same > 1 {
			return tleaf(fmt.Sprintf("param#%d:%s", idx, typeShort(x.Type())))
		}
		return tleaf(fmt.Sprintf("param:%s", typeShort(x.Type())))
	case *ssa.Global:
		return tleaf("global:" + x.Pkg.Pkg.Name() + "." + x.Name())
	case *ssa.FreeVar:
		if b := freeVarBinding(x); b != nil {
			return e.termOf(b)
		}
		return tleaf("freevar:" + x.Name())
	case *ssa.Function:
		return tleaf("func:" + x.String())
	case *ssa.Convert:
		in := e.termOf(x.X)
		if isFloat(x.X.Type()) && isInteger(x.Type()) {
			return mk("trunc", "", in)
		}
		return in
	case *ssa.ChangeType:
		return e.termOf(x.X)
	case *ssa.MakeInterface:
		return e.termOf(x.X)
	case *ssa.ChangeInterface:
		return e.termOf(x.X)
	case *ssa.BinOp:
		if ranged := rangeIndexOf(x); ranged != nil {
			rt := e.termOf(ranged)
			if rt.Op == "slice" {
				// ranging over A[lo:hi]: the index counts 0,1,2,... like a counted loop; what is visited follows from
				// the element expression A[lo+i]
				t := mk("iv", "", tconst(0), tconst(1))
				t.Name = "iv"
				return t
			}
			return mk("rangeidx", "", rt)
		}
		a, b := e.termOf(x.X), e.termOf(x.Y)
		switch x.Op {
		case token.ADD:
			if bt, ok := x.Type().Underlying().(*types.Basic); ok && bt.Info()&types.IsString != 0 {
				return mk("concat", "", a, b)
			}
			return tadd(a, b)
		case token.SUB:
			return tsub(a, b)
		case token.MUL:
			return tmul(a, b)
		case token.QUO:
			return mk("div", "", a, b)
		case token.REM:
			return mk("rem", "", a, b)
		case token.LSS, token.GTR, token.LEQ, token.GEQ, token.EQL, token.NEQ:
			return tcmp(x.Op, a, b)
		case token.AND, token.LAND:
			return mk("and", "", a, b)
		case token.OR, token.LOR:
			return mk("or", "", a, b)
		}
		return mk("binop", x.Op.String(), a, b)
	case *ssa.UnOp:
		switch x.Op {
		case token.NOT:
			return tnot(e.termOf(x.X))
		case token.SUB:
			return tmul(tconst(-1), e.termOf(x.X))
		case token.MUL:
			return e.load(x)
		case token.ARROW:
			return mk("recv", "", e.termOf(x.X))
		}
		return tunk("unop")
	case *ssa.FieldAddr:
		return mk("addr", "", e.fieldTerm(x.X, x.Field))
	case *ssa.Field:
		st := structOf(x.X.Type())
		return tleaf(typeShort(x.X.Type()) + "." + st.Field(x.Field).Name() + "@" + e.termOf(x.X).String())
	case *ssa.Extract:
		t := e.termOf(x.Tuple)
		if t.Op == "tuple" && x.Index < len(t.Args) {
			return t.Args[x.Index]
		}
		return mk("extract", fmt.Sprintf("#%d", x.Index), t)
	case *ssa.Call:
		return e.callTerm(x)
	case *ssa.Phi:
		return e.phiTerm(x)
	case *ssa.Alloc:
		return tleaf("alloc:" + typeShort(x.Type()))
	case *ssa.IndexAddr:
		return mk("addr", "", tindex(e.termOf(x.X), e.termOf(x.Index)))
	case *ssa.Index:
		return tindex(e.termOf(x.X), e.termOf(x.Index))
	case *ssa.Slice:
		// variadic argument lists: a slice of a local array whose elements are stored individually
		if al, ok := x.X.(*ssa.Alloc); ok && x.Low == nil && x.High == nil {
			if arr, ok := al.Type().(*types.Pointer).Elem().Underlying().(*types.Array); ok && arr.Len() <= 16 {
				elems := make([]*Term, arr.Len())
				okAll := true
				if refs := al.Referrers(); refs != nil {
					for _, rf := range *refs {
						ia, ok := rf.(*ssa.IndexAddr)
						if !ok {
							continue
						}
						ci, ok := ia.Index.(*ssa.Const)
						if !ok {
							okAll = false
							continue
						}
						idx, _ := constant.Int64Val(ci.Value)
						if r2 := ia.Referrers(); r2 != nil {
							for _, q := range *r2 {
								if st, ok := q.(*ssa.Store); ok && st.Addr == ssa.Value(ia) && idx >= 0 && idx < arr.Len() {
									if elems[idx] != nil {
										okAll = false
									}
									elems[idx] = e.termOf(st.Val)
								}
							}
						}
					}
				}
				for _, el := range elems {
					if el == nil {
						okAll = false
					}
				}
				if okAll {
					return mk("list", "", elems...)
				}
			}
		}
		lo, hi := tconst(0), mk("len", "", e.termOf(x.X))
		if x.Low != nil {
			lo = e.termOf(x.Low)
		}
		if x.High != nil {
			hi = e.termOf(x.High)
		}
		return mk("slice", "", e.termOf(x.X), lo, hi)
	case *ssa.MakeSlice:
		return mk("makeslice", "", e.termOf(x.Len))
	case *ssa.TypeAssert:
		return mk("assert", typeShort(x.AssertedType), e.termOf(x.X))
	case *ssa.Lookup:
		return mk("lookup", "", e.termOf(x.X), e.termOf(x.Index))
	case *ssa.MakeClosure:
		return tleaf("closure:" + x.Fn.Name())
	case *ssa.Select:
		return tleaf("select:" + x.Name())
	}
	return tunk(fmt.Sprintf("%T", v))
}

// fieldTerm names "base.f". Immutable fields of registered component types are replaced by
// the term their constructor stores.
func (e *termEnv) fieldTerm(base ssa.Value, field int) *Term {
	st := structOf(base.Type())
	if st == nil {
		return tunk("field-of-non-struct")
	}
	bt := base.Type()
	if p, ok := bt.Underlying().(*types.Pointer); ok {
		bt = p.Elem()
	}
	if e.ctorAlloc != nil && base == e.ctorAlloc && e.ctorInfo != nil {
		if t, ok := e.ctorInfo.Stores[field]; ok {
			return t
		}
	}
	if n, ok := bt.(*types.Named); ok {
		if ci, ok := e.recvOf[n]; ok && !ci.Mutable[field] {
			if _, basic := st.Field(field).Type().Underlying().(*types.Basic); basic {
				if t, ok := ci.Stores[field]; ok {
					return t
				}
				// zero value
				return zeroTerm(st.Field(field).Type())
			}
			// immutable object fields are named by type and constructor source
			if t, ok := ci.Stores[field]; ok && t.Op == "leaf" && strings.HasPrefix(t.Name, "param") {
				return tleaf("ctor-" + t.Name)
			}
			return tleaf("obj:" + typeShort(st.Field(field).Type()))
		}
	}
	// struct parameters passed by value are spilled to a local: name the field after the parameter
	if al, ok := base.(*ssa.Alloc); ok {
		var only *ssa.Store
		n := 0
		if refs := al.Referrers(); refs != nil {
			for _, rf := range *refs {
				if st2, ok := rf.(*ssa.Store); ok && st2.Addr == ssa.Value(al) {
					only = st2
					n++
				}
			}
		}
		if n == 1 {
			if p, ok := only.Val.(*ssa.Parameter); ok {
				pt := e.termOf(p)
				if pt.Op == "struct" && field < len(pt.Args) {
					return pt.Args[field] // the caller passed a literal: the field is what the literal gives it
				}
				return tleaf(typeShort(base.Type()) + "." + st.Field(field).Name() + "@" + pt.String())
			}
		}
	}
	bterm := e.termOf(base)
	if bterm.Op == "addr" && len(bterm.Args) == 1 {
		bterm = bterm.Args[0] // field of a nested struct
	}
	root := bterm.String()
	// shorten: only keep the root kind for leaves
	return tleaf(typeShort(base.Type()) + "." + st.Field(field).Name() + "@" + root)
}

func zeroTerm(t types.Type) *Term {
	if b, ok := t.Underlying().(*types.Basic); ok {
		switch {
		case b.Info()&types.IsBoolean != 0:
			return &Term{Op: "const", Name: "false"}
		case b.Info()&types.IsNumeric != 0:
			return tconst(0)
		case b.Info()&types.IsString != 0:
			return &Term{Op: "const", Name: `""`}
		}
	}
	return &Term{Op: "const", Name: "nil"}
}

// load resolves *addr.
func (e *termEnv) load(u *ssa.UnOp) *Term {
	switch a := u.X.(type) {
	case *ssa.FieldAddr:
		return e.fieldTerm(a.X, a.Field)
	case *ssa.Global:
		return tleaf("global:" + a.Pkg.Pkg.Name() + "." + a.Name())
	case *ssa.Alloc:
		// store-to-load forwarding for local cells with a single store
		var stores []*ssa.Store
		selfCopies := 0
		if refs := a.Referrers(); refs != nil {
			for _, r := range *refs {
				if st, ok := r.(*ssa.Store); ok && st.Addr == ssa.Value(a) {
					// "*x = *x" (a named result returned as itself through the defer spill) stores nothing new
					if ld, isLd := st.Val.(*ssa.UnOp); isLd && ld.Op == token.MUL && ld.X == ssa.Value(a) {
						selfCopies++
						continue
					}
					stores = append(stores, st)
				}
			}
		}
		if len(stores) == 0 && selfCopies > 0 && !cellEscapes(a) {
			// never assigned: the zero value it was allocated with
			if _, isStruct := a.Type().(*types.Pointer).Elem().Underlying().(*types.Struct); !isStruct {
				return zeroTerm(a.Type().(*types.Pointer).Elem())
			}
		}
		if len(stores) == 0 && selfCopies == 0 {
			if lit := e.structLiteral(a); lit != nil {
				return lit
			}
		}
		if e.loading == nil {
			e.loading = map[*ssa.Alloc]bool{}
		}
		if e.loading[a] {
			return tleaf(fmt.Sprintf("local:%s", typeShort(a.Type())))
		}
		e.loading[a] = true
		defer delete(e.loading, a)
		if len(stores) == 1 {
			// a local whose address is handed to a call (e.g. filled in by Unmarshal) no longer holds what was stored:
			// it is named like its fields are ("alloc:T")
			escapes := false
			if _, isStruct := a.Type().(*types.Pointer).Elem().Underlying().(*types.Struct); isStruct {
				if refs := a.Referrers(); refs != nil {
					for _, r := range *refs {
						switch x := r.(type) {
						case *ssa.MakeInterface:
							escapes = true
						case ssa.CallInstruction:
							for _, arg := range x.Common().Args {
								if arg == ssa.Value(a) {
									escapes = true
								}
							}
						}
					}
				}
			}
			if escapes {
				return tleaf("alloc:" + typeShort(a.Type()))
			}
			return e.termOf(stores[0].Val)
		}
		return tleaf(fmt.Sprintf("local:%s", typeShort(a.Type())))
	case *ssa.IndexAddr:
		return tindex(e.termOf(a.X), e.termOf(a.Index))
	case *ssa.FreeVar:
		// a captured variable: the cell of the enclosing function; resolved when that cell is stored exactly once
		if b := freeVarBinding(a); b != nil {
			if al, ok := b.(*ssa.Alloc); ok {
				var stores []*ssa.Store
				if refs := al.Referrers(); refs != nil {
					for _, r := range *refs {
						if st, ok := r.(*ssa.Store); ok && st.Addr == ssa.Value(al) {
							stores = append(stores, st)
						}
					}
				}
				if len(stores) == 1 {
					return e.termOf(stores[0].Val)
				}
			}
		}
		return tleaf("freevar:" + a.Name())
	}
	return mk("deref", "", e.termOf(u.X))
}

func (e *termEnv) callTerm(c *ssa.Call) *Term {
	cc := c.Common()
	if cc.IsInvoke() {
		args := []*Term{}
		for _, a := range cc.Args {
			args = append(args, e.termOf(a))
		}
		name := typeShort(cc.Value.Type()) + "." + cc.Method.Name()
		// receiver identity is dropped for pure getters on the camera spec (unifies repeated calls)
		if pureGetters[cc.Method.Name()] && len(args) == 0 {
			return mk("call", name)
		}
		return mk("call", name, append([]*Term{e.termOf(cc.Value)}, args...)...)
	}
	if b, ok := cc.Value.(*ssa.Builtin); ok {
		args := []*Term{}
		for _, a := range cc.Args {
			args = append(args, e.termOf(a))
		}
		switch b.Name() {
		case "min":
			return tminmax("min", args...)
		case "max":
			return tminmax("max", args...)
		case "len":
			if len(args) == 1 && args[0].Op == "slice" && len(args[0].Args) == 3 {
				return tsub(args[0].Args[2], args[0].Args[1]) // len(A[lo:hi]) = hi - lo
			}
			return mk("len", "", args...)
		}
		return mk("call", "builtin."+b.Name(), args...)
	}
	callee := cc.StaticCallee()
	if callee == nil {
		return mk("call", "dynamic", e.termOf(cc.Value))
	}
	args := []*Term{}
	for _, a := range cc.Args {
		args = append(args, e.termOf(a))
	}
	switch callee.String() {
	case "math.Max":
		return tminmax("max", args...)
	case "math.Min":
		return tminmax("min", args...)
	}
	full := callee.String()
	if callee.Signature.Recv() != nil {
		full = typeShort(callee.Signature.Recv().Type()) + "." + callee.Name()
		if pureGetters[callee.Name()] && len(args) == 1 {
			if callee.Name() == "Seconds" {
				return mk("call", full, args...)
			}
			// getter on a concrete type: kept symbolic (getter/field agreement is checked separately)
			return mk("call", full, args...)
		}
	}
	// inline small pure loop-free repo helpers (min, absDiff, getters, ...)
	if pinned, isSet := e.forceInline[callee]; e.w.IsRepoFunc(callee) && !(isSet && !pinned) && (pinned || isPureHelper(callee, 0)) {
		if t := e.inline(callee, cc.Args); t != nil {
			return t
		}
	}
	// an unexported loop-free helper that stores nothing is transparent for the VALUE it returns, even if it logs or
	// calls getters on the way (an extracted computation); explicitly pinned functions (forceInline == false) stay calls
	if pinned, isSet := e.forceInline[callee]; e.valueHelpers && !(isSet && !pinned) && e.w.IsRepoFunc(callee) && isValueHelper(callee) && e.depth < 4 {
		if t := e.inline(callee, cc.Args); t != nil && !t.HasUnknown() {
			return t
		}
	}
	return mk("call", full, args...)
}

// inline evaluates the result of a loop-free function by unfolding its CFG into a tree of selects.
func (e *termEnv) inline(fn *ssa.Function, args []ssa.Value) *Term {
	if hasLoop(fn) {
		return nil
	}
	ce := e.child()
	for i, p := range fn.Params {
		if i < len(args) {
			ce.bind[p] = e.termOf(args[i])
		}
	}
	budget := 64
	t := ce.evalBlock(fn.Blocks[0], nil, &budget)
	return t
}

func hasLoop(fn *ssa.Function) bool {
	// a back edge: successor that dominates the block
	for _, b := range fn.Blocks {
		for _, s := range b.Succs {
			if s.Dominates(b) {
				return true
			}
		}
	}
	return false
}

// evalBlock returns the term of the function result when control enters b from pred.
func (e *termEnv) evalBlock(b, pred *ssa.BasicBlock, budget *int) *Term {
	*budget--
	if *budget < 0 {
		return nil
	}
	// bind phis according to the incoming edge
	saved := map[ssa.Value]*Term{}
	for _, in := range b.Instrs {
		phi, ok := in.(*ssa.Phi)
		if !ok {
			break
		}
		for i, p := range b.Preds {
			if p == pred {
				saved[phi] = e.bind[phi]
				e.bind[phi] = e.termOf(phi.Edges[i])
			}
		}
	}
	defer func() {
		for k, v := range saved {
			if v == nil {
				delete(e.bind, k)
			} else {
				e.bind[k] = v
			}
		}
	}()
	last := b.Instrs[len(b.Instrs)-1]
	switch x := last.(type) {
	case *ssa.Return:
		switch len(x.Results) {
		case 0:
			return mk("tuple", "")
		case 1:
			return e.termOf(x.Results[0])
		}
		var ts []*Term
		for _, r := range x.Results {
			ts = append(ts, e.termOf(r))
		}
		return mk("tuple", "", ts...)
	case *ssa.Jump:
		return e.evalBlock(b.Succs[0], b, budget)
	case *ssa.If:
		c := e.termOf(x.Cond)
		t1 := e.evalBlock(b.Succs[0], b, budget)
		t2 := e.evalBlock(b.Succs[1], b, budget)
		if t1 == nil || t2 == nil {
			return nil
		}
		if t1.Op == "tuple" && t2.Op == "tuple" && len(t1.Args) == len(t2.Args) {
			var ts []*Term
			for i := range t1.Args {
				ts = append(ts, tselect(c, t1.Args[i], t2.Args[i]))
			}
			return mk("tuple", "", ts...)
		}
		return tselect(c, t1, t2)
	case *ssa.Panic:
		return mk("panic", "")
	}
	return nil
}

// phiTerm builds select(cond, a, b) for if/else joins, an opaque phi otherwise.
func (e *termEnv) phiTerm(p *ssa.Phi) *Term {
	if e.visited[p] {
		return tleaf("loopvar:" + p.Name())
	}
	e.visited[p] = true
	defer delete(e.visited, p)
	b := p.Block()
	if len(p.Edges) == 2 {
		d := b.Idom()
		if d != nil {
			if iff, ok := d.Instrs[len(d.Instrs)-1].(*ssa.If); ok {
				side := func(pred *ssa.BasicBlock) int {
					// which successor of d leads to pred (or is the edge d->b itself)?
					if pred == d {
						if d.Succs[0] == b {
							return 0
						}
						return 1
					}
					in0 := d.Succs[0].Dominates(pred) && len(d.Succs[0].Preds) == 1
					in1 := d.Succs[1].Dominates(pred) && len(d.Succs[1].Preds) == 1
					if in0 && !in1 {
						return 0
					}
					if in1 && !in0 {
						return 1
					}
					return -1
				}
				s0, s1 := side(b.Preds[0]), side(b.Preds[1])
				if s0 >= 0 && s1 >= 0 && s0 != s1 {
					c := e.termOf(iff.Cond)
					t0, t1 := e.termOf(p.Edges[0]), e.termOf(p.Edges[1])
					if s0 == 0 {
						return tselect(c, t0, t1)
					}
					return tselect(c, t1, t0)
				}
			}
		}
	}
	if iv := e.ivOf(p); iv != nil {
		// "for i := 0; i < len(X); i++" visits X exactly like "for i := range X": same canonical index
		if init, ok := iv.Args[0].isConst(); ok && init == 0 {
			if step, ok := iv.Args[1].isConst(); ok && step == 1 {
				if b, strict, ok := e.ivBound(p); ok && strict && b.Op == "len" && len(b.Args) == 1 && b.Args[0].Op != "slice" {
					return mk("rangeidx", "", b.Args[0])
				}
			}
		}
		return iv
	}
	if t := e.boolPhi(p); t != nil {
		return t
	}
	var ts []*Term
	for _, ed := range p.Edges {
		ts = append(ts, e.termOf(ed))
	}
	sortTerms(ts)
	return mk("phi", "", ts...)
}

// ivOf recognises a counted-loop induction variable: phi [init, phi+step].
func (e *termEnv) ivOf(p *ssa.Phi) *Term {
	if len(p.Edges) != 2 {
		return nil
	}
	for i := 0; i < 2; i++ {
		bo, ok := p.Edges[i].(*ssa.BinOp)
		if !ok || bo.Op != token.ADD || bo.X != ssa.Value(p) {
			continue
		}
		c, ok := bo.Y.(*ssa.Const)
		if !ok || c.Value == nil || c.Value.Kind() != constant.Int {
			continue
		}
		step, _ := constant.Int64Val(c.Value)
		init := e.termOf(p.Edges[1-i])
		t := mk("iv", "", init, tconst(step))
		t.Name = "iv"
		return t
	}
	return nil
}

// ivBound returns the loop bound B of an induction variable phi when the loop header
// tests "iv < B" (body on the true edge), and the strictness.
func (e *termEnv) ivBound(p *ssa.Phi) (bound *Term, strict bool, ok bool) {
	b := p.Block()
	iff, isIf := b.Instrs[len(b.Instrs)-1].(*ssa.If)
	if !isIf {
		return nil, false, false
	}
	bo, isBo := iff.Cond.(*ssa.BinOp)
	if !isBo {
		return nil, false, false
	}
	switch {
	case bo.X == ssa.Value(p) && (bo.Op == token.LSS || bo.Op == token.LEQ):
		return e.termOf(bo.Y), bo.Op == token.LSS, true
	case bo.Y == ssa.Value(p) && (bo.Op == token.GTR || bo.Op == token.GEQ):
		return e.termOf(bo.X), bo.Op == token.GTR, true
	}
	return nil, false, false
}

// ---- guards (E3) ----------------------------------------------------------------

type Guard struct {
	Cond *Term
	Pos  bool
	If   *ssa.If
	At   int // number of effect instructions on the path when the guard was taken (path enumeration only)
}

func (g Guard) String() string {
	if g.Pos {
		return g.Cond.String()
	}
	return tnot(g.Cond).String()
}

// guardsOf returns the branch conditions that dominate block b (conjuncts that must hold
// whenever b executes).
func (e *termEnv) guardsOf(b *ssa.BasicBlock) []Guard {
	var out []Guard
	for d := b.Idom(); d != nil; d = d.Idom() {
		iff, ok := d.Instrs[len(d.Instrs)-1].(*ssa.If)
		if !ok {
			continue
		}
		in0 := d.Succs[0].Dominates(b) && onlyEntryFrom(d.Succs[0], d)
		in1 := d.Succs[1].Dominates(b) && onlyEntryFrom(d.Succs[1], d)
		if in0 == in1 {
			continue
		}
		g := Guard{Cond: e.termOf(iff.Cond), Pos: in0, If: iff}
		if nilFrameGuard(g) == 1 {
			continue // "the frame parameter is not nil": always true (see framesNonNil), a defensive test adds no condition
		}
		out = append(out, g)
	}
	return out
}

// nilFrameGuard: 1 when the guard says a *cptvframe.Frame parameter is non-nil, -1 when it says it is nil, 0 otherwise.
func nilFrameGuard(g Guard) int {
	s := g.Cond.String()
	if !strings.HasSuffix(s, ":cptvframe.Frame)") || strings.Count(s, "(") != 1 {
		return 0
	}
	eq := false
	switch {
	case strings.HasPrefix(s, "eq(nil, param"):
		eq = true
	case strings.HasPrefix(s, "ne(nil, param"):
	default:
		return 0
	}
	if eq == g.Pos {
		return -1
	}
	return 1
}

// inNilFrameBranch: the block runs only when a frame parameter is nil (never, see framesNonNil).
func (e *termEnv) inNilFrameBranch(b *ssa.BasicBlock) bool {
	for d := b.Idom(); d != nil; d = d.Idom() {
		iff, ok := d.Instrs[len(d.Instrs)-1].(*ssa.If)
		if !ok {
			continue
		}
		in0 := (d.Succs[0] == b || d.Succs[0].Dominates(b)) && onlyEntryFrom(d.Succs[0], d)
		in1 := (d.Succs[1] == b || d.Succs[1].Dominates(b)) && onlyEntryFrom(d.Succs[1], d)
		if in0 == in1 {
			continue
		}
		if nilFrameGuard(Guard{Cond: e.termOf(iff.Cond), Pos: in0}) == -1 {
			return true
		}
	}
	return false
}

func guardStrings(gs []Guard) []string {
	var s []string
	for _, g := range gs {
		s = append(s, g.String())
	}
	sort.Strings(s)
	return s
}

func hasGuard(gs []Guard, want string) bool {
	for _, g := range gs {
		if g.String() == want {
			return true
		}
	}
	return false
}

// framesNonNil drops the paths taken only when a frame parameter is nil and removes the opposite test from the others:
// the frames handed to the detector and the processor are slots of their rings (never nil; a nil frame panics in the
// pixel loops of the unguarded code as well), so a defensive "if frame == nil { return }" adds no behaviour.
func framesNonNil(paths []*Path) []*Path {
	isNilFrameTest := func(c *Term) (eq bool, ok bool) {
		s := c.String()
		if !strings.HasSuffix(s, ":cptvframe.Frame)") || strings.Count(s, "(") != 1 {
			return false, false
		}
		switch {
		case strings.HasPrefix(s, "eq(nil, param"):
			return true, true
		case strings.HasPrefix(s, "ne(nil, param"):
			return false, true
		}
		return false, false
	}
	var out []*Path
next:
	for _, p := range paths {
		var cs []Guard
		for _, g := range p.Conds {
			if eq, ok := isNilFrameTest(g.Cond); ok {
				if eq == g.Pos {
					continue next // the path of a nil frame
				}
				continue
			}
			cs = append(cs, g)
		}
		p.Conds = cs
		out = append(out, p)
	}
	return out
}

// ---- path enumeration for loop-free functions ------------------------------------

type Path struct {
	Conds   []Guard
	Instrs  []ssa.Instruction // calls and stores along the path, in order
	Ret     *ssa.Return
	Blocks  []*ssa.BasicBlock
	PhiBind map[*ssa.Phi]ssa.Value
	Bind    map[ssa.Value]*Term     // bindings in force when the path was emitted (parameters / results of unfolded callees)
	Seq     []ssa.Instruction       // every instruction of the path in execution order, loads included (enumPathsInl only)
	Src     map[ssa.Value]ssa.Value // unfolded callee parameter -> argument value, unfolded call -> returned value
}

// Origin follows parameter/argument and call/result links of unfolded callees back to the value that was computed.
func (p *Path) Origin(v ssa.Value) ssa.Value {
	for i := 0; i < 8; i++ {
		n, ok := p.Src[v]
		if !ok {
			return v
		}
		v = n
	}
	return v
}

// enumPaths enumerates all acyclic paths from entry to a return/panic; back edges are not followed
// (ok=false if the function has a loop that was cut).
func enumPaths(e *termEnv, fn *ssa.Function, limit int) (paths []*Path, complete bool) {
	complete = true
	var walk func(b, pred *ssa.BasicBlock, cur *Path, onPath map[*ssa.BasicBlock]bool)
	walk = func(b, pred *ssa.BasicBlock, cur *Path, onPath map[*ssa.BasicBlock]bool) {
		if len(paths) >= limit {
			complete = false
			return
		}
		if onPath[b] {
			complete = false
			return
		}
		onPath[b] = true
		defer delete(onPath, b)
		cur.Blocks = append(cur.Blocks, b)
		nInstr, nCond, nBlk := len(cur.Instrs), len(cur.Conds), len(cur.Blocks)
		var bound []*ssa.Phi
		defer func() {
			cur.Instrs, cur.Conds, cur.Blocks = cur.Instrs[:nInstr], cur.Conds[:nCond], cur.Blocks[:nBlk-1]
			for _, p := range bound {
				delete(cur.PhiBind, p)
				delete(e.bind, p)
			}
		}()
		for _, in := range b.Instrs {
			switch x := in.(type) {
			case *ssa.Phi:
				for i, p := range b.Preds {
					if p == pred {
						cur.PhiBind[x] = x.Edges[i]
						e.bind[x] = e.termOf(x.Edges[i])
						bound = append(bound, x)
					}
				}
			case *ssa.Call, *ssa.Store, *ssa.Defer, *ssa.Go, *ssa.Send, *ssa.RunDefers:
				cur.Instrs = append(cur.Instrs, in)
			case *ssa.Return:
				cp := &Path{Conds: append([]Guard{}, cur.Conds...), Instrs: append([]ssa.Instruction{}, cur.Instrs...), Ret: x, Blocks: append([]*ssa.BasicBlock{}, cur.Blocks...), PhiBind: map[*ssa.Phi]ssa.Value{}}
				for k, v := range cur.PhiBind {
					cp.PhiBind[k] = v
				}
				paths = append(paths, cp)
				return
			case *ssa.Panic:
				return
			case *ssa.Jump:
				walk(b.Succs[0], b, cur, onPath)
				return
			case *ssa.If:
				c := e.termOf(x.Cond)
				// a condition that is a constant on this path (a short-circuit value whose phi edge is fixed by the
				// way the path came) has only one feasible branch
				if c.Op == "const" && (c.Name == "true" || c.Name == "false") {
					i := 0
					if c.Name == "false" {
						i = 1
					}
					walk(b.Succs[i], b, cur, onPath)
					return
				}
				for i := 0; i < 2; i++ {
					cur.Conds = append(cur.Conds[:nCond], Guard{Cond: c, Pos: i == 0, If: x})
					walk(b.Succs[i], b, cur, onPath)
				}
				return
			}
		}
	}
	walk(fn.Blocks[0], nil, &Path{PhiBind: map[*ssa.Phi]ssa.Value{}}, map[*ssa.BasicBlock]bool{})
	return
}

// calleeName gives "pkg.Func" / "Type.Method" for a call instruction.
func calleeName(ci ssa.CallInstruction) string {
	cc := ci.Common()
	if cc.IsInvoke() {
		return typeShort(cc.Value.Type()) + "." + cc.Method.Name()
	}
	if b, ok := cc.Value.(*ssa.Builtin); ok {
		return "builtin." + b.Name()
	}
	if callee := cc.StaticCallee(); callee != nil {
		if callee.Signature.Recv() != nil {
			return typeShort(callee.Signature.Recv().Type()) + "." + callee.Name()
		}
		if callee.Pkg != nil {
			return callee.Pkg.Pkg.Name() + "." + callee.Name()
		}
		return callee.Name()
	}
	return "dynamic"
}

// Term evaluates v in the context of the path: phis take the value of the edge the path came
// through, and loads of local cells (named results spilled because of defer) take the value of
// the last store on the path.
func (p *Path) Term(e *termEnv, v ssa.Value) *Term {
	ce := e.child()
	ce.depth = e.depth
	for k, t := range e.bind {
		ce.bind[k] = t
	}
	for k, t := range p.Bind {
		ce.bind[k] = t
	}
	for _, b := range p.Blocks {
		for _, in := range b.Instrs {
			phi, ok := in.(*ssa.Phi)
			if !ok {
				break
			}
			if ed, ok := p.PhiBind[phi]; ok {
				ce.bind[phi] = ce.termOf(ed)
			}
		}
	}
	// cells: last store on the path
	last := map[ssa.Value]*ssa.Store{}
	for _, in := range p.Instrs {
		if st, ok := in.(*ssa.Store); ok {
			if al, ok := st.Addr.(*ssa.Alloc); ok {
				last[al] = st
			}
		}
	}
	if u, ok := v.(*ssa.UnOp); ok && u.Op == token.MUL {
		if al, ok := u.X.(*ssa.Alloc); ok {
			if st, ok := last[al]; ok {
				return ce.termOf(st.Val)
			}
		}
	}
	return ce.termOf(v)
}

// rangeIndexOf recognises the index of a `for i := range s` loop as lowered by go/ssa:
// i = phi[-1, i] + 1 tested against len(s) in the loop header; returns s.
func rangeIndexOf(bo *ssa.BinOp) ssa.Value {
	if bo.Op != token.ADD {
		return nil
	}
	phi, ok := bo.X.(*ssa.Phi)
	if !ok || len(phi.Edges) < 2 {
		return nil
	}
	c, ok := bo.Y.(*ssa.Const)
	if !ok || c.Value == nil || c.Value.Kind() != constant.Int || c.Int64() != 1 {
		return nil
	}
	// one entry edge carrying -1; every back edge (there are several when the body branches) carries idx+1 itself
	inits, backs := 0, 0
	for _, ed := range phi.Edges {
		if k, isC := ed.(*ssa.Const); isC && k.Value != nil && k.Value.Kind() == constant.Int && k.Int64() == -1 {
			inits++
		} else if ed == ssa.Value(bo) {
			backs++
		}
	}
	okPhi := inits == 1 && backs == len(phi.Edges)-1
	if !okPhi || bo.Block() != phi.Block() {
		return nil
	}
	iff, ok := bo.Block().Instrs[len(bo.Block().Instrs)-1].(*ssa.If)
	if !ok {
		return nil
	}
	cmp, ok := iff.Cond.(*ssa.BinOp)
	if !ok || cmp.Op != token.LSS || cmp.X != ssa.Value(bo) {
		return nil
	}
	ln, ok := cmp.Y.(*ssa.Call)
	if !ok {
		return nil
	}
	if b, isB := ln.Call.Value.(*ssa.Builtin); !isB || b.Name() != "len" {
		return nil
	}
	return ln.Call.Args[0]
}

// boolPhi reconstructs short-circuit expressions: a || b || c is lowered to a phi whose edges
// are the constant true from the blocks that test a, b (true edge) and the value of c.
func (e *termEnv) boolPhi(p *ssa.Phi) *Term {
	bt, ok := p.Type().Underlying().(*types.Basic)
	if !ok || bt.Kind() != types.Bool || len(p.Edges) < 2 {
		return nil
	}
	b := p.Block()
	var constVal *bool
	var parts []*Term
	nonConst := 0
	for i, ed := range p.Edges {
		pred := b.Preds[i]
		if c, isC := ed.(*ssa.Const); isC && c.Value != nil && c.Value.Kind() == constant.Bool {
			v := constant.BoolVal(c.Value)
			if constVal == nil {
				constVal = &v
			} else if *constVal != v {
				return nil
			}
			iff, ok := pred.Instrs[len(pred.Instrs)-1].(*ssa.If)
			if !ok {
				return nil
			}
			// || : reached on the true edge with value true ; && : reached on the false edge with value false
			if v && pred.Succs[0] == b {
				parts = append(parts, e.termOf(iff.Cond))
			} else if !v && pred.Succs[1] == b {
				parts = append(parts, e.termOf(iff.Cond))
			} else {
				return nil
			}
		} else {
			nonConst++
			parts = append(parts, e.termOf(ed))
		}
	}
	if constVal == nil || nonConst != 1 {
		return nil
	}
	sortTerms(parts)
	if *constVal {
		return mk("or", "", parts...)
	}
	return mk("and", "", parts...)
}

// tindex builds base[idx] and normalises an index into a re-sliced base: (A[lo:hi])[i] = A[lo+i]; a range index
// (0,1,2,...) offset by lo is the counted variable iv(lo, 1).
func tindex(base, idx *Term) *Term {
	if base.Op == "slice" && len(base.Args) == 3 {
		lo := base.Args[1]
		var ni *Term
		isCount01 := false
		if idx.Op == "iv" && len(idx.Args) == 2 {
			a, ok1 := idx.Args[0].isConst()
			b, ok2 := idx.Args[1].isConst()
			isCount01 = ok1 && ok2 && a == 0 && b == 1
		}
		if idx.Op == "rangeidx" || isCount01 {
			ni = mk("iv", "", lo, tconst(1))
			ni.Name = "iv"
		} else {
			ni = tadd(lo, idx)
		}
		return tindex(base.Args[0], ni)
	}
	return mk("index", "", base, idx)
}

// freeVarBinding finds the value bound to a closure's free variable at the (single) MakeClosure of its function in the
// enclosing function.
func freeVarBinding(fv *ssa.FreeVar) ssa.Value {
	fn := fv.Parent()
	par := fn.Parent()
	if par == nil {
		return nil
	}
	idx := -1
	for i, v := range fn.FreeVars {
		if v == fv {
			idx = i
		}
	}
	var found ssa.Value
	n := 0
	for _, b := range par.Blocks {
		for _, in := range b.Instrs {
			if mc, ok := in.(*ssa.MakeClosure); ok && mc.Fn == ssa.Value(fn) && idx >= 0 && idx < len(mc.Bindings) {
				found = mc.Bindings[idx]
				n++
			}
		}
	}
	if n != 1 {
		return nil
	}
	return found
}

// onlyEntryFrom: every way into block s comes from block d, except back edges from blocks that s itself dominates
// (s is then a loop header entered only through d).
func onlyEntryFrom(s, d *ssa.BasicBlock) bool {
	n := 0
	for _, p := range s.Preds {
		if p == d {
			n++
			continue
		}
		if !s.Dominates(p) {
			return false
		}
	}
	return n == 1
}

// isLocalAddr: the address is (an element or field of) a local allocation of the function.
func isLocalAddr(v ssa.Value) bool {
	for i := 0; i < 4; i++ {
		switch x := v.(type) {
		case *ssa.Alloc:
			return true
		case *ssa.IndexAddr:
			v = x.X
		case *ssa.FieldAddr:
			v = x.X
		default:
			return false
		}
	}
	return false
}

// enumPathsInl is enumPaths that also unfolds calls to the functions accepted by inl (same-package helpers a
// refactoring may have extracted): the callee's paths are spliced into the caller's - its instructions and
// conditions join the path, its parameters are bound to the argument terms and the call's value to the term the callee
// returns on that path. Recursion and more than two levels are not unfolded (the call then stays an ordinary call).
func enumPathsInl(e *termEnv, fn *ssa.Function, limit int, inl func(*ssa.Function) bool) (paths []*Path, complete bool) {
	complete = true
	cur := &Path{PhiBind: map[*ssa.Phi]ssa.Value{}}
	type ctx struct {
		fn      *ssa.Function
		onPath  map[*ssa.BasicBlock]bool
		kont    func(rets []*Term)
		depth   int
		parent  *ctx
		lastRet []ssa.Value
	}
	setBind := func(v ssa.Value, t *Term) func() {
		old, had := e.bind[v]
		e.bind[v] = t
		return func() {
			if had {
				e.bind[v] = old
			} else {
				delete(e.bind, v)
			}
		}
	}
	unfolded := map[*ssa.Call]bool{}
	src := map[ssa.Value]ssa.Value{}
	var walkFrom func(c *ctx, b, pred *ssa.BasicBlock, start int)
	walkFrom = func(c *ctx, b, pred *ssa.BasicBlock, start int) {
		if len(paths) >= limit {
			complete = false
			return
		}
		nInstr, nCond, nBlk, nSeq := len(cur.Instrs), len(cur.Conds), len(cur.Blocks), len(cur.Seq)
		var undo []func()
		if start == 0 {
			if c.onPath[b] {
				complete = false
				return
			}
			c.onPath[b] = true
			undo = append(undo, func() { delete(c.onPath, b) })
			cur.Blocks = append(cur.Blocks, b)
		}
		defer func() {
			cur.Instrs, cur.Conds, cur.Blocks, cur.Seq = cur.Instrs[:nInstr], cur.Conds[:nCond], cur.Blocks[:nBlk], cur.Seq[:nSeq]
			for i := len(undo) - 1; i >= 0; i-- {
				undo[i]()
			}
		}()
		for i := start; i < len(b.Instrs); i++ {
			cur.Seq = append(cur.Seq, b.Instrs[i])
			switch x := b.Instrs[i].(type) {
			case *ssa.Phi:
				for j, p := range b.Preds {
					if p == pred {
						old, had := cur.PhiBind[x]
						cur.PhiBind[x] = x.Edges[j]
						undo = append(undo, func() {
							if had {
								cur.PhiBind[x] = old
							} else {
								delete(cur.PhiBind, x)
							}
						})
						undo = append(undo, setBind(x, e.termOf(x.Edges[j])))
					}
				}
			case *ssa.Call:
				cur.Instrs = append(cur.Instrs, x)
				callee := x.Call.StaticCallee()
				rec := false
				for p := c; p != nil; p = p.parent {
					if p.fn == callee {
						rec = true
					}
				}
				if callee != nil && inl != nil && len(callee.Blocks) > 0 && c.depth < 2 && !rec && inl(callee) {
					unfolded[x] = true
					var unb []func()
					for pi, p := range callee.Params {
						if pi < len(x.Call.Args) {
							unb = append(unb, setBind(p, e.termOf(x.Call.Args[pi])))
							pp := p
							src[pp] = x.Call.Args[pi]
							unb = append(unb, func() { delete(src, pp) })
						}
					}
					bb, ii := b, i
					nc := &ctx{fn: callee, onPath: map[*ssa.BasicBlock]bool{}, depth: c.depth + 1, parent: c}
					nc.kont = func(rets []*Term) {
						var rt *Term
						switch len(rets) {
						case 0:
							rt = mk("tuple", "")
						case 1:
							rt = rets[0]
						default:
							rt = mk("tuple", "", rets...)
						}
						un := setBind(x, rt)
						if len(nc.lastRet) == 1 {
							src[x] = nc.lastRet[0]
						}
						walkFrom(c, bb, pred, ii+1)
						delete(src, x)
						un()
					}
					walkFrom(nc, callee.Blocks[0], nil, 0)
					for k := len(unb) - 1; k >= 0; k-- {
						unb[k]()
					}
					return
				}
			case *ssa.Store, *ssa.Defer, *ssa.Go, *ssa.Send, *ssa.RunDefers:
				cur.Instrs = append(cur.Instrs, b.Instrs[i])
			case *ssa.Return:
				if c.kont != nil {
					var rets []*Term
					for _, rv := range x.Results {
						rets = append(rets, e.termOf(rv))
					}
					c.lastRet = x.Results
					c.kont(rets)
					return
				}
				cp := &Path{Conds: append([]Guard{}, cur.Conds...), Instrs: append([]ssa.Instruction{}, cur.Instrs...), Ret: x, Blocks: append([]*ssa.BasicBlock{}, cur.Blocks...),
					PhiBind: map[*ssa.Phi]ssa.Value{}, Bind: map[ssa.Value]*Term{}, Seq: append([]ssa.Instruction{}, cur.Seq...), Src: map[ssa.Value]ssa.Value{}}
				for k, v := range src {
					cp.Src[k] = v
				}
				for k, v := range cur.PhiBind {
					cp.PhiBind[k] = v
				}
				for k, v := range e.bind {
					cp.Bind[k] = v
				}
				paths = append(paths, cp)
				return
			case *ssa.Panic:
				return
			case *ssa.Jump:
				walkFrom(c, b.Succs[0], b, 0)
				return
			case *ssa.If:
				cond := e.termOf(x.Cond)
				// x == x / x != x (a helper's constant result compared by the caller)
				if (cond.Op == "eq" || cond.Op == "ne") && len(cond.Args) == 2 && cond.Args[0].String() == cond.Args[1].String() && !cond.HasUnknown() {
					if cond.Op == "eq" {
						cond = &Term{Op: "const", Name: "true"}
					} else {
						cond = &Term{Op: "const", Name: "false"}
					}
				}
				if cond.Op == "const" && (cond.Name == "true" || cond.Name == "false") {
					k := 0
					if cond.Name == "false" {
						k = 1
					}
					walkFrom(c, b.Succs[k], b, 0)
					return
				}
				// a condition already decided on this path (the same test made by the helper and again by its caller on
				// the value the helper returned) has only the consistent branch
				decided := -1
				cs, ncs := cond.String(), tnot(cond).String()
				for _, g := range cur.Conds {
					// conditions over immutable SSA values (call results, parameters, constants) keep their outcome; a
					// test of memory keeps it only if nothing on the path in between can have written that memory:
					// no store, and no call into the repository that was not unfolded
					if !immutableCond(x.Cond) || !immutableCond(g.If.Cond) {
						quiet := g.At <= len(cur.Instrs)
						for _, in := range cur.Instrs[minInt(g.At, len(cur.Instrs)):] {
							switch y := in.(type) {
							case *ssa.Store:
								if !isLocalAddr(y.Addr) {
									quiet = false
								}
							case *ssa.Call:
								if callee := y.Call.StaticCallee(); !unfolded[y] && (callee == nil || e.w.IsRepoFunc(callee)) {
									quiet = false
								}
							case *ssa.Defer, *ssa.Go, *ssa.Send:
								quiet = false
							}
						}
						if !quiet {
							continue
						}
					}
					gs := g.String()
					if gs == cs {
						decided = 0
					} else if gs == ncs {
						decided = 1
					}
				}
				if decided >= 0 {
					walkFrom(c, b.Succs[decided], b, 0)
					return
				}
				nc := len(cur.Conds)
				for k := 0; k < 2; k++ {
					cur.Conds = append(cur.Conds[:nc], Guard{Cond: cond, Pos: k == 0, If: x, At: len(cur.Instrs)})
					walkFrom(c, b.Succs[k], b, 0)
				}
				return
			}
		}
	}
	walkFrom(&ctx{fn: fn, onPath: map[*ssa.BasicBlock]bool{}}, fn.Blocks[0], nil, 0)
	return
}

// sameTypeHelper accepts unexported functions of fn's package (methods on any receiver included) as unfoldable helpers.
func unexportedHelperOf(fn *ssa.Function) func(*ssa.Function) bool {
	return func(callee *ssa.Function) bool {
		return callee.Pkg != nil && callee.Pkg == fn.Pkg && !ast.IsExported(callee.Name()) && callee.Synthetic == ""
	}
}

// sameReceiverHelperOf accepts the unexported, loop-free methods on fn's own receiver type (what "extract method"
// produces).
func sameReceiverHelperOf(fn *ssa.Function) func(*ssa.Function) bool {
	rv := fn.Signature.Recv()
	return func(callee *ssa.Function) bool {
		if rv == nil || callee.Signature.Recv() == nil || ast.IsExported(callee.Name()) || callee.Synthetic != "" || hasLoop(callee) {
			return false
		}
		return types.Identical(callee.Signature.Recv().Type(), rv.Type())
	}
}

// immutableCond: the condition compares only constants, parameters and results of calls (values that cannot change
// between two evaluations), not loads from memory.
func immutableCond(v ssa.Value) bool {
	var ok func(v ssa.Value, d int) bool
	ok = func(v ssa.Value, d int) bool {
		if d > 4 {
			return false
		}
		switch x := v.(type) {
		case *ssa.Const, *ssa.Parameter, *ssa.Call:
			return true
		case *ssa.Extract:
			return ok(x.Tuple, d+1)
		case *ssa.BinOp:
			return ok(x.X, d+1) && ok(x.Y, d+1)
		case *ssa.UnOp:
			if x.Op == token.NOT {
				return ok(x.X, d+1)
			}
			return false
		case *ssa.ChangeInterface:
			return ok(x.X, d+1)
		case *ssa.MakeInterface:
			return ok(x.X, d+1)
		case *ssa.TypeAssert:
			return ok(x.X, d+1)
		}
		return false
	}
	return ok(v, 0)
}

// cellEscapes: the address of the local is used for anything but loads and stores (handed to a call, captured, ...).
func cellEscapes(a *ssa.Alloc) bool {
	refs := a.Referrers()
	if refs == nil {
		return false
	}
	for _, r := range *refs {
		switch x := r.(type) {
		case *ssa.Store:
			if x.Val == ssa.Value(a) {
				return true
			}
		case *ssa.UnOp, *ssa.DebugRef:
		default:
			return true
		}
	}
	return false
}

// structLiteral: a local of struct type that is only ever filled field by field (each field stored at most once, no
// whole-value store, its address and its fields' addresses handed to nobody) and then read as a whole - a composite
// literal T{f: v, ...}. The term lists the fields' values in declaration order (zero values for omitted fields).
func (e *termEnv) structLiteral(a *ssa.Alloc) *Term {
	pt, ok := a.Type().(*types.Pointer)
	if !ok {
		return nil
	}
	st, ok := pt.Elem().Underlying().(*types.Struct)
	if !ok || a.Referrers() == nil {
		return nil
	}
	vals := make([]ssa.Value, st.NumFields())
	for _, r := range *a.Referrers() {
		switch x := r.(type) {
		case *ssa.FieldAddr:
			if x.Referrers() == nil {
				return nil
			}
			for _, fr := range *x.Referrers() {
				switch y := fr.(type) {
				case *ssa.Store:
					if y.Addr != ssa.Value(x) || vals[x.Field] != nil {
						return nil
					}
					vals[x.Field] = y.Val
				case *ssa.UnOp, *ssa.DebugRef:
				default:
					return nil
				}
			}
		case *ssa.UnOp, *ssa.DebugRef:
		default:
			return nil
		}
	}
	args := make([]*Term, st.NumFields())
	for i := range args {
		if vals[i] != nil {
			args[i] = e.termOf(vals[i])
		} else {
			args[i] = zeroTerm(st.Field(i).Type())
		}
	}
	return mk("struct", typeShort(pt.Elem()), args...)
}
