package main

import (
	"fmt"
	"go/ast"
	"go/types"
	"sort"
	"strings"

	"golang.org/x/tools/go/ssa"
)

func init() {
	register("C05", propC05)
	register("C06", propC06)
}

func propC06(w *World, r *Report) {
	r.Explanation = "Decided clause: for the ThrottledRecorder driven by any protocol-conforming client (start only when closed, write only when open; what C12 shows MotionProcessor to be) and any placement of wrapped start/write/stop failures: (X1) the wrapped recorder sees a well-formed start/write/stop language and the throttler's recording flag is perfectly correlated with 'wrapped file open'; (X2) every wrapped StartRecording (also the mid-trigger restart) is reached only on the true edge of Available() >= minRecordingLength with minRecordingLength = minSeconds*FPS; (X3) event calculus: never two events per call; a suppressed non-failing start emits exactly one; a forwarded start emits none; a write entered while not recording emits none; an emitting write leaves the flag clear and has stopped the wrapped recorder; (X4) pass-through: wrapped Start/Write receive the client's arguments (for the restart: the fields last stored from the client's Start arguments, un-swapped), Stop forwards iff recording. Rule: typestate fix-point + provenance normal forms."
	r.RuleText = "obligation per (rule, construct)"
	r.Assumptions = []string{"assume/guarantee: the client conforms to the recorder protocol (guaranteed by C12 for MotionProcessor)",
		"within one call no time runs backwards: after Available() >= min (> 0) the next TakeAvailable(1) succeeds (the property presumes refill > 0)",
		"that the budget suffices in a given schedule is numeric and not decided"}
	runs, err := getThrottleRuns(w)
	if err != nil {
		if strings.HasPrefix(err.Error(), "VIOLATION: ") {
			r.Fail("X2", "the throttler's budget is a ratelimit bucket with the stated rate and capacity", "-", strings.TrimPrefix(err.Error(), "VIOLATION: "), "")
		} else {
			r.Unknown("roles", "throttle.ThrottledRecorder", "-", "role resolution failed: "+err.Error())
		}
		return
	}
	run := runs.fault
	c := run.C
	reportRun(r, run, map[string]string{"Y1": "X1", "Y2": "X1", "nil-sink": "X1"}, "G3")
	failed := map[string]bool{}
	for _, v := range run.Viol {
		failed[v.Pos] = true
	}
	counts := map[string]int{}
	for _, ev := range run.sortedEvents() {
		if !strings.HasPrefix(ev.Kind, "sink:") {
			continue
		}
		m := strings.TrimPrefix(ev.Kind, "sink:")
		counts[m]++
		if !failed[w.InstrPos(ev.Instr)] {
			r.Pass("X1", "wrapped "+m+" at "+callOrdinal(ev.Instr, m), w.InstrPos(ev.Instr), fmt.Sprintf("protocol respected in all %d contexts", len(ev.Ctxs)))
		}
	}
	for _, m := range []string{"StartRecording", "WriteFrame", "StopRecording"} {
		r.Check(counts[m] >= 1, "G4", "wrapped "+m+" has a call site", "-", fmt.Sprint(counts[m]))
	}
	inv := inferSinkInvariant(run)
	if inv[0].pred == "" {
		r.Fail("X1", "recording flag <=> wrapped file open", "-", "no flag of the throttler is perfectly correlated with the wrapped recorder's state", inv[0].counter)
	} else {
		r.Pass("X1", "recording flag <=> wrapped file open", "-", "inferred invariant at all "+fmt.Sprint(len(run.Reach))+" quiescent states: "+inv[0].pred+" <=> wrapped open")
	}
	r.Extra["reachable_states"] = len(run.Reach)
	r.Extra["interpreter_steps"] = run.Steps
	var qs []string
	for _, q := range run.Reach {
		qs = append(qs, run.prettyQ(q))
	}
	sort.Strings(qs)
	r.Extra["quiescent_states"] = qs
	// X2
	starts := eventsOfKind(run, "sink:StartRecording", 0)
	for _, ev := range starts {
		okc, bad, _, n := allCtx([]*Event{ev}, func(cx *Ctx) bool { return cx.Ghosts["availOK"] == 1 })
		construct := "wrapped StartRecording at " + callOrdinal(ev.Instr, "StartRecording") + " only after Available() >= minRecordingLength"
		if okc {
			r.Pass("X2", construct, w.InstrPos(ev.Instr), fmt.Sprintf("%d contexts", n))
		} else {
			r.Fail("X2", construct, w.InstrPos(ev.Instr), "a file is (re)started without a full minimum-length clip of budget: "+describeCtx(bad), bad.Trace)
		}
	}
	e := newTermEnv(w)
	e.valueHelpers = true // the constructor may compute its frame numbers in an extracted helper
	ci := e.useCtor(c.T, c.Ctor)
	var limName string
	for _, ev := range run.sortedEvents() {
		if strings.HasPrefix(ev.Kind, "dec:") && strings.Contains(ev.Kind, "call:Available") {
			cl, _ := parseCmpLabel(strings.TrimPrefix(ev.Kind, "dec:"))
			for _, x := range []string{cl.X, cl.Y} {
				if strings.HasPrefix(x, "f:") {
					limName = strings.TrimPrefix(x, "f:")
				}
			}
		}
	}
	if fi := fieldIndex(c.St, limName); fi >= 0 && ci.Stores[fi] != nil && !ci.Mutable[fi] {
		t := ci.Stores[fi].String()
		want := tmul(tleaf(leafFPS), tleaf("param:int")).String()
		r.Check(t == want, "X2", "minRecordingLength = minSeconds * FPS", "-", t+" (want "+want+")")
	} else {
		r.Fail("X2", "minRecordingLength = minSeconds * FPS", "-", "the limit compared with Available() is not an immutable field set by the constructor", "")
	}
	// X3
	exits := map[string][]*Ctx{}
	for _, ev := range run.sortedEvents() {
		if ev.Kind == "exit" {
			exits[ev.Entry] = append(exits[ev.Entry], ev.Ctxs...)
		}
	}
	rec := c.fieldName(runs.model.recFld)
	type rule struct {
		name  string
		entry string
		pred  func(cx *Ctx) (applies, ok bool)
	}
	rules := []rule{
		{"never two 'throttled' events in one call", "", func(cx *Ctx) (bool, bool) { return true, cx.Ghosts["events"] <= 1 }},
		{"StartRecording: suppressed non-failing start emits exactly one event", "StartRecording", func(cx *Ctx) (bool, bool) {
			return cx.Ghosts["start:wrapped"] == 0 && cx.Ghosts["opened:wrapped"] == 0 && cx.Ghosts["ret0:nonnil"] == 0, cx.Ghosts["events"] == 1
		}},
		{"StartRecording: a start that fails in the wrapped recorder is not a throttle event", "StartRecording", func(cx *Ctx) (bool, bool) {
			return cx.Ghosts["ret0:nonnil"] == 1, cx.Ghosts["events"] == 0
		}},
		{"StartRecording: forwarded start emits none", "StartRecording", func(cx *Ctx) (bool, bool) {
			return cx.Ghosts["opened:wrapped"] == 1, cx.Ghosts["events"] == 0
		}},
		{"WriteFrame entered while not recording emits none", "WriteFrame", func(cx *Ctx) (bool, bool) {
			return cx.Ghosts["recAtEntry"] == 0, cx.Ghosts["events"] == 0
		}},
		{"an emitting WriteFrame leaves recording clear and the wrapped file closed", "WriteFrame", func(cx *Ctx) (bool, bool) {
			return cx.Ghosts["events"] >= 1, cx.Fields[rec] == "false" && cx.Sinks[0] == 0
		}},
		{"a WriteFrame that cuts the recording emits exactly one event", "WriteFrame", func(cx *Ctx) (bool, bool) {
			return cx.Ghosts["recAtEntry"] == 1 && cx.Fields[rec] == "false" && cx.Ghosts["ret0:nonnil"] == 0, cx.Ghosts["events"] == 1
		}},
	}
	for _, ru := range rules {
		n := 0
		var bad *Ctx
		var ents []string
		for en := range exits {
			ents = append(ents, en)
		}
		sort.Strings(ents)
		for _, en := range ents {
			if ru.entry != "" && en != ru.entry {
				continue
			}
			for _, cx := range exits[en] {
				applies, ok := ru.pred(cx)
				if !applies {
					continue
				}
				n++
				if !ok && bad == nil {
					bad = cx
				}
			}
		}
		if bad != nil {
			r.Fail("X3", ru.name, "-", describeCtx(bad), bad.Trace)
		} else {
			r.Check(n > 0, "X3", ru.name, "-", fmt.Sprintf("%d exit contexts", n))
		}
	}
	checkThrottleStartFailureSurfaces(w, r, runs, "X3")
	checkThrottlePassThrough(w, r, runs, "X4")
	checkSettingsImmutable(w, r, "X2", "RecorderConfig:MinSecs", "ThermalRecorder:MinSecs", "Config:Recorder") // min-secs as configured
	checkBucketConstruction(w, r, c, "X2")                                                                     // Available() >= minimum clip presumes the continuously refilled bucket
}

// checkThrottleStartFailureSurfaces: whenever the wrapped recorder refuses to start a file inside a throttler call, that
// call returns a non-nil error - the client (MotionProcessor) must learn that no file exists, otherwise it believes it is
// recording and the throttler re-opens the file later on a frame that passed none of the start checks.
func checkThrottleStartFailureSurfaces(w *World, r *Report, runs *throttleRuns, rule string) {
	n := 0
	var bad *Ctx
	badEntry := ""
	for _, ev := range runs.fault.sortedEvents() {
		if ev.Kind != "exit" {
			continue
		}
		for _, cx := range ev.Ctxs {
			if cx.Ghosts["startfail:wrapped"] != 1 {
				continue
			}
			n++
			if cx.Ghosts["ret0:nonnil"] != 1 && bad == nil {
				bad, badEntry = cx, ev.Entry
			}
		}
	}
	name := "a start refused by the wrapped recorder is returned to the throttler's caller as an error"
	if bad != nil {
		r.Fail(rule, name, "-", "throttle."+badEntry+" returns nil although the wrapped StartRecording failed: "+describeCtx(bad), bad.Trace)
	} else {
		r.Check(n > 0, rule, name, "-", fmt.Sprintf("%d exit contexts with a failed wrapped start", n))
	}
}

// X4: provenance of the arguments handed to the wrapped recorder, decided on the fix-point with provenance
// tokens: the client's StartRecording arguments are tagged (background, threshold), what an earlier
// StartRecording call stored in the throttler's fields turns ".stale" when a new StartRecording call begins, the
// WriteFrame argument is tagged (frame). Independent of how the code moves the values around.
func checkThrottlePassThrough(w *World, r *Report, runs *throttleRuns, rule string) {
	run := runs.fault
	nStart, nWrite := 0, 0
	for _, ev := range run.sortedEvents() {
		if !strings.HasPrefix(ev.Kind, "sink:") {
			continue
		}
		call := ev.Instr.(*ssa.Call)
		m := strings.TrimPrefix(ev.Kind, "sink:")
		trace := ""
		if len(ev.Ctxs) > 0 {
			trace = ev.Ctxs[0].Trace
		}
		switch m {
		case "StartRecording":
			nStart++
			var ens []string
			for en := range ev.Entries {
				ens = append(ens, en)
			}
			sort.Strings(ens)
			construct := fmt.Sprintf("wrapped StartRecording at %s (client calls %s) receives the background and threshold of the current trigger", callOrdinal(call, "StartRecording"), strings.Join(ens, "+"))
			if ev.Arg == "background,threshold" {
				r.Pass(rule, construct, w.InstrPos(call), fmt.Sprintf("%d contexts", len(ev.Ctxs)))
			} else {
				r.Fail(rule, construct, w.InstrPos(call), "the file is (re)started with arguments ["+ev.Arg+"] instead of the trigger's [background,threshold] ('?' = not the client's value, '.stale' = remembered from an earlier trigger): the stored background frame / threshold would not be the ones in force at the trigger", trace)
			}
		case "WriteFrame":
			nWrite++
			construct := fmt.Sprintf("wrapped WriteFrame at %s receives the client's frame", callOrdinal(call, "WriteFrame"))
			if ev.Arg == "frame" {
				r.Pass(rule, construct, w.InstrPos(call), fmt.Sprintf("%d contexts", len(ev.Ctxs)))
			} else {
				r.Fail(rule, construct, w.InstrPos(call), "forwarded frame is ["+ev.Arg+"]", trace)
			}
		case "StopRecording":
			okc, bad, _, n := allCtx([]*Event{ev}, func(cx *Ctx) bool { return cx.Sinks[0] == 1 })
			if okc {
				r.Pass(rule, "wrapped StopRecording forwarded only while a wrapped file is open", w.InstrPos(call), fmt.Sprintf("%d contexts", n))
			} else {
				r.Fail(rule, "wrapped StopRecording forwarded only while a wrapped file is open", w.InstrPos(call), describeCtx(bad), bad.Trace)
			}
		}
	}
	// both a forwarded start (from StartRecording) and a mid-trigger restart (from WriteFrame) must exist
	entries := map[string]bool{}
	for _, ev := range run.sortedEvents() {
		if ev.Kind == "sink:StartRecording" {
			for en := range ev.Entries {
				entries[en] = true
			}
		}
	}
	r.Check(entries["StartRecording"] && entries["WriteFrame"], rule, "files are started from StartRecording and re-started mid-trigger from WriteFrame", "-", fmt.Sprint(entries))
	r.Check(nStart >= 1 && nWrite >= 1, "G4", "wrapped start/write events observed", "-", fmt.Sprintf("%d/%d", nStart, nWrite))
	// Stop forwards whenever recording: exits of StopRecording entered with recording=true have stopped the wrapped recorder
	var bad *Ctx
	n := 0
	for _, cx := range exitCtxs(runs.fault, "StopRecording") {
		if cx.Ghosts["recAtEntry"] == 1 {
			n++
			if cx.Ghosts["stop:wrapped"] == 0 && cx.Sinks[0] == 1 && bad == nil {
				bad = cx
			}
		}
	}
	if bad != nil {
		r.Fail(rule, "StopRecording while recording closes the wrapped file", "-", describeCtx(bad), bad.Trace)
	} else {
		r.Check(n > 0, rule, "StopRecording while recording closes the wrapped file", "-", fmt.Sprintf("%d exit contexts", n))
	}
}

// ---------------------------------------------------------------------------------------

func propC05(w *World, r *Report) {
	r.Explanation = "Decided clause (necessary structure of the bound, not the inequality): (T1) every frame forwarded to the wrapped recorder is dominated, in every reachable state, by a successful TakeAvailable(1) on the throttler's bucket — one token per frame — and nothing else in the program takes or adds tokens; (T2) the bucket is built with capacity int64(BucketSize.Seconds())*FPS and rate (minSeconds*FPS)/MinRefill.Seconds(); (T3) when Throttler.Activate is set, handleConn hands NewMotionProcessor a ThrottledRecorder built over the file recorder with minSeconds = MinSecs+PreviewSecs, and the bare file recorder is not the motion sink on that edge; (T4) Activate/BucketSize/MinRefill come from the thermal-throttler config section. Rule: typestate fix-point decisions + normal forms + who-may-call scan + guards in handleConn. Also (T1) the forwarded frame is the first of its call: one token pays for one frame."
	r.RuleText = "obligation per (rule, construct)"
	r.Assumptions = []string{"the inequality itself (juju/ratelimit arithmetic, clock, quantisation) is library/numeric and not decided", "go-config's ThermalThrottler field tags map the TOML keys (dependency)"}
	runs, err := getThrottleRuns(w)
	if err != nil {
		if strings.HasPrefix(err.Error(), "VIOLATION: ") {
			r.Fail("T2", "the throttler's budget is a ratelimit bucket with the stated rate and capacity", "-", strings.TrimPrefix(err.Error(), "VIOLATION: "), "")
		} else {
			r.Unknown("roles", "throttle.ThrottledRecorder", "-", "role resolution failed: "+err.Error())
		}
		return
	}
	run := runs.fault
	c := run.C
	g3(r, run)
	// T1
	writes := eventsOfKind(run, "sink:WriteFrame", 0)
	for _, ev := range writes {
		okc, bad, _, n := allCtx([]*Event{ev}, func(cx *Ctx) bool {
			if cx.Ghosts["takes"] != 1 {
				return false
			}
			// one token pays for one frame: this is the first frame handed on in this call (a write repeated after an
			// error stores the frame twice for one token - the buffered writer's error does not mean nothing was stored)
			if cx.Ghosts["wn:"+c.RoleNames[0]] != 1 {
				return false
			}
			// the take succeeded: either decided by a comparison with 0 or known positive
			for l, out := range cx.Dec {
				cl, ok := parseCmpLabel(l)
				if ok && (cl.X == "call:TakeAvailable" || cl.Y == "call:TakeAvailable") {
					rel := relationOnCall(cl, "call:TakeAvailable", out)
					return rel == ">" && (cl.X == "c:0" || cl.Y == "c:0")
				}
			}
			return true // known positive by the Available() test (same call)
		})
		construct := "wrapped WriteFrame at " + callOrdinal(ev.Instr, "WriteFrame") + " only after exactly one successful TakeAvailable"
		if okc {
			r.Pass("T1", construct, w.InstrPos(ev.Instr), fmt.Sprintf("%d contexts", n))
		} else {
			r.Fail("T1", construct, w.InstrPos(ev.Instr), "a frame reaches storage without having taken exactly one token: "+describeCtx(bad), bad.Trace)
		}
	}
	r.Check(len(writes) >= 1, "G4", "wrapped WriteFrame has a call site", "-", fmt.Sprint(len(writes)))
	// one token per take; who may touch the bucket
	nTake := 0
	for _, fn := range w.RepoFuncs() {
		for _, b := range fn.Blocks {
			for _, in := range b.Instrs {
				ci, ok := in.(ssa.CallInstruction)
				if !ok {
					continue
				}
				callee := ci.Common().StaticCallee()
				mname, countArg := "", 1
				switch {
				case callee != nil && callee.Signature.Recv() != nil && typeIs(callee.Signature.Recv().Type(), "github.com/juju/ratelimit", "Bucket"):
					mname = callee.Name()
				case ci.Common().IsInvoke() && bucketIfaces(w)[ci.Common().Value.Type().String()]:
					// the bucket behind an interface of the repository's own
					mname, countArg = ci.Common().Method.Name(), 0
				default:
					continue
				}
				switch mname {
				case "Available", "Capacity", "Rate":
					r.Pass("T1", "bucket observer "+mname+" in "+fn.Name(), w.InstrPos(in), "does not change the budget")
				case "TakeAvailable":
					nTake++
					arg := newTermEnv(w).termOf(ci.Common().Args[countArg]).String()
					inComp := fn.Signature.Recv() != nil && isPtrTo(fn.Signature.Recv().Type(), c.T)
					r.Check(arg == "1" && inComp, "T1", "TakeAvailable takes exactly one token, inside the throttler: "+fn.Name(), w.InstrPos(in), "count = "+arg)
				default:
					r.Fail("T1", "bucket mutator "+mname+" in "+fn.Name(), w.InstrPos(in), "tokens are taken/waited for outside the per-frame TakeAvailable(1)", "")
				}
			}
		}
	}
	r.Check(nTake == 1, "T1", "exactly one token-taking site in the program", "-", fmt.Sprint(nTake))
	checkBucketConstruction(w, r, c, "T2")
	// the production constructor hands the bucket a clock that is the wall clock
	nClock := 0
	for _, fn := range w.funcsInPkg("throttle") {
		for _, b := range fn.Blocks {
			for _, in := range b.Instrs {
				call, ok := in.(*ssa.Call)
				if !ok || call.Call.StaticCallee() != c.Ctor || fn == c.Ctor {
					continue
				}
				for _, a := range call.Call.Args {
					mi, ok := a.(*ssa.MakeInterface)
					if !ok || !strings.HasSuffix(mi.Type().String(), "ratelimit.Clock") {
						continue
					}
					nClock++
					ct := mi.X.Type()
					if p, ok := ct.(*types.Pointer); ok {
						ct = p.Elem()
					}
					okNow := false
					got := ""
					for _, T := range []types.Type{ct, types.NewPointer(ct)} {
						var now *ssa.Function
						ms := w.Prog.MethodSets.MethodSet(T)
						for i := 0; i < ms.Len(); i++ {
							if ms.At(i).Obj().Name() == "Now" {
								now = w.Prog.MethodValue(ms.At(i))
							}
						}
						if now == nil || now.Synthetic != "" || len(now.Blocks) == 0 {
							continue
						}
						for _, b := range now.Blocks {
							if ret, ok := b.Instrs[len(b.Instrs)-1].(*ssa.Return); ok && len(ret.Results) == 1 {
								got = newTermEnv(w).termOf(ret.Results[0]).String()
								okNow = got == "time.Now()"
							}
						}
					}
					_ = got
					r.Check(okNow, "T2", fn.Name()+": the bucket's clock is the wall clock (Now() = time.Now())", w.InstrPos(call), typeShort(mi.X.Type()))
				}
			}
		}
	}
	r.Check(nClock >= 1, "G4", "production constructor passes a clock", "-", fmt.Sprint(nClock))
	checkThrottleWiring(w, r)
	checkSettingsImmutable(w, r, "T2", "ThermalThrottler", "RecorderConfig:MinSecs", "ThermalRecorder:MinSecs", "Config:Throttler|Recorder") // bucket-size, min-refill and min-secs as configured
}

func relationOnCall(cl cmpLabel, operand string, outcome int8) string {
	op := cl.Op
	if cl.Y == operand {
		op = map[string]string{"<": ">", ">": "<", "<=": ">=", ">=": "<=", "==": "==", "!=": "!="}[op]
	}
	if outcome == 0 {
		op = map[string]string{"<": ">=", ">": "<=", "<=": ">", ">=": "<", "==": "!=", "!=": "=="}[op]
	}
	return op
}

// T3 / T4: wiring in handleConn and config provenance.
func checkThrottleWiring(w *World, r *Report) {
	checkThrottleWiringAs(w, r, "T3", true)
}

// runsOncePerConnection: the instruction executes at most once per invocation of the connection handler's set-up
// function: it is not in a loop, and neither is any call on the (single-call-site) chain from the set-up function to it.
func runsOncePerConnection(w *World, setup *ssa.Function, site ssa.Instruction, depth int) (bool, string) {
	if inLoop(site.Block()) {
		return false, "inside a loop of " + site.Parent().Name()
	}
	fn := site.Parent()
	if fn == setup {
		return true, ""
	}
	if depth > 3 {
		return false, "call chain too deep"
	}
	var sites []ssa.Instruction
	for _, c := range w.callersOf(fn) {
		for _, b := range c.Blocks {
			for _, in := range b.Instrs {
				if ci, ok := in.(ssa.CallInstruction); ok && ci.Common().StaticCallee() == fn {
					sites = append(sites, in)
				}
			}
		}
	}
	if len(sites) != 1 {
		return false, fmt.Sprintf("%s is called from %d sites", fn.Name(), len(sites))
	}
	return runsOncePerConnection(w, setup, sites[0], depth+1)
}

func checkThrottleWiringAs(w *World, r *Report, rule string, withConfig bool) {
	runs, err := getMotionRuns(w)
	if err != nil {
		r.Unknown(rule, "wiring", "-", err.Error())
		return
	}
	// one throttler - one token bucket - per connection: a second one built later (on a camera restart marker, per
	// recording, ...) starts with a full bucket, and the frames stored over the connection are no longer bounded by
	// one bucket plus its refill
	if ci := analyseHandleConn(w); ci.err == nil {
		nb := 0
		for _, fn := range w.RepoFuncs() {
			if fn.Pkg != ci.setup.Pkg {
				continue
			}
			for _, b := range fn.Blocks {
				for _, in := range b.Instrs {
					if c, ok := in.(*ssa.Call); ok && c.Call.StaticCallee() != nil && strings.HasPrefix(c.Call.StaticCallee().Name(), "NewThrottledRecorder") {
						nb++
						ok1, why := runsOncePerConnection(w, ci.setup, in, 0)
						r.Check(ok1, rule, "the throttled recorder (and its token bucket) is built once per connection", w.InstrPos(in), why)
					}
				}
			}
		}
		r.Check(nb >= 1, rule, "the daemon builds a throttled recorder", "-", fmt.Sprint(nb))
	} else {
		r.Unknown(rule, "connection handler", "-", ci.err.Error())
	}
	c := runs.model.C
	e := newTermEnv(w)
	thr := w.NamedType("throttle", "ThrottledRecorder")
	cfr := w.NamedType("cmd/thermal-recorder", "CPTVFileRecorder")
	n := 0
	for _, st := range runs.sites {
		if st.Fn.Pkg == nil || st.Fn.Pkg.Pkg.Path() != modPath+"/cmd/thermal-recorder" || st.Present[roleTest] != 1 {
			continue
		}
		n++
		var motionArg ssa.Value
		for pi, role := range c.CtorSink {
			if role == roleMotion {
				motionArg = st.Call.Call.Args[pi]
			}
		}
		t := e.termOf(motionArg)
		pos := w.InstrPos(st.Call)
		// expected: select(Activate, NewThrottledRecorder(file recorder, &conf.Throttler, MinSecs+PreviewSecs, ...), file recorder)
		if t.Op != "select" {
			r.Fail(rule, "motion sink is the throttled recorder iff Throttler.Activate", pos, "the motion sink argument does not depend on Throttler.Activate: "+t.String(), "")
			continue
		}
		cond, a, b := t.Args[0], t.Args[1], t.Args[2]
		r.Check(strings.HasPrefix(cond.String(), "config.ThermalThrottler.Activate@"), rule, "the choice is made on Throttler.Activate", pos, cond.String())
		r.Check(a.Op == "call" && strings.HasSuffix(a.Name, "throttle.NewThrottledRecorder"), rule, "Activate => the motion sink is a ThrottledRecorder", pos, a.String())
		if a.Op == "call" && len(a.Args) >= 3 {
			r.Check(a.Args[0].String() == b.String(), rule, "the throttler wraps the same file recorder that is used when not activated", pos, a.Args[0].String()+" vs "+b.String())
			wantMin := tadd(tleaf("recorder.RecorderConfig.MinSecs@main.Config.Recorder@param:main.Config"), tleaf("recorder.RecorderConfig.PreviewSecs@main.Config.Recorder@param:main.Config")).String()
			// the arguments are told apart by what they are, not by their position (the constructor's parameter order is
			// the package's own business): the only integer-valued argument is the minimum length, the only
			// configuration-valued one the throttler section
			gotMin, gotCfg := "<no integer argument>", "<no configuration argument>"
			for _, x := range a.Args[1:] {
				xs := x.String()
				switch {
				case strings.Contains(xs, "main.Config.Throttler@") || strings.Contains(xs, "ThermalThrottler"):
					gotCfg = xs
				case strings.Contains(xs, "RecorderConfig.") || x.Op == "const" || x.Op == "add" || x.Op == "mul" || x.Op == "poly":
					gotMin = xs
				}
			}
			r.Check(gotMin == wantMin, rule, "minimum recording length = MinSecs + PreviewSecs", pos, gotMin+" (want "+wantMin+")")
			r.Check(strings.Contains(gotCfg, "main.Config.Throttler@param:main.Config"), rule, "throttler configured from Config.Throttler", pos, gotCfg)
		}
		dyn := dynamicTypes(motionArg, 0)
		for _, d := range dyn {
			r.Check((thr != nil && isPtrTo(d, thr)) || (cfr != nil && isPtrTo(d, cfr)), rule, "motion sink dynamic type "+typeShort(d), pos, "")
		}
	}
	r.Check(n >= 1, "G4", "daemon wiring site found", "-", fmt.Sprint(n))
	if !withConfig {
		return
	}
	// T4: throttle.NewConfig unmarshals the thermal-throttler section over the defaults and returns it; ParseConfig stores it
	nc := w.Func("throttle", "NewConfig")
	if nc == nil {
		r.Unknown("T4", "throttle.NewConfig", "-", "not found")
		return
	}
	okU := false
	for _, b := range nc.Blocks {
		for _, in := range b.Instrs {
			if call, ok := in.(*ssa.Call); ok {
				if callee := call.Call.StaticCallee(); callee != nil && callee.Name() == "Unmarshal" {
					key := e.termOf(call.Call.Args[1]).String()
					okU = key == `"thermal-throttler"`
					r.Check(okU, "T4", "throttler settings read from the thermal-throttler section", w.InstrPos(call), key)
				}
				if callee := call.Call.StaticCallee(); callee != nil && callee.Name() == "DefaultThermalThrottler" {
					r.Pass("T4", "defaults from go-config DefaultThermalThrottler", w.InstrPos(call), "")
				}
			}
		}
	}
	pc := w.Func("cmd/thermal-recorder", "ParseConfig")
	if pc != nil {
		for _, b := range pc.Blocks {
			for _, in := range b.Instrs {
				if st, ok := in.(*ssa.Store); ok {
					if fa, ok := st.Addr.(*ssa.FieldAddr); ok && structOf(fa.X.Type()) != nil && structOf(fa.X.Type()).Field(fa.Field).Name() == "Throttler" {
						t := e.termOf(st.Val).String()
						r.Check(strings.Contains(t, "throttle.NewConfig"), "T4", "Config.Throttler <- throttle.NewConfig", w.InstrPos(st), t)
					}
				}
			}
		}
	}
	r.Floor("T4", 3)
}

// checkBucketConstruction: the token bucket is a continuous-rate bucket: built with an explicit rate
// (minSeconds*FPS / MinRefill.Seconds()) and the injected clock, capacity int64(BucketSize.Seconds())*FPS - in the
// constructor or an unexported helper it calls. (A quantum bucket with the same average hands the budget out in lumps:
// Available() then no longer says how much has been earned back.)
func checkBucketConstruction(w *World, r *Report, c *Component, rule string) {
	e := newTermEnv(w)
	e.valueHelpers = true
	found := false
	// the bucket is built in the constructor, or in an unexported helper of the package the constructor calls
	// (its parameters are then bound to the constructor's arguments)
	type site struct {
		blocks []*ssa.BasicBlock
		env    *termEnv
	}
	sites := []site{{c.Ctor.Blocks, e}}
	for _, b := range c.Ctor.Blocks {
		for _, in := range b.Instrs {
			if hc, ok := in.(*ssa.Call); ok {
				if callee := hc.Call.StaticCallee(); callee != nil && callee.Pkg == c.Ctor.Pkg && len(callee.Blocks) > 0 && !ast.IsExported(callee.Name()) {
					ce := e.child()
					for pi, p := range callee.Params {
						if pi < len(hc.Call.Args) {
							ce.bind[p] = e.termOf(hc.Call.Args[pi])
						}
					}
					sites = append(sites, site{callee.Blocks, ce})
				}
			}
		}
	}
	for _, st := range sites {
		e := st.env
		for _, b := range st.blocks {
			for _, in := range b.Instrs {
				call, ok := in.(*ssa.Call)
				if !ok {
					continue
				}
				callee := call.Call.StaticCallee()
				if callee == nil || callee.Pkg == nil || callee.Pkg.Pkg.Path() != "github.com/juju/ratelimit" {
					continue
				}
				found = true
				r.Check(callee.Name() == "NewBucketWithRateAndClock", rule, "bucket built with an explicit rate and the injected clock", w.InstrPos(call), callee.Name())
				if len(call.Call.Args) >= 2 {
					rate := e.termOf(call.Call.Args[0]).String()
					capa := e.termOf(call.Call.Args[1]).String()
					wantRate := "div(" + tmul(tleaf(leafFPS), tleaf("param:int")).String() + ", time.Duration.Seconds(config.ThermalThrottler.MinRefill@param:config.ThermalThrottler))"
					wantCap := tmul(tleaf(leafFPS), mk("trunc", "", mk("call", "time.Duration.Seconds", tleaf("config.ThermalThrottler.BucketSize@param:config.ThermalThrottler")))).String()
					r.Check(rate == wantRate, rule, "refill rate = (minSeconds*FPS) / MinRefill.Seconds()", w.InstrPos(call), rate)
					r.Check(capa == wantCap, rule, "capacity = int64(BucketSize.Seconds()) * FPS", w.InstrPos(call), capa)
				}
			}
		}
	}
	r.Check(found, "G4", "bucket constructed in the constructor", "-", "")
}

// checkWrappedSinkProtocol: the motion sink of the daemon is the ThrottledRecorder; the file recorder it wraps is a sink
// too. Driven by a protocol-conforming client, over all placements of wrapped start/write/stop failures, the wrapped
// recorder sees start-only-when-closed / write-only-when-open, and the throttler's flag mirrors "wrapped file open" at
// every quiescent state (so that after any failure the next event is handled from a consistent state).
func checkWrappedSinkProtocol(w *World, r *Report, ruleProto, ruleFlag string) {
	runs, err := getThrottleRuns(w)
	if err != nil {
		r.Unknown(ruleProto, "throttle.ThrottledRecorder", "-", "role resolution failed: "+err.Error())
		return
	}
	run := runs.fault
	reportRun(r, run, map[string]string{"Y1": ruleProto, "Y2": ruleProto, "nil-sink": ruleProto}, "G3")
	n := 0
	for _, ev := range run.sortedEvents() {
		if strings.HasPrefix(ev.Kind, "sink:") {
			n++
		}
	}
	r.Check(n >= 3, ruleProto, "throttled motion sink: wrapped recorder call sites explored under all failure placements", "-", fmt.Sprint(n))
	inv := inferSinkInvariant(run)
	if inv[0].pred == "" {
		r.Fail(ruleFlag, "throttled motion sink: recording flag <=> wrapped file open", "-", "no flag of the throttler is perfectly correlated with the wrapped recorder's state (after a failed start the throttler believes a file is open: the following frames go to a recorder with no open file)", inv[0].counter)
	} else {
		r.Pass(ruleFlag, "throttled motion sink: recording flag <=> wrapped file open", "-", inv[0].pred+" <=> wrapped open")
	}
}

var bucketIfaceCache = map[*World]map[string]bool{}

// bucketIfaces: the non-empty interface types of the repository that a *ratelimit.Bucket is converted to somewhere
// (an interface extracted for the bucket); calls through them are calls on the bucket.
func bucketIfaces(w *World) map[string]bool {
	if m, ok := bucketIfaceCache[w]; ok {
		return m
	}
	m := map[string]bool{}
	for _, fn := range w.RepoFuncs() {
		for _, b := range fn.Blocks {
			for _, in := range b.Instrs {
				if mi, ok := in.(*ssa.MakeInterface); ok && typeIs(mi.X.Type(), "github.com/juju/ratelimit", "Bucket") {
					if it, ok := mi.Type().Underlying().(*types.Interface); ok && it.NumMethods() > 0 {
						m[mi.Type().String()] = true
					}
				}
			}
		}
	}
	bucketIfaceCache[w] = m
	return m
}
