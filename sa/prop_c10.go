package main

import (
	"fmt"
	"go/token"
	"go/types"
	"sort"
	"strings"

	"golang.org/x/tools/go/ssa"
)

func init() { register("C10", propC10) }

type fileOp struct {
	Op    string // create, rename, remove, mkdir
	Args  []*Term
	Call  *ssa.Call
	Chain string
}

// collectFileOps walks the static call tree from fn (repo + go-cptv code) and records file system
// operations with their argument terms expressed over fn's own parameters/receiver.
func collectFileOps(w *World, e *termEnv, fn *ssa.Function, depth int, chain string, out *[]fileOp, seen map[*ssa.Function]int) {
	if depth > 5 || seen[fn] > 2 {
		return
	}
	seen[fn]++
	defer func() { seen[fn]-- }()
	for _, b := range fn.Blocks {
		for _, in := range b.Instrs {
			var cc *ssa.CallCommon
			var call *ssa.Call
			switch x := in.(type) {
			case *ssa.Call:
				cc, call = &x.Call, x
			case *ssa.Defer:
				cc = &x.Call
			default:
				continue
			}
			callee := cc.StaticCallee()
			if callee == nil {
				continue
			}
			name := callee.String()
			op := map[string]string{"os.Create": "create", "os.OpenFile": "create", "os.Rename": "rename", "os.Remove": "remove", "os.RemoveAll": "remove",
				"os.Mkdir": "mkdir", "os.MkdirAll": "mkdir", "os.Link": "rename", "os.Symlink": "rename", "io/ioutil.WriteFile": "create", "os.WriteFile": "create"}[name]
			if op != "" {
				var args []*Term
				for _, a := range cc.Args {
					args = append(args, e.termOf(a))
				}
				*out = append(*out, fileOp{Op: op, Args: args, Call: call, Chain: chain + " → " + name})
				continue
			}
			inScope := w.IsRepoFunc(callee) || (callee.Pkg != nil && strings.HasPrefix(callee.Pkg.Pkg.Path(), "github.com/TheCacophonyProject/go-cptv"))
			if !inScope || len(callee.Blocks) == 0 {
				continue
			}
			ce := e.child()
			for i, p := range callee.Params {
				if i < len(cc.Args) {
					ce.bind[p] = e.termOf(cc.Args[i])
				}
			}
			collectFileOps(w, ce, callee, depth+1, chain+" → "+callee.Name(), out, seen)
		}
	}
}

// checkTempNameStamp: recorders sharing a directory (motion and test recordings can start within the same second, even
// on the same frame; consecutive continuous files when frames arrive in a burst) are kept apart only by the time stamp
// in the temporary name: it must have sub-second resolution.
func checkTempNameStamp(w *World, r *Report, rule string, start *ssa.Function, ops []fileOp) {
	nLayouts := 0
	var findLayouts func(t *Term)
	findLayouts = func(t *Term) {
		if t.Op == "call" && strings.HasSuffix(t.Name, "time.Time.Format") && len(t.Args) == 2 {
			if l, ok := constString(t.Args[1]); ok {
				nLayouts++
				frac := strings.Contains(l, ".000") || strings.Contains(l, ",000") || strings.Contains(l, ".999") || strings.Contains(l, ",999")
				r.Check(frac, rule, "temporary names carry a time stamp with sub-second resolution (concurrently open recordings in one directory must not share a name)", w.Pos(start.Pos()), "layout "+fmt.Sprintf("%q", l))
			}
		}
		for _, a := range t.Args {
			findLayouts(a)
		}
	}
	for _, op := range ops {
		if op.Op == "create" && nLayouts == 0 {
			findLayouts(op.Args[0])
		}
	}
	r.Check(nLayouts >= 1, rule, "temporary names are derived from a time stamp", w.Pos(start.Pos()), fmt.Sprint(nLayouts))
}

// recorderFileOps: the file operations reachable from CPTVFileRecorder.StartRecording (name helpers inlined).
func recorderFileOps(w *World) (*ssa.Function, []fileOp) {
	pkgRel := "cmd/thermal-recorder"
	T := w.NamedType(pkgRel, "CPTVFileRecorder")
	pkg := w.Pkg(pkgRel)
	if T == nil || pkg == nil {
		return nil, nil
	}
	start := findMethod(w.Prog, T, "StartRecording")
	if start == nil {
		return nil, nil
	}
	e := newTermEnv(w)
	for _, mem := range pkg.Members {
		if fn, ok := mem.(*ssa.Function); ok && fn.Signature.Results().Len() >= 1 && len(fn.Blocks) > 0 && len(fn.Blocks) <= 4 {
			if bt, ok := fn.Signature.Results().At(0).Type().Underlying().(*types.Basic); ok && bt.Info()&types.IsString != 0 {
				e.forceInline[fn] = true
			}
		}
	}
	var ops []fileOp
	collectFileOps(w, e, start, 0, "StartRecording", &ops, map[*ssa.Function]int{})
	return start, ops
}

func propC10(w *World, r *Report) {
	r.Explanation = "Decided clause: (D1) every file created on behalf of a recording (by CPTVFileRecorder.StartRecording and, through it, by go-cptv's writer: the output file and its .tmp scratch file) has a name whose constant suffix does not end in '.cptv'; (D2) the only operation in the recorder that gives a file a '.cptv' name is the os.Rename of the stop path, whose source is the open writer's own name and whose target is that name with the constant regexp stripping '.temp', and on every path it is preceded by the writer's Close (which compresses, closes and deletes the scratch file); (D3) the recorder's writer field is set only by a fully successful start, is cleared by every stop, Stop() (connection loss) closes and removes the temporary file and is deferred right after construction; (D4) runMain runs the start-up clean-up on OutputDir before the first connection is handled and, when its error is not nil, returns it; (D5) coverage: for every creation suffix and every creation directory some glob removed by the clean-up matches it, a failing removal is returned, and nothing but a non-nil error leaves the clean-up's loops early. Rule: file-name suffix abstract domain (constant suffixes through +, Join, time.Format, Sprintf, constant regexp replacement) + dominator/ordering analysis. Also (D2, linked from C16.R1) no field of the file recorder is shared between goroutines."
	r.RuleText = "obligation per (rule, file operation / path)"
	r.Assumptions = []string{"decodability of file contents, rename atomicity and power-loss durability are not decided (the statement excludes power loss)",
		"filepath.Glob/Match semantics (standard library); the temporary name is '<timestamp>' + constant tail, the stem contains no path separator"}
	pkgRel := "cmd/thermal-recorder"
	T := w.NamedType(pkgRel, "CPTVFileRecorder")
	pkg := w.Pkg(pkgRel)
	if T == nil || pkg == nil {
		r.Unknown("roles", "CPTVFileRecorder", "-", "type not found")
		return
	}
	st := T.Underlying().(*types.Struct)
	se := &sfxEnv{w: w, globals: globalInits(w, pkg)}
	start := findMethod(w.Prog, T, "StartRecording")
	stop := findMethod(w.Prog, T, "StopRecording")
	abort := findMethod(w.Prog, T, "Stop")
	if start == nil || stop == nil || abort == nil {
		r.Unknown("roles", "CPTVFileRecorder methods", "-", "StartRecording/StopRecording/Stop not found")
		return
	}
	mkEnv := func() *termEnv {
		e := newTermEnv(w)
		// name helpers are inlined so that their constant tails are visible
		for _, mem := range pkg.Members {
			if fn, ok := mem.(*ssa.Function); ok && fn.Signature.Results().Len() >= 1 && len(fn.Blocks) > 0 && len(fn.Blocks) <= 4 {
				if bt, ok := fn.Signature.Results().At(0).Type().Underlying().(*types.Basic); ok && bt.Info()&types.IsString != 0 {
					e.forceInline[fn] = true
				}
			}
		}
		return e
	}
	// the writer field
	wfield := -1
	for i := 0; i < st.NumFields(); i++ {
		if typeIs(st.Field(i).Type(), "github.com/TheCacophonyProject/go-cptv", "FileWriter") {
			wfield = i
		}
	}
	if wfield < 0 {
		r.Unknown("roles", "CPTVFileRecorder writer field", "-", "no *cptv.FileWriter field")
		return
	}
	// ---- D1: creations
	var ops []fileOp
	e := mkEnv()
	collectFileOps(w, e, start, 0, "StartRecording", &ops, map[*ssa.Function]int{})
	type creation struct {
		suffix string
		dirRel []string
		pos    string
	}
	var creations []creation
	nCreate := 0
	for _, op := range ops {
		if op.Op != "create" {
			continue
		}
		nCreate++
		sx := se.suffixOf(op.Args[0])
		pos := "-"
		if op.Call != nil {
			pos = w.InstrPos(op.Call)
		}
		if !sx.known || len(sx.s) < 2 {
			r.Unknown("D1", "created file name via "+op.Chain, pos, "constant suffix of the file name not established: "+op.Args[0].String())
			continue
		}
		r.Check(!strings.HasSuffix(sx.s, ".cptv") && sx.s != "cptv", "D1", fmt.Sprintf("file created via %s never bears the .cptv name (suffix %q)", op.Chain, sx.s), pos, op.Args[0].String())
		creations = append(creations, creation{suffix: sx.s, pos: pos})
	}
	r.Check(nCreate >= 2, "G4", "file creations reachable from StartRecording (output file + scratch file)", "-", fmt.Sprint(nCreate))
	checkTempNameStamp(w, r, "D1", start, ops)
	// creation directories: values the output-dir field can hold, relative to Config.OutputDir
	ctor := w.ctorOf(T)
	dirRel := map[string]bool{}
	if ctor != nil {
		ce := newTermEnv(w)
		ci := ce.useCtor(T, ctor)
		for fi, t := range ci.Stores {
			if t.String() == "main.Config.OutputDir@param:main.Config" {
				dirRel[""] = true
				// other stores to that field
				for fn := range w.AllFuncs {
					if fn == ctor {
						continue
					}
					for _, b := range fn.Blocks {
						for _, in := range b.Instrs {
							if s2, ok := in.(*ssa.Store); ok {
								if fa, ok := s2.Addr.(*ssa.FieldAddr); ok && isPtrTo(fa.X.Type(), T) && fa.Field == fi {
									t2 := newTermEnv(w).termOf(s2.Val)
									rel, ok := relDir(t2, "main.CPTVFileRecorder."+st.Field(fi).Name()+"@recv:main.CPTVFileRecorder")
									if ok {
										dirRel[rel] = true
									} else {
										r.Unknown("D5", "output directory reassigned in "+fn.Name(), w.InstrPos(s2), "not a sub-folder of the previous value: "+t2.String())
									}
								}
							}
						}
					}
				}
			}
		}
	}
	// ---- D5: clean-up globs
	var cleanup, worker *ssa.Function
	var cleanupCall *ssa.Call
	hciD := analyseHandleConn(w)
	if hciD.err == nil {
		// the clean-up: the function of the recorder's package that removes every file matched by a glob; its call site
		for _, fn := range w.RepoFuncs() {
			if fn.Pkg == hciD.fn.Pkg && callsGlobAndRemoveAll(w, fn) {
				cleanup = fn
			}
		}
		worker = cleanup
		if cleanup != nil {
			// the glob-and-remove worker may be a helper run once per directory by the clean-up proper: climb to the
			// single calling function as long as that is not itself on the start-up chain above the handler
			onChain := map[*ssa.Function]bool{}
			for t, i := hciD.setup, 0; i < 4; i++ {
				cs := w.callersOf(t)
				if len(cs) != 1 {
					break
				}
				onChain[cs[0]] = true
				t = cs[0]
			}
			if cs := w.callersOf(cleanup); len(cs) == 1 && !onChain[cs[0]] && cs[0].Pkg == cleanup.Pkg && len(cs[0].Params) >= 1 && isStringType(cs[0].Params[0].Type()) && returnsErrorOf(cs[0], cleanup) {
				cleanup = cs[0]
			}
		}
		if cleanup != nil {
			for _, f := range w.RepoFuncs() {
				for _, b := range f.Blocks {
					for _, in := range b.Instrs {
						if c, ok := in.(*ssa.Call); ok && c.Call.StaticCallee() == cleanup {
							cleanupCall = c
						}
					}
				}
			}
		}
	}
	if cleanup == nil || cleanupCall == nil {
		r.Fail("D4", "start-up clean-up is called from runMain before connections are handled", "-", "no function that globs and removes files is called on the start-up path (or no connection handler call)", "")
		return
	}
	okBefore, how := runsBeforeServing(w, hciD.setup, cleanupCall, 0)
	r.Check(okBefore, "D4", "the clean-up dominates the first handleConn call (runs on every path before serving)", w.InstrPos(cleanupCall), how)
	checkCleanupOnlyAtStartup(w, r, "D4")
	argT := newTermEnv(w).termOf(cleanupCall.Call.Args[0]).String()
	r.Check(strings.HasPrefix(argT, "main.Config.OutputDir@"), "D4", "the clean-up runs on the configured output directory", w.InstrPos(cleanupCall), argT)
	// the error is tested right after the call and, when it is NOT nil, returned (polarity matters: the reverse test
	// would abort every healthy start-up and serve after a failed clean-up)
	okErr := callErrorReturned(cleanupCall)
	if okErr {
		// when the call sits in a stage function, that function's error must abort its caller as well
		stage := cleanupCall.Parent()
		onChain := map[*ssa.Function]bool{}
		for t, i := hciD.setup, 0; i < 5; i++ {
			cs := w.callersOf(t)
			if len(cs) != 1 {
				break
			}
			onChain[cs[0]] = true
			t = cs[0]
		}
		if cs := w.callersOf(stage); len(cs) == 1 && !onChain[stage] {
			if !returnsErrorOf(cs[0], stage) {
				okErr = false
			}
		}
	}
	r.Check(okErr, "D4", "a failing clean-up aborts start-up", w.InstrPos(cleanupCall), "")
	// globs and removed names in the clean-up
	ge := newTermEnv(w)
	type globT struct {
		dirRel  []string
		pattern string
		pos     string
		val     ssa.Value
	}
	var globs []globT
	// the worker's body, once per call from the clean-up proper with its parameters bound to that call's arguments
	type inst struct {
		env *termEnv
		fn  *ssa.Function
	}
	insts := []inst{{ge, cleanup}}
	if worker != cleanup {
		insts = nil
		for _, b := range cleanup.Blocks {
			for _, in := range b.Instrs {
				if c, ok := in.(*ssa.Call); ok && c.Call.StaticCallee() == worker {
					ce := ge.child()
					for i, p := range worker.Params {
						if i < len(c.Call.Args) {
							ce.bind[p] = ge.termOf(c.Call.Args[i])
						}
					}
					insts = append(insts, inst{ce, worker})
				}
			}
		}
	}
	for _, is := range insts {
		for _, b := range is.fn.Blocks {
			for _, in := range b.Instrs {
				c, ok := in.(*ssa.Call)
				if !ok || calleeName(c) != "filepath.Glob" {
					continue
				}
				t := is.env.termOf(c.Call.Args[0])
				g := globT{pos: w.InstrPos(c), val: c}
				okG := false
				if t.Op == "call" && strings.HasSuffix(t.Name, "filepath.Join") && len(t.Args) == 1 && t.Args[0].Op == "list" && len(t.Args[0].Args) == 2 {
					if p, ok := constString(t.Args[0].Args[1]); ok {
						g.pattern = p
						g.dirRel, okG = dirAlternatives(t.Args[0].Args[0], ge.termOf(cleanup.Params[0]).String())
					}
				}
				if !okG {
					r.Unknown("D5", "clean-up glob", g.pos, "glob pattern not understood: "+t.String())
					continue
				}
				globs = append(globs, g)
			}
		}
	}
	// every glob result is removed
	for _, g := range globs {
		removed := false
		for _, b := range worker.Blocks {
			for _, in := range b.Instrs {
				if c, ok := in.(*ssa.Call); ok && calleeName(c) == "os.Remove" {
					t := ge.termOf(c.Call.Args[0])
					if t.Op == "index" && len(t.Args) == 2 && t.Args[1].Op == "rangeidx" && t.Args[0].String() == t.Args[1].Args[0].String() && strings.HasPrefix(t.Args[0].String(), "#0(path/filepath.Glob(") {
						removed = true
					}
				}
				if c, ok := in.(*ssa.Call); ok {
					if pi := removesAllOfParam(w, c.Call.StaticCallee()); pi >= 0 && pi < len(c.Call.Args) && strings.HasPrefix(ge.termOf(c.Call.Args[pi]).String(), "#0(path/filepath.Glob(") && returnsErrorOf(worker, c.Call.StaticCallee()) {
						removed = true
					}
				}
			}
		}
		r.Check(removed, "D5", "every file matched by the clean-up glob "+g.pattern+" is removed", g.pos, "")
		// ... and a file that cannot be removed stops the clean-up with that error (start-up is aborted, D4): debris is
		// never silently left behind
		for _, fnx := range []*ssa.Function{worker} {
			scan := []*ssa.Function{fnx}
			for _, b := range fnx.Blocks {
				for _, in := range b.Instrs {
					if c, ok := in.(*ssa.Call); ok {
						if pi := removesAllOfParam(w, c.Call.StaticCallee()); pi >= 0 {
							scan = append(scan, c.Call.StaticCallee())
						}
					}
				}
			}
			for _, f := range scan {
				for _, b := range f.Blocks {
					for _, in := range b.Instrs {
						if c, ok := in.(*ssa.Call); ok && calleeName(c) == "os.Remove" {
							r.Check(callErrorReturned(c), "D5", "a failing removal in the clean-up is returned as its error", w.InstrPos(c), "")
						}
					}
				}
			}
		}
	}
	// nothing but a failure ends the clean-up early: a return inside one of its loops (remaining directories / files
	// not yet visited) must carry a non-nil error - start-up is then aborted (D4) instead of serving with debris left
	{
		fam := map[*ssa.Function]bool{cleanup: true, worker: true}
		for _, b := range worker.Blocks {
			for _, in := range b.Instrs {
				if c, ok := in.(*ssa.Call); ok {
					if pi := removesAllOfParam(w, c.Call.StaticCallee()); pi >= 0 {
						fam[c.Call.StaticCallee()] = true
					}
				}
			}
		}
		var fl []*ssa.Function
		for f := range fam {
			fl = append(fl, f)
		}
		sort.Slice(fl, func(i, j int) bool { return fl[i].Name() < fl[j].Name() })
		nret := 0
		for _, f := range fl {
			for _, b := range f.Blocks {
				ret, ok := b.Instrs[len(b.Instrs)-1].(*ssa.Return)
				if !ok || len(ret.Results) == 0 {
					continue
				}
				nret++
				if !loopReachable(b) {
					continue
				}
				v := ret.Results[len(ret.Results)-1]
				r.Check(provablyNonNilError(ge, b, v), "D5", "the clean-up ends before its loops are through only with a non-nil error: "+f.Name(), w.InstrPos(ret), "returned: "+ge.termOf(v).String())
			}
		}
		r.Check(nret >= 2, "G4", "returns of the clean-up found", "-", fmt.Sprint(nret))
	}
	var rels []string
	for d := range dirRel {
		rels = append(rels, d)
	}
	sort.Strings(rels)
	for _, cr := range creations {
		for _, d := range rels {
			covered := false
			for _, g := range globs {
				for _, gd := range g.dirRel {
					if gd == d && globMatches(g.pattern, "20060102.150405.000"+cr.suffix) {
						covered = true
					}
				}
			}
			dn := d
			if dn == "" {
				dn = "<output-dir>"
			} else {
				dn = "<output-dir>/" + dn
			}
			r.Check(covered, "D5", fmt.Sprintf("clean-up removes in-progress files *%s in %s", cr.suffix, dn), cr.pos, fmt.Sprintf("globs: %v", globDescr(globs)))
		}
	}
	r.Check(len(rels) >= 2, "G4", "recording directories resolved (output dir and the constant recorder's folder)", "-", fmt.Sprint(rels))
	// ---- D2: the rename
	var sops []fileOp
	se2 := mkEnv()
	collectFileOps(w, se2, stop, 0, "StopRecording", &sops, map[*ssa.Function]int{})
	nRen := 0
	for _, op := range sops {
		if op.Op != "rename" {
			continue
		}
		nRen++
		pos := w.InstrPos(op.Call)
		src, dst := op.Args[0], op.Args[1]
		// source: the open writer's own name
		wantSrc := "cptv.FileWriter.Name(main.CPTVFileRecorder." + st.Field(wfield).Name() + "@recv:main.CPTVFileRecorder)"
		r.Check(src.String() == wantSrc, "D2", "rename source is the open writer's own file name", pos, src.String())
		// the writer's name is the name it was created with: suffix of the creation
		srcS := sfx{}
		if len(creations) > 0 {
			// the FileWriter's file is created with the name passed to NewFileWriter
			for _, cr := range creations {
				if !strings.HasSuffix(cr.suffix, ".tmp") {
					srcS = sfx{s: cr.suffix, known: true}
				}
			}
		}
		dstS := sfx{}
		if dst.Op == "call" && strings.HasSuffix(dst.Name, "regexp.Regexp.ReplaceAllString") && len(dst.Args) == 3 && dst.Args[1].String() == src.String() {
			pat, okP := se.regexpOf(dst.Args[0])
			repl, okR := constString(dst.Args[2])
			if okP && okR && srcS.known {
				dstS = se.suffixOf(mk("call", "regexp.Regexp.ReplaceAllString", dst.Args[0], &Term{Op: "const", Name: fmt.Sprintf("%q", srcS.s)}, dst.Args[2]))
				_ = pat
				_ = repl
			}
		}
		r.Check(dstS.known && strings.HasSuffix(dstS.s, ".cptv") && srcS.s == dstS.s+".temp", "D2", "rename target is the temporary name with '.temp' stripped, i.e. '<stamp>.cptv'", pos, fmt.Sprintf("%q -> %q ; %s", srcS.s, dstS.s, dst.String()))
	}
	r.Check(nRen == 1, "D2", "exactly one rename in the stop path", w.Pos(stop.Pos()), fmt.Sprint(nRen))
	// Close precedes the rename on every path
	var closeCall, renCall *ssa.Call
	for _, b := range stop.Blocks {
		for _, in := range b.Instrs {
			if c, ok := in.(*ssa.Call); ok {
				switch {
				case calleeName(c) == "cptv.FileWriter.Close":
					closeCall = c
				case c.Call.StaticCallee() != nil && w.IsRepoFunc(c.Call.StaticCallee()) && reachesRename(c.Call.StaticCallee(), 0):
					renCall = c
				case calleeName(c) == "os.Rename":
					renCall = c
				}
			}
		}
	}
	okOrder := closeCall != nil && renCall != nil && (closeCall.Block() != renCall.Block() && closeCall.Block().Dominates(renCall.Block()) || closeCall.Block() == renCall.Block() && instrIndex(closeCall) < instrIndex(renCall))
	r.Check(okOrder, "D2", "the writer is closed before its file is renamed to .cptv, on every path", w.Pos(stop.Pos()), "")
	// Close completes the file: reaches Compress / CloseCompressed and deletes the scratch file
	if closeCall != nil {
		cl := closeCall.Call.StaticCallee()
		reach := reachableNames(cl, 4)
		r.Check(reach["Compress"] && reach["CloseCompressed"] && reach["DeleteTemp"], "D2", "FileWriter.Close compresses, closes the output and deletes the scratch file", w.InstrPos(closeCall), fmt.Sprint(keysOf(reach)))
	}
	// no other operation in the recorder package produces a .cptv name (dead code is ignored: only functions
	// reachable from the daemon's goroutine roots count)
	live := map[*ssa.Function]bool{}
	if la, err := newLockAnalysis(w, pkgRel); err == nil {
		for _, fs := range la.Funcs {
			for f := range fs {
				live[f] = true
			}
		}
	}
	n := 0
	for _, fn := range w.RepoFuncs() {
		if fn.Pkg != pkg || (len(live) > 0 && !live[fn]) {
			continue
		}
		for _, b := range fn.Blocks {
			for _, in := range b.Instrs {
				c, ok := in.(*ssa.Call)
				if !ok {
					continue
				}
				switch calleeName(c) {
				case "os.Rename", "os.Create", "os.OpenFile", "os.Link", "os.Symlink", "ioutil.WriteFile", "os.WriteFile":
					n++
					inStop := fn == stop || (reachableFrom(stop, fn, 3) && onlyCalledFrom(w, fn, stop, 0))
					if calleeName(c) == "os.Rename" {
						detail := ""
						if !inStop {
							detail = "the function that gives a file its final name can run outside StopRecording's close-then-rename sequence (callers: " + strings.Join(callerNames(w, fn), ", ") + "): a file that was never closed by its writer would get the .cptv name"
						}
						r.Check(inStop, "D2", "rename site in "+fn.Name()+" belongs to the stop path", w.InstrPos(c), detail)
					} else {
						nm := mkEnv().termOf(c.Call.Args[0])
						sx := se.suffixOf(nm)
						r.Check(sx.known && !strings.HasSuffix(sx.s, ".cptv"), "D2", "file opened/created in "+fn.Name()+" does not bear the .cptv name", w.InstrPos(c), nm.String())
					}
				}
			}
		}
	}
	// ---- D3: writer field discipline
	checkWriterField(w, r, T, wfield, start, stop, abort)
	// defer Stop right after construction in the connection handler
	ci := analyseHandleConn(w)
	if ci.err == nil {
		okDefer := false
		for _, b := range ci.setup.Blocks {
			for _, in := range b.Instrs {
				if d, ok := in.(*ssa.Defer); ok && d.Call.StaticCallee() == abort {
					if c, ok := d.Call.Args[0].(*ssa.Call); ok && ctorCallIn(ci.setup, c, ctor) != nil && c.Block() == b {
						// nothing that can return sits between construction and the defer
						okDefer = true
					}
				}
			}
		}
		r.Check(okDefer, "D3", "the connection handler defers Stop() on the motion file recorder right after constructing it", w.Pos(ci.setup.Pos()), "")
	}
	// the directory the clean-up scans is the directory the recorders write to: the loaded output-dir setting is never
	// rewritten after loading (a recorder that rewrote it, e.g. through a pointer copy of the configuration, would move
	// the later connections' temporary files out of the clean-up's reach)
	checkSettingsImmutable(w, r, "D5", "Config:OutputDir")
	// the directories the clean-up visits are the directories the recorders write to: the constant recorder's folder is
	// derived once, from the configured directory (set twice - on a recorder kept across connections - it nests, and
	// debris in the nested folder is never visited)
	linkObligations(w, r, propC17, "C17", func(o *Obligation) bool {
		return o.Rule == "C17.V5" && strings.Contains(o.Construct, "constant-recorder mode is set once")
	}, "D5")
	// close-then-rename acts on the writer that was closed only while nothing else replaces it meanwhile: the file
	// recorder has no lock, so its state must stay with one goroutine (a stop handed to a goroutine of its own overlaps
	// the next start and renames the new, empty temporary file to the final name). C16.R1 has an obligation for a field of
	// the recorder only when it became shared between goroutines: finding none is the good case.
	linkObligationsOpt(w, r, propC16, "C16", func(o *Obligation) bool {
		return o.Rule == "C16.R1" && strings.Contains(o.Construct, "location=CPTVFileRecorder.")
	}, "D2")
}

func instrIndex(in ssa.Instruction) int {
	for i, x := range in.Block().Instrs {
		if x == in {
			return i
		}
	}
	return -1
}

func keysOf(m map[string]bool) []string {
	var ks []string
	for k := range m {
		ks = append(ks, k)
	}
	sort.Strings(ks)
	return ks
}

func reachableNames(fn *ssa.Function, depth int) map[string]bool {
	out := map[string]bool{}
	var walk func(f *ssa.Function, d int)
	seen := map[*ssa.Function]bool{}
	walk = func(f *ssa.Function, d int) {
		if f == nil || seen[f] || d > depth {
			return
		}
		seen[f] = true
		for _, b := range f.Blocks {
			for _, in := range b.Instrs {
				if ci, ok := in.(ssa.CallInstruction); ok {
					cc := ci.Common()
					if cc.IsInvoke() {
						out[cc.Method.Name()] = true
						continue
					}
					if callee := cc.StaticCallee(); callee != nil {
						out[callee.Name()] = true
						walk(callee, d+1)
					}
				}
			}
		}
	}
	walk(fn, 0)
	return out
}

func reachableFrom(root, target *ssa.Function, depth int) bool {
	seen := map[*ssa.Function]bool{}
	var walk func(f *ssa.Function, d int) bool
	walk = func(f *ssa.Function, d int) bool {
		if f == target {
			return true
		}
		if f == nil || seen[f] || d > depth {
			return false
		}
		seen[f] = true
		for _, b := range f.Blocks {
			for _, in := range b.Instrs {
				if ci, ok := in.(ssa.CallInstruction); ok {
					if callee := ci.Common().StaticCallee(); callee != nil && walk(callee, d+1) {
						return true
					}
				}
			}
		}
		return false
	}
	return walk(root, 0)
}

func reachesRename(fn *ssa.Function, d int) bool {
	return reachableNames(fn, 3)["Rename"]
}

func callsGlobAndRemove(fn *ssa.Function) bool {
	names := reachableNames(fn, 1)
	return names["Glob"] && names["Remove"]
}

// relDir: t = path.Join(list(base, "<const>")) -> "<const>" without leading slash.
func relDir(t *Term, base string) (string, bool) {
	if t.Op == "call" && (strings.HasSuffix(t.Name, "path.Join") || strings.HasSuffix(t.Name, "filepath.Join")) && len(t.Args) == 1 && t.Args[0].Op == "list" && len(t.Args[0].Args) == 2 {
		if t.Args[0].Args[0].String() == base {
			if s, ok := constString(t.Args[0].Args[1]); ok {
				return strings.Trim(s, "/"), true
			}
		}
	}
	return "", false
}

// dirAlternatives: the directories a glob is applied to, relative to the clean-up's parameter:
// either the parameter itself, or an element of a literal list ranged over.
func dirAlternatives(t *Term, param string) ([]string, bool) {
	one := func(x *Term) (string, bool) {
		if x.String() == param {
			return "", true
		}
		return relDir(x, param)
	}
	if d, ok := one(t); ok {
		return []string{d}, true
	}
	if t.Op == "index" && len(t.Args) == 2 && t.Args[0].Op == "list" && t.Args[1].Op == "rangeidx" {
		var out []string
		for _, el := range t.Args[0].Args {
			d, ok := one(el)
			if !ok {
				return nil, false
			}
			out = append(out, d)
		}
		return out, true
	}
	return nil, false
}

func globDescr(gs interface{}) string { return fmt.Sprintf("%+v", gs) }

// checkWriterField: D3 — the writer field is the "file open" state.
func checkWriterField(w *World, r *Report, T *types.Named, wfield int, start, stop, abort *ssa.Function) {
	st := T.Underlying().(*types.Struct)
	leaf := "main.CPTVFileRecorder." + st.Field(wfield).Name() + "@recv:main.CPTVFileRecorder"
	storesOn := func(p *Path, e *termEnv) []string {
		var out []string
		for _, in := range p.Instrs {
			if s, ok := in.(*ssa.Store); ok {
				if fa, ok := s.Addr.(*ssa.FieldAddr); ok && isPtrTo(fa.X.Type(), T) && fa.Field == wfield {
					out = append(out, p.Term(e, s.Val).String())
				}
			}
		}
		return out
	}
	callsOn := func(p *Path) []string {
		var out []string
		for _, in := range p.Instrs {
			if c, ok := in.(*ssa.Call); ok {
				out = append(out, calleeName(c))
			}
		}
		return out
	}
	// StartRecording
	e := newTermEnv(w)
	paths, complete := enumPathsInl(e, start, 256, sameReceiverHelperOf(start))
	if !complete {
		r.Unknown("D3", "StartRecording paths", w.Pos(start.Pos()), "not loop-free")
	}
	okS, nOK := true, 0
	var swallowed []string
	for _, p := range paths {
		ret := p.Term(e, p.Ret.Results[0]).String()
		ss := storesOn(p, e)
		if ret == "nil" {
			nOK++
			if !(len(ss) == 1 && strings.Contains(ss[0], "cptv.NewFileWriter(")) {
				okS = false
			}
			// header written before success
			if !containsStr(callsOn(p), "cptv.Writer.WriteHeader") {
				okS = false
			}
			// ... and written successfully: the path has tested the error of the file creation and of the header
			// write and found it nil (a helper that swallows the error would report success for a file without header)
			for _, in := range p.Instrs {
				c, ok := in.(*ssa.Call)
				if !ok || (calleeName(c) != "cptv.Writer.WriteHeader" && calleeName(c) != "cptv.NewFileWriter") {
					continue
				}
				if !errorFoundNilOn(p, c) {
					okS = false
					swallowed = append(swallowed, calleeName(c)+" at "+w.InstrPos(c))
				}
			}
		} else if len(ss) != 0 {
			okS = false
		}
	}
	r.Check(okS && nOK >= 1, "D3", "StartRecording sets the writer exactly on its successful paths (after the header and background frame were written) and never on a failing path", w.Pos(start.Pos()), fmt.Sprintf("%d paths, %d successful; error not found nil on a successful path: %v", len(paths), nOK, swallowed))
	// StopRecording: every path on which the writer was open ends with writer = nil and Close called
	e2 := newTermEnv(w)
	paths, _ = enumPathsInl(e2, stop, 256, sameReceiverHelperOf(stop))
	okStop := len(paths) > 0
	for _, p := range paths {
		open := hasGuard(p.Conds, "ne("+leaf+", nil)")
		ss := storesOn(p, e2)
		if open {
			if !(len(ss) >= 1 && ss[len(ss)-1] == "nil" && containsStr(callsOn(p), "cptv.FileWriter.Close")) {
				okStop = false
			}
		} else if len(ss) != 0 {
			okStop = false
		}
	}
	r.Check(okStop, "D3", "StopRecording closes the writer and clears the field on every path where a file was open, whatever the rename returns (the sink is closed after any stop)", w.Pos(stop.Pos()), fmt.Sprintf("%d paths", len(paths)))
	// Stop: close, remove own name, clear
	e3 := newTermEnv(w)
	paths, _ = enumPathsInl(e3, abort, 64, sameReceiverHelperOf(abort))
	okAbort := len(paths) > 0
	for _, p := range paths {
		open := hasGuard(p.Conds, "ne("+leaf+", nil)")
		ss := storesOn(p, e3)
		cs := callsOn(p)
		if open {
			rm := false
			for _, in := range p.Instrs {
				if c, ok := in.(*ssa.Call); ok && calleeName(c) == "os.Remove" {
					rm = p.Term(e3, c.Call.Args[0]).String() == "cptv.FileWriter.Name("+leaf+")"
				}
			}
			if !(rm && containsStr(cs, "cptv.FileWriter.Close") && len(ss) == 1 && ss[0] == "nil") {
				okAbort = false
			}
		} else if len(ss) != 0 || containsStr(cs, "os.Remove") {
			okAbort = false
		}
	}
	r.Check(okAbort, "D3", "Stop() (connection loss) closes the writer, removes its temporary file and clears the field; it does nothing when no file is open", w.Pos(abort.Pos()), fmt.Sprintf("%d paths", len(paths)))
	// nobody else writes the field
	n := 0
	for fn := range w.AllFuncs {
		for _, b := range fn.Blocks {
			for _, in := range b.Instrs {
				if s, ok := in.(*ssa.Store); ok {
					if fa, ok := s.Addr.(*ssa.FieldAddr); ok && isPtrTo(fa.X.Type(), T) && fa.Field == wfield {
						n++
						if fn != start && fn != stop && fn != abort {
							r.Fail("D3", "writer field written in "+fn.Name(), w.InstrPos(s), "the 'file open' field is modified outside StartRecording/StopRecording/Stop", "")
						}
					}
				}
			}
		}
	}
	r.Check(n >= 3, "G4", "stores to the writer field found", "-", fmt.Sprint(n))
}

// checkCleanupOnlyAtStartup: the function that removes every in-progress recording file (glob + remove) has exactly one
// call site in the whole repository - the start-up call in the function that serves connections. Called from anywhere
// else (a recorder method, the frame loop) it would unlink the open temporary file of a recording that is being written
// by ANOTHER recorder: that file's frames then land in no file.
func checkCleanupOnlyAtStartup(w *World, r *Report, rule string) {
	hci := analyseHandleConn(w)
	if hci.err != nil {
		r.Unknown(rule, "connection handler", "-", hci.err.Error())
		return
	}
	var runMain *ssa.Function
	if cs := w.callersOf(hci.setup); len(cs) == 1 {
		runMain = cs[0]
	}
	if runMain == nil {
		r.Unknown(rule, "start-up function", "-", "the connection handler does not have exactly one caller")
		return
	}
	var cleanups []*ssa.Function
	for _, fn := range w.RepoFuncs() {
		if fn.Pkg == runMain.Pkg && callsGlobAndRemoveAll(w, fn) {
			cleanups = append(cleanups, fn)
		}
	}
	if len(cleanups) == 0 {
		r.Fail(rule, "start-up clean-up exists", "-", "no function of the recorder removes every file matched by a glob", "")
		return
	}
	for _, cl := range cleanups {
		n := 0
		for _, f := range w.RepoFuncs() {
			for _, b := range f.Blocks {
				for _, in := range b.Instrs {
					ci, ok := in.(ssa.CallInstruction)
					if !ok || ci.Common().StaticCallee() != cl {
						// also: the function used as a value (stored, passed) would escape this census
						continue
					}
					n++
					construct := "in-progress-file clean-up " + cl.Name() + " called from " + f.Name()
					if _, isGo := in.(*ssa.Go); isGo {
						r.Fail(rule, construct, w.InstrPos(in), "the clean-up runs concurrently with the connection loop", "")
					} else if ok, how := runsBeforeServing(w, hci.setup, in, 0); ok {
						r.Pass(rule, construct, w.InstrPos(in), "start-up path: "+how)
					} else {
						r.Fail(rule, construct, w.InstrPos(in), "the clean-up that unlinks every in-progress recording file is called outside start-up: the open temporary files of the other recorders (continuous, test) are deleted under them", "")
					}
				}
			}
		}
		// not used as a first-class value
		escaped := false
		for _, f := range w.RepoFuncs() {
			for _, b := range f.Blocks {
				for _, in := range b.Instrs {
					for _, op := range in.Operands(nil) {
						if *op == ssa.Value(cl) {
							if ci, ok := in.(ssa.CallInstruction); ok && ci.Common().Value == ssa.Value(cl) {
								continue
							}
							escaped = true
						}
					}
				}
			}
		}
		r.Check(!escaped && n >= 1, rule, "clean-up "+cl.Name()+" is only ever called directly", w.Pos(cl.Pos()), fmt.Sprintf("%d call site(s)", n))
	}
}

// callsGlobAndRemoveAll: the function removes, in a loop, the files matched by a glob (all of them).
func callsGlobAndRemoveAll(w *World, fn *ssa.Function) bool {
	if !callsGlobAndRemove(fn) {
		return false
	}
	e := newTermEnv(w)
	for _, b := range fn.Blocks {
		for _, in := range b.Instrs {
			c, ok := in.(*ssa.Call)
			if !ok {
				continue
			}
			if calleeName(c) == "os.Remove" {
				t := e.termOf(c.Call.Args[0])
				if t.Op == "index" && len(t.Args) == 2 && t.Args[1].Op == "rangeidx" {
					return true
				}
			}
			if pi := removesAllOfParam(w, c.Call.StaticCallee()); pi >= 0 && pi < len(c.Call.Args) && strings.HasPrefix(e.termOf(c.Call.Args[pi]).String(), "#0(path/filepath.Glob(") {
				return true
			}
		}
	}
	return false
}

// removesAllOfParam: fn removes every element of one of its []string parameters (os.Remove(p[i]) for i ranging over
// p, the first error returned); the index of that parameter, or -1.
func removesAllOfParam(w *World, fn *ssa.Function) int {
	if fn == nil || len(fn.Blocks) == 0 || !w.IsRepoFunc(fn) {
		return -1
	}
	e := newTermEnv(w)
	for _, b := range fn.Blocks {
		for _, in := range b.Instrs {
			c, ok := in.(*ssa.Call)
			if !ok || calleeName(c) != "os.Remove" {
				continue
			}
			t := e.termOf(c.Call.Args[0])
			if t.Op == "index" && len(t.Args) == 2 && t.Args[1].Op == "rangeidx" && t.Args[0].String() == t.Args[1].Args[0].String() {
				for i, p := range fn.Params {
					if e.termOf(p).String() == t.Args[0].String() {
						return i
					}
				}
			}
		}
	}
	return -1
}

// runsBeforeServing: instruction `site` executes only on the start-up path, before the connection handler can run: it
// sits in a function on the call chain main -> ... -> handler at a point that precedes (dominates) the call leading to
// the handler, or in a stage function whose single call site does (three levels).
func runsBeforeServing(w *World, handler *ssa.Function, site ssa.Instruction, depth int) (bool, string) {
	if depth > 3 {
		return false, ""
	}
	// the chain of single callers above the handler, with the call instruction that leads down
	type link struct {
		fn   *ssa.Function
		call ssa.Instruction
	}
	var chain []link
	target := handler
	for i := 0; i < 4; i++ {
		cs := w.callersOf(target)
		if len(cs) != 1 {
			break
		}
		var calls []ssa.Instruction
		for _, b := range cs[0].Blocks {
			for _, in := range b.Instrs {
				if ci, ok := in.(ssa.CallInstruction); ok && ci.Common().StaticCallee() == target {
					calls = append(calls, in)
				}
			}
		}
		if len(calls) != 1 {
			break
		}
		chain = append(chain, link{cs[0], calls[0]})
		target = cs[0]
	}
	g := site.Parent()
	if inLoop(site.Block()) {
		// start-up work runs once; inside a loop (the accept loop) it would run again for every connection
		return false, ""
	}
	for _, l := range chain {
		if l.fn == g {
			if site.Block() == l.call.Block() && instrIndex(site) < instrIndex(l.call) || site.Block() != l.call.Block() && site.Block().Dominates(l.call.Block()) {
				return true, "in " + g.Name() + " before " + calleeNameCI(l.call.(ssa.CallInstruction))
			}
			return false, ""
		}
	}
	// a stage function: exactly one call site, not a goroutine, itself on the start-up path
	var sites []ssa.Instruction
	for _, caller := range w.callersOf(g) {
		for _, b := range caller.Blocks {
			for _, in := range b.Instrs {
				if ci, ok := in.(ssa.CallInstruction); ok && ci.Common().StaticCallee() == g {
					sites = append(sites, in)
				}
			}
		}
	}
	if len(sites) != 1 {
		return false, ""
	}
	if _, isGo := sites[0].(*ssa.Go); isGo {
		return false, ""
	}
	ok, how := runsBeforeServing(w, handler, sites[0], depth+1)
	return ok, g.Name() + " <- " + how
}

// onlyCalledFrom: every call site of fn lies in root or in a function that is itself only called from root (three
// levels); fn is not used as a value.
func onlyCalledFrom(w *World, fn, root *ssa.Function, depth int) bool {
	if fn == root {
		return true
	}
	if depth > 3 {
		return false
	}
	cs := w.callersOf(fn)
	if len(cs) == 0 {
		return false
	}
	for _, c := range cs {
		if !onlyCalledFrom(w, c, root, depth+1) {
			return false
		}
	}
	return true
}

func callerNames(w *World, fn *ssa.Function) []string {
	var out []string
	for _, c := range w.callersOf(fn) {
		out = append(out, c.Name())
	}
	sort.Strings(out)
	return out
}

func isStringType(t types.Type) bool {
	bt, ok := t.Underlying().(*types.Basic)
	return ok && bt.Info()&types.IsString != 0
}

// errorFoundNilOn: the path branches on "error result of call c == nil" and takes the nil side.
func errorFoundNilOn(p *Path, c *ssa.Call) bool {
	isErrOf := func(v ssa.Value) bool {
		if v == ssa.Value(c) {
			return true
		}
		if ex, ok := v.(*ssa.Extract); ok && ex.Tuple == ssa.Value(c) {
			return true
		}
		return false
	}
	for _, g := range p.Conds {
		if g.If == nil {
			continue
		}
		bo, ok := g.If.Cond.(*ssa.BinOp)
		if !ok {
			continue
		}
		var other ssa.Value
		switch {
		case isErrOf(p.Origin(bo.X)) || isErrOf(bo.X):
			other = bo.Y
		case isErrOf(p.Origin(bo.Y)) || isErrOf(bo.Y):
			other = bo.X
		default:
			continue
		}
		if k, isC := other.(*ssa.Const); !isC || k.Value != nil {
			continue
		}
		if bo.Op == token.EQL && g.Pos || bo.Op == token.NEQ && !g.Pos {
			return true
		}
	}
	return false
}

// checkStopToleratesClosed: StopRecording of the file recorder on a recorder with no open file does nothing and returns
// nil - the processor relies on it (the bad-frame path stops the continuous recorder whether or not a file is open,
// Reset stops the motion recorder unconditionally). Every use of the writer in StopRecording is on a path that found
// the writer non-nil.
func checkStopToleratesClosed(w *World, r *Report, rule string) {
	T := w.NamedType("cmd/thermal-recorder", "CPTVFileRecorder")
	if T == nil {
		r.Unknown(rule, "CPTVFileRecorder", "-", "type not found")
		return
	}
	st := T.Underlying().(*types.Struct)
	wfield := -1
	for i := 0; i < st.NumFields(); i++ {
		if typeIs(st.Field(i).Type(), "github.com/TheCacophonyProject/go-cptv", "FileWriter") {
			wfield = i
		}
	}
	stop := findMethod(w.Prog, T, "StopRecording")
	if wfield < 0 || stop == nil {
		r.Unknown(rule, "CPTVFileRecorder.StopRecording", "-", "writer field / method not found")
		return
	}
	leaf := "main.CPTVFileRecorder." + st.Field(wfield).Name() + "@recv:main.CPTVFileRecorder"
	e := newTermEnv(w)
	paths, complete := enumPathsInl(e, stop, 256, sameReceiverHelperOf(stop))
	nClosed := 0
	ok := complete && len(paths) > 0
	detail := ""
	for _, p := range paths {
		if hasGuard(p.Conds, "ne("+leaf+", nil)") {
			continue
		}
		nClosed++
		for _, in := range p.Instrs {
			c, isCall := in.(*ssa.Call)
			if !isCall {
				continue
			}
			cn := calleeName(c)
			if strings.HasPrefix(cn, "cptv.FileWriter.") || strings.HasPrefix(cn, "cptv.Writer.") || cn == "os.Rename" {
				ok = false
				detail = cn + " reached without the writer having been found non-nil (" + w.InstrPos(c) + ")"
			}
		}
		if p.Term(e, p.Ret.Results[0]).String() != "nil" && detail == "" {
			ok = false
			detail = "a stop with no file open returns an error"
		}
	}
	r.Check(ok && nClosed >= 1, rule, "the file recorder's StopRecording with no file open does nothing and returns nil (the writer is used only where it was found non-nil)", w.Pos(stop.Pos()), fmt.Sprintf("%d paths, %d without an open file; %s", len(paths), nClosed, detail))
}

// loopReachable: b is reached from inside the body of some loop by another way than the loop header's own exit edge
// (a return or break out of the middle of an iteration: the remaining iterations are skipped).
func loopReachable(b *ssa.BasicBlock) bool {
	fn := b.Parent()
	reach := func(from, to *ssa.BasicBlock, skip func(x, y *ssa.BasicBlock) bool) bool {
		seen := map[*ssa.BasicBlock]bool{from: true}
		work := []*ssa.BasicBlock{from}
		for len(work) > 0 {
			x := work[len(work)-1]
			work = work[:len(work)-1]
			for _, y := range x.Succs {
				if skip != nil && skip(x, y) {
					continue
				}
				if y == to {
					return true
				}
				if !seen[y] {
					seen[y] = true
					work = append(work, y)
				}
			}
		}
		return false
	}
	for _, h := range fn.Blocks {
		back := false
		for _, p := range h.Preds {
			if h.Dominates(p) {
				back = true
			}
		}
		if !back || !h.Dominates(b) {
			continue
		}
		body := map[*ssa.BasicBlock]bool{h: true}
		for _, x := range fn.Blocks {
			if h.Dominates(x) && reach(x, h, nil) {
				body[x] = true
			}
		}
		if reach(h, b, func(x, y *ssa.BasicBlock) bool { return x == h && !body[y] }) {
			return true
		}
	}
	return false
}

// provablyNonNilError: v is a freshly made error, or the block is dominated by the true edge of v != nil.
func provablyNonNilError(e *termEnv, b *ssa.BasicBlock, v ssa.Value) bool {
	if c, ok := v.(*ssa.Const); ok {
		return !c.IsNil()
	}
	if mi, ok := v.(*ssa.MakeInterface); ok {
		_ = mi
		return true // a concrete error value boxed here
	}
	if c, ok := v.(*ssa.Call); ok {
		switch calleeName(c) {
		case "errors.New", "fmt.Errorf":
			return true
		}
	}
	if u, ok := v.(*ssa.UnOp); ok {
		if g, ok := u.X.(*ssa.Global); ok && sentinelError(g) {
			return true // a named error of the package
		}
	}
	for _, g := range e.guardsOf(b) {
		bo, ok := g.If.Cond.(*ssa.BinOp)
		if !ok {
			continue
		}
		isNil := func(x ssa.Value) bool { c, ok := x.(*ssa.Const); return ok && c.IsNil() }
		if (bo.X == v && isNil(bo.Y)) || (bo.Y == v && isNil(bo.X)) {
			if (bo.Op == token.NEQ && g.Pos) || (bo.Op == token.EQL && !g.Pos) {
				return true
			}
		}
	}
	return false
}
