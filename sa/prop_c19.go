package main

import (
	"fmt"
	"go/constant"
	"go/token"
	"go/types"
	"sort"
	"strings"

	"golang.org/x/tools/go/ssa"
)

func init() { register("C19", propC19) }

type ringInfo struct {
	T                          *types.Named
	St                         *types.Struct
	Ctor                       *ssa.Function
	N, CUR, OLD, FULL, FR, ORD string
	fN, fCUR, fOLD, fFULL      int
	fFR, fORD                  int
	full, next                 *ssa.Function
	methods                    map[string]*ssa.Function
	capTerm                    string // what the constructor stores into the capacity field
}

func ringLeaf(st *types.Struct, fi int) string {
	return "motion.FrameLoop." + st.Field(fi).Name() + "@recv:motion.FrameLoop"
}

func resolveRing(w *World) (*ringInfo, error) {
	T := w.NamedType("motion", "FrameLoop")
	pkg := w.Pkg("motion")
	if T == nil || pkg == nil {
		return nil, fmt.Errorf("motion.FrameLoop not found")
	}
	ri := &ringInfo{T: T, St: T.Underlying().(*types.Struct), fN: -1, fCUR: -1, fOLD: -1, fFULL: -1, fFR: -1, fORD: -1, methods: map[string]*ssa.Function{}}
	for _, mem := range pkg.Members {
		if fn, ok := mem.(*ssa.Function); ok && fn.Signature.Results().Len() == 1 && isPtrTo(fn.Signature.Results().At(0).Type(), T) {
			ri.Ctor = fn
		}
	}
	if ri.Ctor == nil {
		return nil, fmt.Errorf("constructor of FrameLoop not found")
	}
	e := newTermEnv(w)
	ci := e.useCtor(T, ri.Ctor)
	for _, name := range []string{"Move", "Current", "CopyRecent", "GetHistory", "Oldest", "SetAsOldest", "Reset"} {
		fn := findMethod(w.Prog, T, name)
		if fn == nil {
			return nil, fmt.Errorf("FrameLoop.%s not found", name)
		}
		ri.methods[name] = fn
	}
	// all functions with a *FrameLoop receiver
	var all []*ssa.Function
	for fn := range w.AllFuncs {
		if rv := fn.Signature.Recv(); rv != nil && isPtrTo(rv.Type(), T) && len(fn.Blocks) > 0 {
			all = append(all, fn)
		}
	}
	pe := newTermEnv(w)
	for fi := 0; fi < ri.St.NumFields(); fi++ {
		ft := ri.St.Field(fi).Type()
		switch u := ft.Underlying().(type) {
		case *types.Basic:
			if u.Kind() == types.Bool {
				ri.fFULL = fi
			}
			if u.Info()&types.IsInteger != 0 {
				// the capacity: the integer field only the constructor stores (that it is the size argument itself,
				// unmodified, is obligation Q2)
				if !ci.Mutable[fi] && ci.Stores[fi] != nil {
					if ri.fN >= 0 {
						return nil, fmt.Errorf("two immutable integer fields: capacity not resolved")
					}
					ri.fN = fi
					ri.capTerm = ci.Stores[fi].String()
				}
			}
		}
	}
	if ri.fN < 0 {
		return nil, fmt.Errorf("capacity field (immutable int set by the constructor) not found")
	}
	for _, fn := range all {
		for _, b := range fn.Blocks {
			for _, in := range b.Instrs {
				switch x := in.(type) {
				case *ssa.Store:
					fa, ok := x.Addr.(*ssa.FieldAddr)
					if !ok || !isPtrTo(fa.X.Type(), T) || !isInteger(ri.St.Field(fa.Field).Type()) {
						continue
					}
					t := pe.termOf(x.Val).String()
					if strings.HasPrefix(t, "rem(") {
						ri.fCUR = fa.Field
					}
					if t == "-1" {
						ri.fOLD = fa.Field
					}
				case *ssa.Call:
					if bi, ok := x.Call.Value.(*ssa.Builtin); ok && bi.Name() == "copy" {
						dst := x.Call.Args[0]
						if sl, ok := dst.(*ssa.Slice); ok {
							dst = sl.X
						}
						if u, ok := dst.(*ssa.UnOp); ok {
							if fa, ok := u.X.(*ssa.FieldAddr); ok && isPtrTo(fa.X.Type(), T) {
								ri.fORD = fa.Field
							}
						}
					}
				}
			}
		}
	}
	if ri.fCUR < 0 {
		// the position is not advanced by a remainder: it is still the field Current() indexes the frames with
		if cur := ri.methods["Current"]; cur != nil {
			for _, b := range cur.Blocks {
				ret, ok := b.Instrs[len(b.Instrs)-1].(*ssa.Return)
				if !ok || len(ret.Results) != 1 {
					continue
				}
				if ld, ok := ret.Results[0].(*ssa.UnOp); ok {
					if ia, ok := ld.X.(*ssa.IndexAddr); ok {
						if il, ok := ia.Index.(*ssa.UnOp); ok {
							if fa, ok := il.X.(*ssa.FieldAddr); ok && isPtrTo(fa.X.Type(), T) && isInteger(ri.St.Field(fa.Field).Type()) {
								ri.fCUR = fa.Field
							}
						}
					}
				}
			}
		}
	}
	// the mark is the remaining integer field (stored with -1 when it expires)
	ri.fOLD = -1
	var cands []int
	for fi := 0; fi < ri.St.NumFields(); fi++ {
		if isInteger(ri.St.Field(fi).Type()) && fi != ri.fN && fi != ri.fCUR {
			cands = append(cands, fi)
		}
	}
	if len(cands) > 1 {
		// further integer state next to the mark (a cached index, a counter): the mark is the one that is given a
		// negative constant when it expires
		var neg []int
		for _, fi := range cands {
			isNeg := false
			for _, m := range ri.methods {
				for _, b := range m.Blocks {
					for _, in := range b.Instrs {
						if st, ok := in.(*ssa.Store); ok {
							if fa, ok := st.Addr.(*ssa.FieldAddr); ok && fa.Field == fi && isPtrTo(fa.X.Type(), T) {
								if k, ok := st.Val.(*ssa.Const); ok && k.Value != nil && k.Value.Kind() == constant.Int && constant.Sign(k.Value) < 0 {
									isNeg = true
								}
							}
						}
					}
				}
			}
			if isNeg {
				neg = append(neg, fi)
			}
		}
		if len(neg) != 1 {
			return nil, fmt.Errorf("more than three integer fields in FrameLoop")
		}
		cands = neg
	}
	if len(cands) == 1 {
		ri.fOLD = cands[0]
	}
	for fi := 0; fi < ri.St.NumFields(); fi++ {
		if _, ok := ri.St.Field(fi).Type().Underlying().(*types.Slice); ok && fi != ri.fORD {
			ri.fFR = fi
		}
	}
	if ri.fCUR < 0 || ri.fOLD < 0 || ri.fFULL < 0 || ri.fFR < 0 || ri.fORD < 0 {
		return nil, fmt.Errorf("ring fields not resolved by behaviour: cur=%d oldest=%d full=%d frames=%d ordered=%d", ri.fCUR, ri.fOLD, ri.fFULL, ri.fFR, ri.fORD)
	}
	ri.N, ri.CUR, ri.OLD, ri.FULL, ri.FR, ri.ORD = ringLeaf(ri.St, ri.fN), ringLeaf(ri.St, ri.fCUR), ringLeaf(ri.St, ri.fOLD), ringLeaf(ri.St, ri.fFULL), ringLeaf(ri.St, ri.fFR), ringLeaf(ri.St, ri.fORD)
	// helper: the full-history function = callee of GetHistory whose result GetHistory returns
	for _, b := range ri.methods["GetHistory"].Blocks {
		for _, in := range b.Instrs {
			if c, ok := in.(*ssa.Call); ok {
				if callee := c.Call.StaticCallee(); callee != nil && callee.Signature.Recv() != nil && isPtrTo(callee.Signature.Recv().Type(), T) {
					// ... and returns a slice (other small helpers of GetHistory, e.g. an extracted length computation, do not)
					if callee.Signature.Results().Len() == 1 {
						if _, isSlice := callee.Signature.Results().At(0).Type().Underlying().(*types.Slice); isSlice {
							ri.full = callee
						}
					}
				}
			}
		}
	}
	if ri.full == nil {
		return nil, fmt.Errorf("full-history helper not found")
	}
	return ri, nil
}

// lin2: n*N + k with N >= 1
type lin2 struct{ n, k int64 }

func (a lin2) add(b lin2) lin2 { return lin2{a.n + b.n, a.k + b.k} }
func (a lin2) neg() lin2       { return lin2{-a.n, -a.k} }
func (a lin2) nonneg() bool    { return a.n >= 0 && a.n+a.k >= 0 }
func (a lin2) String() string {
	if a.n == 0 {
		return fmt.Sprint(a.k)
	}
	return fmt.Sprintf("%dN%+d", a.n, a.k)
}

type iv2 struct {
	lo, hi lin2
	ok     bool
}

func (ri *ringInfo) rangeOf(t *Term, oldSet bool) iv2 {
	switch t.Op {
	case "const":
		if n, ok := t.isConst(); ok {
			return iv2{lin2{0, n}, lin2{0, n}, true}
		}
	case "leaf":
		switch t.Name {
		case ri.N:
			return iv2{lin2{1, 0}, lin2{1, 0}, true}
		case ri.CUR:
			return iv2{lin2{0, 0}, lin2{1, -1}, true}
		case ri.OLD:
			if oldSet {
				return iv2{lin2{0, 0}, lin2{1, -1}, true}
			}
			return iv2{lin2{0, -1}, lin2{1, -1}, true}
		}
	case "len":
		if len(t.Args) == 1 && (t.Args[0].String() == ri.FR || t.Args[0].String() == ri.ORD) {
			return iv2{lin2{1, 0}, lin2{1, 0}, true}
		}
	case "add":
		acc := iv2{lin2{}, lin2{}, true}
		for _, a := range t.Args {
			x := ri.rangeOf(a, oldSet)
			if !x.ok {
				return iv2{}
			}
			acc.lo, acc.hi = acc.lo.add(x.lo), acc.hi.add(x.hi)
		}
		return acc
	case "mul":
		if len(t.Args) == 2 {
			if c, ok := t.Args[0].isConst(); ok {
				x := ri.rangeOf(t.Args[1], oldSet)
				if !x.ok {
					return iv2{}
				}
				lo, hi := lin2{x.lo.n * c, x.lo.k * c}, lin2{x.hi.n * c, x.hi.k * c}
				if c < 0 {
					lo, hi = hi, lo
				}
				return iv2{lo, hi, true}
			}
		}
	case "rem":
		if len(t.Args) == 2 && t.Args[1].String() == ri.N {
			x := ri.rangeOf(t.Args[0], oldSet)
			if x.ok && x.lo.nonneg() {
				return iv2{lin2{0, 0}, lin2{1, -1}, true}
			}
		}
	}
	return iv2{}
}

// within decides lo <= t <= hi; a two-way selection is decided branch by branch, each under its own condition
// (select(mark != -1, mark, next): the first branch knows the mark is set).
func (ri *ringInfo) within(t *Term, oldSet bool, lo, hi lin2) (bool, string) {
	if t.Op == "select" && len(t.Args) == 3 {
		c := t.Args[0].String()
		setA, setB := oldSet, oldSet
		switch c {
		case "ne(-1, " + ri.OLD + ")":
			setA = true
		case "eq(-1, " + ri.OLD + ")":
			setB = true
		}
		okA, dA := ri.within(t.Args[1], setA, lo, hi)
		okB, dB := ri.within(t.Args[2], setB, lo, hi)
		return okA && okB, "select: " + dA + " | " + dB
	}
	rg := ri.rangeOf(t, oldSet)
	return rg.within(lo, hi), fmt.Sprintf("%s in [%s, %s]", t, rg.lo, rg.hi)
}

func (v iv2) within(lo, hi lin2) bool {
	return v.ok && v.lo.add(lo.neg()).nonneg() && hi.add(v.hi.neg()).nonneg()
}

func propC19(w *World, r *Report) {
	r.Explanation = "Decided clause (memory safety, the mark census and the index normal forms — not their composition over all operation sequences): (Q1) every store to the position field has a value in [0, n-1] and every store to the mark in [-1, n-1], by interval arithmetic with x % n in [0, n-1] for x >= 0, under n >= 1; (Q2) every element index into the two frame slices is within [0, n-1] and every slice bound within [0, n] given Q1; (Q3) the stores to the mark are exactly {Reset: 0, SetAsOldest: position, Move: -1 exactly when the advanced position equals the mark}; (Q4) GetHistory returns the full history when unmarked, else its suffix of length ((position - mark + n) % n) + 1; (Q5) the full history is frames[0:n] when position = n-1, frames[0:next] when not yet wrapped, and frames[next:] followed by frames[:next] at offset n-next when wrapped (a rotation starting at the slot after the position); (Q6) Current = frames[position], CopyRecent = copy of frames[(position-1+n) % n] under the lock Move holds, Oldest = frames[mark] when marked else frames[next], Move advances by (position+1) % n and sets the wrapped flag at 0. Rule: exhaustive path enumeration of the loop-free methods with normalised terms + interval arithmetic over n."
	r.RuleText = "obligation per (rule, method path / index site)"
	r.Assumptions = []string{"capacity n >= 1 (quantifier of the property)",
		"the slice bound len(full) - historyLength >= 0 in GetHistory follows from the inductive invariant (not wrapped => mark = -1 or mark <= position) of the update forms established by Q3-Q6 (Lemma R in DESIGN.md, a paper proof about the normal forms); it is not re-derived mechanically",
		"NOT decided: that these forms compose to the stated history for every operation sequence beyond Lemma R"}
	ri, err := resolveRing(w)
	if err != nil {
		r.Unknown("roles", "motion.FrameLoop", "-", err.Error())
		return
	}
	r.Extra["ring_roles"] = map[string]string{"capacity": ri.St.Field(ri.fN).Name(), "position": ri.St.Field(ri.fCUR).Name(), "mark": ri.St.Field(ri.fOLD).Name(),
		"wrapped": ri.St.Field(ri.fFULL).Name(), "frames": ri.St.Field(ri.fFR).Name(), "ordered": ri.St.Field(ri.fORD).Name()}
	N, CUR, OLD, FULL, FR, ORD := ri.N, ri.CUR, ri.OLD, ri.FULL, ri.FR, ri.ORD
	next := "rem((" + CUR + " + 1), " + N + ")"
	e := newTermEnv(w)
	e.forceInline[ri.full] = false
	type pathInfo struct {
		p      *Path
		conds  []string
		stores map[int]string
		calls  []string
		ret    string
	}
	analyse := func(fn *ssa.Function) ([]pathInfo, bool) {
		paths, complete := enumPathsInl(e, fn, 64, ringHelper(ri, fn))
		var out []pathInfo
		for _, p := range paths {
			pi := pathInfo{p: p, conds: guardStrings(p.Conds), stores: map[int]string{}}
			for _, in := range p.Instrs {
				switch x := in.(type) {
				case *ssa.Store:
					if fa, ok := x.Addr.(*ssa.FieldAddr); ok && isPtrTo(fa.X.Type(), ri.T) {
						if _, dup := pi.stores[fa.Field]; dup {
							pi.stores[fa.Field] += " ; " + p.Term(e, x.Val).String()
						} else {
							pi.stores[fa.Field] = p.Term(e, x.Val).String()
						}
					}
				case *ssa.Call:
					pi.calls = append(pi.calls, calleeName(x))
				case *ssa.Defer:
					pi.calls = append(pi.calls, "defer "+calleeName(x))
				}
			}
			if len(p.Ret.Results) > 0 {
				pi.ret = p.Term(e, p.Ret.Results[0]).String()
			}
			out = append(out, pi)
		}
		return out, complete
	}
	storeStr := func(pi pathInfo) string {
		var ks []int
		for k := range pi.stores {
			ks = append(ks, k)
		}
		sort.Ints(ks)
		var s []string
		for _, k := range ks {
			s = append(s, ri.St.Field(k).Name()+" <- "+pi.stores[k])
		}
		return strings.Join(s, " ; ")
	}
	pathName := func(m string, pi pathInfo) string { return m + " [" + strings.Join(pi.conds, " ∧ ") + "]" }
	// ---- Move
	{
		fn := ri.methods["Move"]
		pis, complete := analyse(fn)
		r.Check(complete && len(pis) == 4, "Q6", "Move: loop-free, four paths (wrap?, mark expired?)", w.Pos(fn.Pos()), fmt.Sprint(len(pis)))
		sawExpire := false
		for _, pi := range pis {
			if pi.stores[ri.fOLD] == "-1" {
				sawExpire = true
			}
		}
		r.Check(sawExpire, "Q3", "Move: the mark expires on some path (when the advanced position reaches it)", w.Pos(fn.Pos()), "")
		for _, pi := range pis {
			wrap := containsStr(pi.conds, "eq(0, "+CUR+")")
			expire := containsStr(pi.conds, eqStr(CUR, OLD))
			name := pathName("Move", pi)
			pos := w.InstrPos(pi.p.Ret)
			r.Check(pi.stores[ri.fCUR] == next, "Q6", name+": position <- (position+1) % n", pos, pi.stores[ri.fCUR])
			wantFull := ""
			if wrap {
				wantFull = "true"
			}
			r.Check(pi.stores[ri.fFULL] == wantFull, "Q6", name+": wrapped flag set exactly when the new position is 0", pos, "wrapped <- "+pi.stores[ri.fFULL])
			wantOld := ""
			if expire {
				wantOld = "-1"
			}
			r.Check(pi.stores[ri.fOLD] == wantOld, "Q3", name+": mark expires (-1) exactly when the advanced position reaches it", pos, "mark <- "+pi.stores[ri.fOLD])
			r.Check(len(pi.calls) >= 2 && pi.calls[0] == "sync.Mutex.Lock" && pi.calls[1] == "defer sync.Mutex.Unlock", "Q6", name+": runs under the ring's lock", pos, strings.Join(pi.calls, ","))
			r.Check(pi.ret == "index("+FR+", "+CUR+")" || strings.HasSuffix(pi.ret, ".Current(recv:motion.FrameLoop)"), "Q6", name+": returns the new current frame", pos, pi.ret)
			// order: the position store precedes both tests (the tests read the advanced position)
			okOrder := true
			var stCur *ssa.Store
			for _, in := range pi.p.Instrs {
				if st, ok := in.(*ssa.Store); ok {
					if fa, ok := st.Addr.(*ssa.FieldAddr); ok && fa.Field == ri.fCUR {
						stCur = st
					}
				}
			}
			for _, g := range pi.p.Conds {
				if stCur == nil || !(stCur.Block() == g.If.Block() || stCur.Block().Dominates(g.If.Block())) {
					okOrder = false
				}
			}
			r.Check(okOrder, "Q3", name+": both tests read the advanced position", pos, "")
		}
	}
	// ---- Current / SetAsOldest / Reset
	{
		pis, _ := analyse(ri.methods["Current"])
		for _, pi := range pis {
			r.Check(pi.ret == "index("+FR+", "+CUR+")" && len(pi.stores) == 0, "Q6", "Current returns frames[position]", w.InstrPos(pi.p.Ret), pi.ret)
		}
		pis, _ = analyse(ri.methods["SetAsOldest"])
		for _, pi := range pis {
			r.Check(len(pi.stores) == 1 && pi.stores[ri.fOLD] == CUR, "Q3", "SetAsOldest: mark <- position, nothing else", w.InstrPos(pi.p.Ret), storeStr(pi))
		}
		r.Check(len(pis) == 1, "Q3", "SetAsOldest is straight-line", "-", fmt.Sprint(len(pis)))
		pis, _ = analyse(ri.methods["Reset"])
		for _, pi := range pis {
			r.Check(pi.stores[ri.fCUR] == "0" && pi.stores[ri.fOLD] == "0" && pi.stores[ri.fFULL] == "false", "Q3", "Reset: position <- 0, mark <- 0, wrapped <- false", w.InstrPos(pi.p.Ret), storeStr(pi))
		}
		r.Check(len(pis) == 1, "Q3", "Reset is straight-line", "-", fmt.Sprint(len(pis)))
	}
	// ---- a ring is self-contained: its constructor and methods touch no package-level variable and register no
	// finalizer (frames shared between rings through a pool would let one ring's history be blanked or overwritten by
	// another ring)
	{
		fns := []*ssa.Function{ri.Ctor}
		for fn := range w.AllFuncs {
			if rv := fn.Signature.Recv(); rv != nil && isPtrTo(rv.Type(), ri.T) && len(fn.Blocks) > 0 {
				fns = append(fns, fn)
			}
		}
		sort.Slice(fns, func(i, j int) bool { return fns[i].String() < fns[j].String() })
		for _, fn := range fns {
			bad := ""
			var at ssa.Instruction
			scan := []*ssa.Function{fn}
			scan = append(scan, fn.AnonFuncs...)
			for _, f := range scan {
				for _, b := range f.Blocks {
					for _, in := range b.Instrs {
						for _, op := range in.Operands(nil) {
							if g, ok := (*op).(*ssa.Global); ok && g.Pkg == ri.Ctor.Pkg {
								bad, at = "package variable "+g.Name(), in
							}
						}
						if c, ok := in.(ssa.CallInstruction); ok {
							if cl := c.Common().StaticCallee(); cl != nil && cl.String() == "runtime.SetFinalizer" {
								bad, at = "runtime.SetFinalizer", in
							}
						}
					}
				}
			}
			pos := w.Pos(fn.Pos())
			if at != nil {
				pos = w.InstrPos(at)
			}
			r.Check(bad == "", "Q2", fn.Name()+": the ring keeps no state outside itself (no package variable, no finalizer)", pos, bad)
		}
	}
	// ---- every slot is a frame of its own: the constructor fills frames[i], for every i, with a frame allocated in that
	// very iteration (one frame hoisted out of the loop would make all slots - the whole history - the same frame)
	{
		ce := newTermEnv(w)
		nFill := 0
		for _, b := range ri.Ctor.Blocks {
			for _, in := range b.Instrs {
				st, ok := in.(*ssa.Store)
				if !ok {
					continue
				}
				ia, ok := st.Addr.(*ssa.IndexAddr)
				if !ok || !typeIs(st.Val.Type(), "github.com/TheCacophonyProject/go-cptv/cptvframe", "Frame") {
					continue
				}
				nFill++
				call, isCall := st.Val.(*ssa.Call)
				fresh := false
				how := ce.termOf(st.Val).String()
				if isCall {
					if okf, _ := provablyNonNil(call, 0); okf && inLoop(call.Block()) && inLoop(b) {
						fresh = true
					}
				}
				idx := ce.termOf(ia.Index)
				full := idx.Op == "rangeidx"
				r.Check(fresh && full, "Q2", "constructor: every slot gets a frame allocated for it (in the filling loop, over the full range)", w.InstrPos(st), "value "+how+" ; index "+idx.String())
			}
		}
		r.Check(nFill >= 1, "Q2", "constructor fills the frame slots", w.Pos(ri.Ctor.Pos()), fmt.Sprint(nFill))
	}
	// ---- CopyRecent
	{
		pis, _ := analyse(ri.methods["CopyRecent"])
		prev := "rem((" + CUR + " + " + N + " + -1), " + N + ")"
		for _, pi := range pis {
			r.Check(pi.ret == "cptvframe.Frame.CreateCopy(index("+FR+", "+prev+"))", "Q6", "CopyRecent returns a fresh copy of frames[(position-1+n) % n]", w.InstrPos(pi.p.Ret), pi.ret)
			r.Check(len(pi.calls) >= 2 && pi.calls[0] == "sync.Mutex.Lock" && pi.calls[1] == "defer sync.Mutex.Unlock" && len(pi.stores) == 0, "Q6", "CopyRecent reads under the ring's lock and modifies nothing", w.InstrPos(pi.p.Ret), strings.Join(pi.calls, ","))
		}
		r.Check(len(pis) == 1, "Q6", "CopyRecent is straight-line", "-", fmt.Sprint(len(pis)))
		// the position is read AFTER the lock is taken: a slot chosen before would no longer be "the frame before the
		// current one" when a Move gets in between (CopyRecent runs on the request goroutines)
		for _, m := range []string{"CopyRecent", "Move"} {
			fn := ri.methods[m]
			out := ringAccessesOutsideLock(fn)
			pos := w.Pos(fn.Pos())
			if len(out) > 0 {
				pos = w.InstrPos(out[0])
			}
			r.Check(len(out) == 0, "Q6", m+": every access to the ring's state happens after the lock is taken", pos, fmt.Sprintf("%d accesses before Lock", len(out)))
		}
	}
	// ---- Oldest
	{
		pis, _ := analyse(ri.methods["Oldest"])
		for _, pi := range pis {
			marked := containsStr(pi.conds, "ne(-1, "+OLD+")")
			want := "index(" + FR + ", " + next + ")"
			if marked {
				want = "index(" + FR + ", " + OLD + ")"
			}
			r.Check(pi.ret == want && len(pi.stores) == 0, "Q6", pathName("Oldest", pi)+": marked frame while marked, else the frame about to be overwritten", w.InstrPos(pi.p.Ret), pi.ret)
		}
		r.Check(len(pis) == 2, "Q6", "Oldest has two paths", "-", fmt.Sprint(len(pis)))
	}
	// ---- GetHistory
	H := "motion.FrameLoop." + ri.full.Name() + "(recv:motion.FrameLoop)"
	{
		pis, _ := analyse(ri.methods["GetHistory"])
		for _, pi := range pis {
			unmarked := containsStr(pi.conds, "eq(-1, "+OLD+")")
			hl := "rem((-1*" + OLD + " + " + CUR + " + " + N + "), " + N + ")"
			want := "slice(" + H + ", (-1*" + hl + " + len(" + H + ") + -1), len(" + H + "))"
			if unmarked {
				want = H
			}
			r.Check(pi.ret == want && len(pi.stores) == 0, "Q4", pathName("GetHistory", pi)+": full history when unmarked, else its last ((position-mark+n) % n)+1 frames", w.InstrPos(pi.p.Ret), pi.ret)
		}
		r.Check(len(pis) == 2, "Q4", "GetHistory has two paths", "-", fmt.Sprint(len(pis)))
	}
	// ---- full history
	{
		pis, complete := analyse(ri.full)
		r.Check(complete && len(pis) == 3, "Q5", "full history: three cases", w.Pos(ri.full.Pos()), fmt.Sprint(len(pis)))
		for _, pi := range pis {
			var copies []string
			for _, in := range pi.p.Instrs {
				if c, ok := in.(*ssa.Call); ok {
					if bi, ok := c.Call.Value.(*ssa.Builtin); ok && bi.Name() == "copy" {
						copies = append(copies, wholeNorm(pi.p.Term(e, c.Call.Args[0])).String()+" <= "+wholeNorm(pi.p.Term(e, c.Call.Args[1])).String())
					}
				}
			}
			atEnd := containsStr(pi.conds, eqStr("("+N+" + -1)", CUR))
			wrapped := containsStr(pi.conds, FULL)
			var wantCopies []string
			var wantRet string
			switch {
			case atEnd:
				wantCopies = []string{ORD + " <= " + FR}
				wantRet = ORD
			case !wrapped:
				wantCopies = []string{ORD + " <= slice(" + FR + ", 0, " + next + ")"}
				wantRet = "slice(" + ORD + ", 0, " + next + ")"
			default:
				wantCopies = []string{ORD + " <= slice(" + FR + ", " + next + ", len(" + FR + "))",
					"slice(" + ORD + ", (-1*" + next + " + " + N + "), len(" + ORD + ")) <= slice(" + FR + ", 0, " + next + ")"}
				wantRet = ORD
			}
			name := pathName("full history", pi)
			r.Check(strings.Join(copies, " | ") == strings.Join(wantCopies, " | "), "Q5", name+": copy segments tile a rotation starting after the position", w.InstrPos(pi.p.Ret), strings.Join(copies, " | "))
			r.Check(pi.ret == wantRet, "Q5", name+": returned slice", w.InstrPos(pi.p.Ret), pi.ret)
		}
	}
	// ---- constructor
	{
		ce := newTermEnv(w)
		ci := ce.useCtor(ri.T, ri.Ctor)
		get := func(fi int) string {
			if ci.Stores[fi] == nil {
				return "<zero>"
			}
			return ci.Stores[fi].String()
		}
		r.Check((get(ri.fCUR) == "0" || get(ri.fCUR) == "<zero>") && (get(ri.fFULL) == "false" || get(ri.fFULL) == "<zero>") && (get(ri.fOLD) == "<zero>" || get(ri.fOLD) == "0"), "Q1", "constructor: position 0, not wrapped, mark 0", w.Pos(ri.Ctor.Pos()),
			fmt.Sprintf("position=%s wrapped=%s mark=%s", get(ri.fCUR), get(ri.fFULL), get(ri.fOLD)))
		r.Check(ri.capTerm == "param:int", "Q2", "constructor: the capacity is the size argument itself (exactly the requested number of slots)", w.Pos(ri.Ctor.Pos()), ri.capTerm)
		r.Check(get(ri.fORD) == "makeslice(param:int)" && strings.Contains(get(ri.fFR), "makeslice(param:int)") || get(ri.fORD) == "makeslice(param:int)", "Q2", "constructor: both slices have n elements", w.Pos(ri.Ctor.Pos()), get(ri.fFR)+" ; "+get(ri.fORD))
	}
	// ---- Q1 / Q2 intervals
	var fns []*ssa.Function
	for fn := range w.AllFuncs {
		if rv := fn.Signature.Recv(); rv != nil && isPtrTo(rv.Type(), ri.T) && len(fn.Blocks) > 0 {
			fns = append(fns, fn)
		}
	}
	sort.Slice(fns, func(i, j int) bool { return fns[i].Name() < fns[j].Name() })
	zero, nm1, n := lin2{0, 0}, lin2{1, -1}, lin2{1, 0}
	ie := newTermEnv(w)
	nIdx := 0
	for _, fn := range fns {
		k := 0
		for _, b := range fn.Blocks {
			oldSet := hasGuard(ie.guardsOf(b), "ne(-1, "+OLD+")")
			for _, in := range b.Instrs {
				switch x := in.(type) {
				case *ssa.Store:
					fa, ok := x.Addr.(*ssa.FieldAddr)
					if !ok || !isPtrTo(fa.X.Type(), ri.T) {
						continue
					}
					t := ie.termOf(x.Val)
					switch fa.Field {
					case ri.fCUR:
						okw, dw := ri.within(t, oldSet, zero, nm1)
						r.Check(okw, "Q1", fn.Name()+": stored position stays in [0, n-1]", w.InstrPos(x), dw)
					case ri.fOLD:
						okw, dw := ri.within(t, oldSet, lin2{0, -1}, nm1)
						r.Check(okw, "Q1", fn.Name()+": stored mark stays in [-1, n-1]", w.InstrPos(x), dw)
					}
				case *ssa.IndexAddr:
					base := ie.termOf(x.X).String()
					if base != FR && base != ORD {
						continue
					}
					k++
					nIdx++
					t := ie.termOf(x.Index)
					okw, dw := ri.within(t, oldSet, zero, nm1)
					r.Check(okw, "Q2", fmt.Sprintf("%s: element index #%d within [0, n-1]", fn.Name(), k), w.InstrPos(x), dw)
				case *ssa.Slice:
					base := ie.termOf(x.X).String()
					if base != FR && base != ORD {
						continue
					}
					k++
					nIdx++
					lo, hi := iv2{zero, zero, true}, iv2{n, n, true}
					if x.Low != nil {
						lo = ri.rangeOf(ie.termOf(x.Low), oldSet)
					}
					if x.High != nil {
						hi = ri.rangeOf(ie.termOf(x.High), oldSet)
					}
					// 0 <= lo <= hi <= n ; lo <= hi is checked on the symbolic forms when both are the same expression or lo = 0 / hi = n
					okb := lo.within(zero, n) && hi.within(zero, n) && (x.Low == nil || x.High == nil)
					r.Check(okb, "Q2", fmt.Sprintf("%s: slice bounds #%d within [0, n]", fn.Name(), k), w.InstrPos(x), fmt.Sprintf("[%s..%s : %s..%s]", lo.lo, lo.hi, hi.lo, hi.hi))
				}
			}
		}
	}
	r.Check(nIdx >= 8, "G4", "index sites found in the ring", "-", fmt.Sprint(nIdx))
	r.Note("slice lower bound len(full)-historyLength >= 0 in GetHistory: by Lemma R (DESIGN.md) from the update forms Q3-Q6; not re-derived by the interval engine")
	_ = FULL
}

func containsStr(ss []string, s string) bool {
	for _, x := range ss {
		if x == s {
			return true
		}
	}
	return false
}

func eqStr(a, b string) string {
	if a > b {
		a, b = b, a
	}
	return "eq(" + a + ", " + b + ")"
}

// checkRingResetAndOldest: the ring facts that "the earliest frame since start-up or the last reset" (C07 K5,
// C09 F5) rests on: Reset puts the mark on slot 0 with position 0 and the wrapped flag cleared, Oldest returns
// the marked slot while marked and otherwise the slot about to be overwritten, SetAsOldest marks the position.
func checkRingResetAndOldest(w *World, r *Report, rule string) {
	ri, err := resolveRing(w)
	if err != nil {
		r.Unknown(rule, "motion.FrameLoop", "-", err.Error())
		return
	}
	e := newTermEnv(w)
	stores := func(fn *ssa.Function) (map[int]string, []*Path) {
		paths, _ := enumPathsInl(e, fn, 16, ringHelper(ri, fn))
		out := map[int]string{}
		for _, p := range paths {
			for _, in := range p.Instrs {
				if st, ok := in.(*ssa.Store); ok {
					if fa, ok := st.Addr.(*ssa.FieldAddr); ok && isPtrTo(fa.X.Type(), ri.T) {
						out[fa.Field] = p.Term(e, st.Val).String()
					}
				}
			}
		}
		return out, paths
	}
	rs, rp := stores(ri.methods["Reset"])
	r.Check(len(rp) == 1 && rs[ri.fCUR] == "0" && rs[ri.fOLD] == "0" && rs[ri.fFULL] == "false", rule, "ring Reset: position <- 0, mark <- slot 0, wrapped <- false (history restarts at the first frame after the reset)", w.Pos(ri.methods["Reset"].Pos()),
		fmt.Sprintf("position <- %s ; mark <- %s ; wrapped <- %s", rs[ri.fCUR], rs[ri.fOLD], rs[ri.fFULL]))
	ss, sp := stores(ri.methods["SetAsOldest"])
	r.Check(len(sp) == 1 && len(ss) == 1 && ss[ri.fOLD] == ri.CUR, rule, "ring SetAsOldest: mark <- position", w.Pos(ri.methods["SetAsOldest"].Pos()), ss[ri.fOLD])
	next := "rem((" + ri.CUR + " + 1), " + ri.N + ")"
	_, op := stores(ri.methods["Oldest"])
	okO := len(op) == 2
	for _, p := range op {
		ret := p.Term(e, p.Ret.Results[0]).String()
		if hasGuard(p.Conds, "ne(-1, "+ri.OLD+")") {
			okO = okO && ret == "index("+ri.FR+", "+ri.OLD+")"
		} else {
			okO = okO && ret == "index("+ri.FR+", "+next+")"
		}
	}
	r.Check(okO, rule, "ring Oldest: the marked slot while marked, otherwise the slot about to be overwritten", w.Pos(ri.methods["Oldest"].Pos()), "")
}

// checkRingHistoryForms: the ring facts C01/C02 assume: GetHistory returns the full history when unmarked and
// otherwise its last ((position-mark+n) % n)+1 frames; the full history is the rotation that ends at the position.
func checkRingHistoryForms(w *World, r *Report, rule string) {
	ri, err := resolveRing(w)
	if err != nil {
		r.Unknown(rule, "motion.FrameLoop", "-", err.Error())
		return
	}
	e := newTermEnv(w)
	N, CUR, OLD, FULL, FR, ORD := ri.N, ri.CUR, ri.OLD, ri.FULL, ri.FR, ri.ORD
	next := "rem((" + CUR + " + 1), " + N + ")"
	H := "motion.FrameLoop." + ri.full.Name() + "(recv:motion.FrameLoop)"
	paths, complete := enumPathsInl(e, ri.methods["GetHistory"], 16, ringHelper(ri, ri.methods["GetHistory"]))
	okH := complete && len(paths) == 2
	var got []string
	for _, p := range paths {
		ret := p.Term(e, p.Ret.Results[0]).String()
		got = append(got, "["+strings.Join(guardStrings(p.Conds), " ∧ ")+"] => "+ret)
		hl := "rem((-1*" + OLD + " + " + CUR + " + " + N + "), " + N + ")"
		want := "slice(" + H + ", (-1*" + hl + " + len(" + H + ") + -1), len(" + H + "))"
		if containsStr(guardStrings(p.Conds), "eq(-1, "+OLD+")") {
			want = H
		}
		if ret != want || len(p.Conds) != 1 {
			okH = false
		}
	}
	r.Check(okH, rule, "ring GetHistory: full history when unmarked, else its last ((position-mark+n) % n)+1 frames — bounded by the mark in every ring phase", w.Pos(ri.methods["GetHistory"].Pos()), strings.Join(got, " | "))
	fp, fcomplete := enumPaths(e, ri.full, 16)
	okF := fcomplete && len(fp) == 3
	var fgot []string
	for _, p := range fp {
		var copies []string
		for _, in := range p.Instrs {
			if c, ok := in.(*ssa.Call); ok {
				if bi, ok := c.Call.Value.(*ssa.Builtin); ok && bi.Name() == "copy" {
					copies = append(copies, wholeNorm(p.Term(e, c.Call.Args[0])).String()+" <= "+wholeNorm(p.Term(e, c.Call.Args[1])).String())
				}
			}
		}
		ret := p.Term(e, p.Ret.Results[0]).String()
		conds := guardStrings(p.Conds)
		var wantCopies []string
		var wantRet string
		switch {
		case containsStr(conds, eqStr("("+N+" + -1)", CUR)):
			wantCopies, wantRet = []string{ORD + " <= " + FR}, ORD
		case !containsStr(conds, FULL):
			wantCopies, wantRet = []string{ORD + " <= slice(" + FR + ", 0, " + next + ")"}, "slice("+ORD+", 0, "+next+")"
		default:
			wantCopies = []string{ORD + " <= slice(" + FR + ", " + next + ", len(" + FR + "))", "slice(" + ORD + ", (-1*" + next + " + " + N + "), len(" + ORD + ")) <= slice(" + FR + ", 0, " + next + ")"}
			wantRet = ORD
		}
		fgot = append(fgot, strings.Join(copies, " ; ")+" => "+ret)
		if strings.Join(copies, " | ") != strings.Join(wantCopies, " | ") || ret != wantRet {
			okF = false
		}
	}
	r.Check(okF, rule, "ring full history: frames[0..position] before the first wrap, else the rotation frames[position+1..] ++ frames[..position]", w.Pos(ri.full.Pos()), strings.Join(fgot, " | "))
}

// checkRingMove: the ring advance every client of the ring relies on: position <- (position+1) % n, the
// wrapped flag is set when the position returns to 0, the mark expires exactly when the advanced position
// reaches it, all under the ring's lock.
func checkRingMove(w *World, r *Report, rule string) {
	ri, err := resolveRing(w)
	if err != nil {
		r.Unknown(rule, "motion.FrameLoop", "-", err.Error())
		return
	}
	e := newTermEnv(w)
	fn := ri.methods["Move"]
	paths, complete := enumPathsInl(e, fn, 64, ringHelper(ri, fn))
	next := "rem((" + ri.CUR + " + 1), " + ri.N + ")"
	ok := complete && len(paths) == 4
	var descr []string
	for _, p := range paths {
		st := map[int]string{}
		for _, in := range p.Instrs {
			if s, isSt := in.(*ssa.Store); isSt {
				if fa, isFa := s.Addr.(*ssa.FieldAddr); isFa && isPtrTo(fa.X.Type(), ri.T) {
					st[fa.Field] = p.Term(e, s.Val).String()
				}
			}
		}
		conds := guardStrings(p.Conds)
		wrap := containsStr(conds, "eq(0, "+ri.CUR+")")
		expire := containsStr(conds, eqStr(ri.CUR, ri.OLD))
		wantFull, wantOld := "", ""
		if wrap {
			wantFull = "true"
		}
		if expire {
			wantOld = "-1"
		}
		if st[ri.fCUR] != next || st[ri.fFULL] != wantFull || st[ri.fOLD] != wantOld {
			ok = false
		}
		descr = append(descr, fmt.Sprintf("[%s] position<-%s wrapped<-%s mark<-%s", strings.Join(conds, " ∧ "), st[ri.fCUR], st[ri.fFULL], st[ri.fOLD]))
	}
	r.Check(ok, rule, "ring Move: position <- (position+1) % n; wrapped set at 0; the mark expires exactly when the advanced position reaches it", w.Pos(fn.Pos()), strings.Join(descr, " | "))
}

// checkRingCapacityExact: the ring's constructor makes exactly as many slots as it is asked for (the capacity field is
// the size argument itself). A constructor that rounds the size up (or down) silently changes how far back a recording
// reaches and which frame is "gap frames earlier".
func checkRingCapacityExact(w *World, r *Report, rule string) {
	ri, err := resolveRing(w)
	if err != nil {
		r.Unknown(rule, "motion.FrameLoop", "-", err.Error())
		return
	}
	r.Check(ri.capTerm == "param:int", rule, "ring constructor: the capacity is the size argument itself (exactly the requested number of slots)", w.Pos(ri.Ctor.Pos()), ri.capTerm)
}

// ringHelper: unexported loop-free methods of the ring other than the full-history helper are unfolded into the method
// under analysis (an extracted "advance" step, an extracted index computation).
func ringHelper(ri *ringInfo, fn *ssa.Function) func(*ssa.Function) bool {
	same := sameReceiverHelperOf(fn)
	return func(c *ssa.Function) bool { return c != ri.full && same(c) }
}

// ringAccessesOutsideLock: loads/stores of receiver fields of a locking method that are not dominated by its Lock call.
func ringAccessesOutsideLock(fn *ssa.Function) []ssa.Instruction {
	var lock ssa.Instruction
	for _, b := range fn.Blocks {
		for _, in := range b.Instrs {
			if c, ok := in.(*ssa.Call); ok && lock == nil {
				if cl := c.Call.StaticCallee(); cl != nil && cl.String() == "(*sync.Mutex).Lock" {
					lock = in
				}
			}
		}
	}
	var out []ssa.Instruction
	if lock == nil || len(fn.Params) == 0 {
		return out
	}
	after := func(in ssa.Instruction) bool {
		if in.Block() == lock.Block() {
			return instrIndex(in) > instrIndex(lock)
		}
		return lock.Block().Dominates(in.Block())
	}
	for _, b := range fn.Blocks {
		for _, in := range b.Instrs {
			var addr ssa.Value
			switch x := in.(type) {
			case *ssa.UnOp:
				if x.Op == token.MUL {
					addr = x.X
				}
			case *ssa.Store:
				addr = x.Addr
			}
			if fa, ok := addr.(*ssa.FieldAddr); ok && fa.X == ssa.Value(fn.Params[0]) && !after(in) {
				out = append(out, in)
			}
		}
	}
	return out
}

// wholeNorm: x[:] (= x[0:len(x)]) is x.
func wholeNorm(t *Term) *Term {
	if t != nil && t.Op == "slice" && len(t.Args) == 3 && t.Args[1].String() == "0" && t.Args[2].String() == "len("+t.Args[0].String()+")" {
		return wholeNorm(t.Args[0])
	}
	return t
}
