package main

// Component model of motion.MotionProcessor for the E2 fix-point. Everything except
// the observer table below is read off the SSA form of the current tree.

import (
	"fmt"
	"go/types"
	"sort"
	"strings"

	"golang.org/x/tools/go/ssa"
)

const (
	roleMotion = iota
	roleContinuous
	roleTest
)

type motionModel struct {
	C        *Component
	ringFld  int
	detFld   int
	parseFld int
	winFld   int
	err      error
}

func recorderIface(w *World) *types.Named {
	return w.NamedType("recorder", "Recorder")
}

// buildMotionComponent resolves the roles structurally (G2).
func buildMotionComponent(w *World, fault bool) (*motionModel, error) {
	pkg := w.Pkg("motion")
	if pkg == nil {
		return nil, fmt.Errorf("package motion not loaded")
	}
	T := w.NamedType("motion", "MotionProcessor")
	if T == nil {
		return nil, fmt.Errorf("type motion.MotionProcessor not found")
	}
	rec := recorderIface(w)
	if rec == nil {
		return nil, fmt.Errorf("interface recorder.Recorder not found")
	}
	c := &Component{W: w, Pkg: pkg, T: T, St: T.Underlying().(*types.Struct), Name: "motion.MotionProcessor",
		RoleNames: []string{"motion", "continuous", "test"}, SinkField: map[int]int{}, CtorSink: map[int]int{}, Fault: fault}
	m := &motionModel{C: c, ringFld: -1, detFld: -1, parseFld: -1, winFld: -1}
	// constructor: the package function returning *MotionProcessor with three Recorder parameters
	var ctors []*ssa.Function
	for _, mem := range pkg.Members {
		fn, ok := mem.(*ssa.Function)
		if !ok || fn.Signature.Results().Len() != 1 || !isPtrTo(fn.Signature.Results().At(0).Type(), T) {
			continue
		}
		ctors = append(ctors, fn)
	}
	if len(ctors) != 1 {
		return nil, fmt.Errorf("expected exactly one constructor of MotionProcessor, found %d", len(ctors))
	}
	c.Ctor = ctors[0]
	role := 0
	for i, p := range c.Ctor.Params {
		if types.Identical(p.Type(), rec) {
			if role >= 3 {
				return nil, fmt.Errorf("constructor has more than three recorder.Recorder parameters")
			}
			c.CtorSink[i] = role
			role++
		}
	}
	if role != 3 {
		return nil, fmt.Errorf("constructor has %d recorder.Recorder parameters, expected 3 (motion, continuous, test)", role)
	}
	// sink fields: fields initialised from those parameters
	for _, b := range c.Ctor.Blocks {
		for _, in := range b.Instrs {
			st, ok := in.(*ssa.Store)
			if !ok {
				continue
			}
			fa, ok := st.Addr.(*ssa.FieldAddr)
			if !ok || !isPtrTo(fa.X.Type(), T) {
				continue
			}
			for pi, r := range c.CtorSink {
				if st.Val == ssa.Value(c.Ctor.Params[pi]) {
					c.SinkField[fa.Field] = r
				}
			}
		}
	}
	if len(c.SinkField) != 3 {
		return nil, fmt.Errorf("could not resolve the three sink fields from the constructor (found %d)", len(c.SinkField))
	}
	for i := 0; i < c.St.NumFields(); i++ {
		ft := c.St.Field(i).Type()
		if _, isSink := c.SinkField[i]; !isSink && types.Identical(ft, rec) {
			return nil, fmt.Errorf("field %s has type recorder.Recorder but is not wired from a constructor parameter", c.St.Field(i).Name())
		}
		switch {
		case typeIs(ft, modPath+"/motion", "FrameLoop"):
			if m.ringFld >= 0 {
				return nil, fmt.Errorf("more than one FrameLoop field")
			}
			m.ringFld = i
		case typeIs(ft, modPath+"/motion", "FrameParser"):
			m.parseFld = i
		case typeIs(ft, "github.com/TheCacophonyProject/window", "Window"):
			m.winFld = i
		default:
			if hasMethod(w, ft, "Detect") {
				m.detFld = i
			} else if m.winFld < 0 && embedsWindow(ft) && (hasMethod(w, ft, "Active") || hasMethod(w, types.NewPointer(ft), "Active")) {
				// a wrapper around the configured window (checked for freshness in C04.S7)
				m.winFld = i
			}
		}
	}
	if m.ringFld < 0 || m.detFld < 0 || m.parseFld < 0 || m.winFld < 0 {
		return nil, fmt.Errorf("could not resolve ring/detector/parser/window fields (%d,%d,%d,%d)", m.ringFld, m.detFld, m.parseFld, m.winFld)
	}
	c.resolveTracking()
	// entry points: exported methods of *T
	ms := w.Prog.MethodSets.MethodSet(types.NewPointer(T))
	for i := 0; i < ms.Len(); i++ {
		sel := ms.At(i)
		if !sel.Obj().Exported() {
			continue
		}
		fn := w.Prog.MethodValue(sel)
		if fn == nil || len(fn.Blocks) == 0 {
			continue
		}
		c.Entries = append(c.Entries, Entry{Name: fn.Name(), Fn: fn, SetField: -1})
	}
	sort.Slice(c.Entries, func(i, j int) bool { return c.Entries[i].Name < c.Entries[j].Name })
	// foreign stores to exported fields become events
	for fn := range w.AllFuncs {
		if fn.Pkg == pkg || len(fn.Blocks) == 0 {
			continue
		}
		for _, b := range fn.Blocks {
			for _, in := range b.Instrs {
				st, ok := in.(*ssa.Store)
				if !ok {
					continue
				}
				fa, ok := st.Addr.(*ssa.FieldAddr)
				if !ok || !isPtrTo(fa.X.Type(), T) {
					continue
				}
				if c.Tracked[fa.Field] == tNone {
					continue
				}
				cv, isC := st.Val.(*ssa.Const)
				if !isC {
					return nil, fmt.Errorf("%s: non-constant store to tracked field %s from outside the package", w.InstrPos(in), c.fieldName(fa.Field))
				}
				v := (&tsRun{C: c}).get(&frame{regs: map[ssa.Value]val{}}, cv)
				dv, ok := c.toDomain(fa.Field, v)
				if !ok {
					return nil, fmt.Errorf("%s: store to tracked field %s outside its domain", w.InstrPos(in), c.fieldName(fa.Field))
				}
				name := fmt.Sprintf("set-%s=%s", c.fieldName(fa.Field), c.fieldValString(fa.Field, dv))
				dup := false
				for _, e := range c.Entries {
					if e.Name == name {
						dup = true
					}
				}
				if !dup {
					c.Entries = append(c.Entries, Entry{Name: name, SetField: fa.Field, SetVal: dv})
				}
			}
		}
	}
	c.OnEntry = func(s *tsState, e *Entry) {}
	c.InitPers = map[string]int8{"slot": 0}
	c.OnObjCall = m.onObjCall
	c.OnSinkEvent = m.onSinkEvent
	c.OnExit = m.onExit
	return m, nil
}

// embedsWindow: a struct one of whose fields is the library's window.Window
func embedsWindow(t types.Type) bool {
	st, ok := t.Underlying().(*types.Struct)
	if !ok {
		return false
	}
	for i := 0; i < st.NumFields(); i++ {
		if typeIs(st.Field(i).Type(), "github.com/TheCacophonyProject/window", "Window") {
			return true
		}
	}
	return false
}

func hasMethod(w *World, t types.Type, name string) bool {
	ms := w.Prog.MethodSets.MethodSet(t)
	for i := 0; i < ms.Len(); i++ {
		if ms.At(i).Obj().Name() == name {
			return true
		}
	}
	return false
}

const tokCur = 1

func (m *motionModel) onObjCall(a *tsRun, s *tsState, f *frame, in ssa.CallInstruction, fi int, method string) (bool, bool) {
	cc := in.Common()
	switch fi {
	case m.parseFld:
		if method != "()" {
			return false, false
		}
		dst := "other"
		if len(cc.Args) >= 2 && a.get(f, cc.Args[1]).k == kTok {
			dst = "cur"
		}
		a.record(s, "obs:parse", -1, -1, "dst="+dst, in)
		bump(s.ghosts, "parsed")
		a.forkResult(s, in, []val{vnil(false), {k: kNil, n: 1, tag: "parse-err"}}, []string{"parse=ok", "parse=BAD"}, func(n *tsState, i int) {
			n.dec["parse"] = int8(1 - i)
		})
		return true, true
	case m.detFld:
		if method == "Detect" {
			arg := "other"
			if len(cc.Args) >= 2 && a.get(f, cc.Args[1]).k == kTok {
				arg = "cur"
			}
			a.record(s, "obs:detect", -1, -1, arg, in)
			bump(s.ghosts, "detectCalls")
			a.forkResult(s, in, []val{vbool(false), vbool(true)}, []string{"detect=F", "detect=T"}, func(n *tsState, i int) {
				n.dec["detect"] = int8(i)
				// remember the sink state at detection time
				n.ghosts["openAtDetect"] = n.sinks[roleMotion]
			})
			return true, true
		}
		a.record(s, "obj:detector."+method, -1, -1, "", in)
		return true, false
	case m.winFld:
		if method == "Active" {
			a.record(s, "obs:window", -1, -1, "", in)
			a.forkResult(s, in, []val{vbool(false), vbool(true)}, []string{"window=closed", "window=open"}, func(n *tsState, i int) {
				n.dec["window"] = int8(i)
			})
			return true, true
		}
		return false, false
	case m.ringFld:
		vin, _ := in.(ssa.Value)
		switch method {
		case "Current":
			a.record(s, "ring:Current", -1, -1, "", in)
			if vin != nil {
				f.regs[vin] = val{k: kTok, n: tokCur}
			}
		case "Move":
			a.record(s, "ring:Move", -1, -1, "", in)
			if s.sinks[roleMotion] == 1 && s.pers["slot"] == 0 {
				a.violation(s, in.(ssa.Instruction), "O1", "ring-moved-with-current-frame-unwritten", "the pre-trigger ring advances while the motion recording is open and the current frame has not been written to it (frame skipped)")
			}
			s.pers["slot"] = 0
			s.ghosts["markedWhileOpen"] = 0
			bump(s.ghosts, "moved")
			if vin != nil {
				f.regs[vin] = val{k: kTok, n: tokCur}
			}
		case "SetAsOldest":
			a.record(s, "ring:SetAsOldest", -1, -1, "", in)
			if s.pers["slot"] != 0 {
				a.violation(s, in.(ssa.Instruction), "O2", "mark-on-recorded-slot", "SetAsOldest marks a slot whose frame was already written to the motion recording (it would be written again)")
			}
			s.ghosts["marked"] = 1
			if s.sinks[roleMotion] == 1 {
				// marking just before the stop is as good as just after it, provided nothing is written or moved in between
				s.ghosts["markedWhileOpen"] = 1
			}
			if vin != nil {
				f.regs[vin] = val{k: kTok, n: tokCur}
			}
		case "GetHistory":
			a.record(s, "ring:GetHistory", -1, -1, "", in)
			if s.sinks[roleMotion] == 1 && s.ghosts["wcur:motion"] == 0 && s.ghosts["wother:motion"] == 0 {
				s.ghosts["histAfterStart"] = 1
			}
		default:
			a.record(s, "ring:"+method, -1, -1, "", in)
		}
		return true, false
	}
	return false, false
}

func (m *motionModel) onSinkEvent(a *tsRun, s *tsState, f *frame, in ssa.CallInstruction, role int, method string) {
	rn := a.C.RoleNames[role]
	cc := in.Common()
	switch method {
	case "WriteFrame":
		if role == roleMotion {
			s.ghosts["markedWhileOpen"] = 0
		}
		if len(cc.Args) >= 1 && a.get(f, cc.Args[len(cc.Args)-1]).k == kTok {
			if role == roleMotion {
				if s.pers["slot"] == 1 {
					a.violation(s, in.(ssa.Instruction), "O1", "current-frame-written-twice", "the current frame is written to the motion recording twice")
				}
				if s.sinks[role] == 1 {
					s.pers["slot"] = 1
				}
			}
			bump(s.ghosts, "wcur:"+rn)
		} else {
			bump(s.ghosts, "wother:"+rn)
		}
	case "StartRecording":
		bump(s.ghosts, "start:"+rn)
	case "StopRecording":
		if s.sinks[role] == 1 {
			bump(s.ghosts, "stop:"+rn)
			if role == roleMotion {
				if s.ghosts["markedWhileOpen"] != 1 {
					s.ghosts["marked"] = 0 // a mark is required after this stop
				}
				s.ghosts["markedWhileOpen"] = 0
				s.ghosts["needMark"] = 1
			}
		}
	}
}

func (m *motionModel) onExit(a *tsRun, s *tsState, e *Entry) {
	if s.pers["slot"] != 0 {
		a.violation(s, nil, "O4", "entry="+e.Name+"/current-slot-recorded-but-ring-not-advanced", "a frame call ends with the current ring slot already written to the recording and the ring not advanced")
	}
	if s.ghosts["needMark"] == 1 && s.ghosts["marked"] != 1 {
		a.violation(s, nil, "O2", "entry="+e.Name+"/stop-without-mark", "the motion recording was stopped without marking the next slot as oldest (frames would be recorded twice)")
	}
}

// motionRuns caches the explorations per world.
type motionRuns struct {
	fault, nofault *tsRun
	model          *motionModel
	sites          []*wiringSite
}

var motionCache = map[*World]*motionRuns{}

func getMotionRuns(w *World) (*motionRuns, error) {
	if r, ok := motionCache[w]; ok {
		return r, nil
	}
	r := &motionRuns{}
	for _, fault := range []bool{true, false} {
		m, err := buildMotionComponent(w, fault)
		if err != nil {
			return nil, err
		}
		run := newRun(m.C)
		// one exploration per production wiring site: the sinks that site provides and the
		// entry points invoked on the processor it creates (all entries if it escapes)
		sites := motionWiringSites(w, m.C)
		if len(sites) == 0 {
			return nil, fmt.Errorf("no production call of %s found", m.C.Ctor.Name())
		}
		all := m.C.Entries
		for _, st := range sites {
			st := st
			var es []Entry
			for _, e := range all {
				if st.Escapes || e.Fn == nil || st.Entries[e.Name] {
					es = append(es, e)
				}
			}
			m.C.Entries = es
			run.Explore(func(s *tsState) bool {
				for r := 0; r < 3; r++ {
					if st.Present[r] >= 0 && s.present[r] != st.Present[r] {
						return false
					}
				}
				return true
			})
		}
		m.C.Entries = all
		r.sites = sites
		if fault {
			r.fault = run
			r.model = m
		} else {
			r.nofault = run
		}
	}
	motionCache[w] = r
	return r, nil
}

// reportRun transfers engine-level violations of the given rules and G3 reasons into the report.
func reportRun(r *Report, run *tsRun, rules map[string]string, g3rule string) {
	var keys []string
	for k := range run.Viol {
		keys = append(keys, k)
	}
	sort.Strings(keys)
	for _, k := range keys {
		v := run.Viol[k]
		if to, ok := rules[v.Rule]; ok {
			r.Fail(to, v.Construct, v.Pos, v.Detail, v.Witness)
		}
	}
	var us []string
	for k := range run.Undecided {
		us = append(us, k)
	}
	sort.Strings(us)
	for _, k := range us {
		r.Unknown(g3rule, "fix-point/"+k, run.Undecided[k], "the component fix-point could not model this construct: "+k)
	}
}

func describeCtx(c *Ctx) string {
	var parts []string
	var ks []string
	for k := range c.Fields {
		ks = append(ks, k)
	}
	sort.Strings(ks)
	for _, k := range ks {
		parts = append(parts, k+"="+c.Fields[k])
	}
	parts = append(parts, fmt.Sprintf("sinks=%v", c.Sinks))
	if len(c.Dec) > 0 {
		parts = append(parts, "decisions{"+kvString(c.Dec)+"}")
	}
	if len(c.Ghosts) > 0 {
		parts = append(parts, "ghosts{"+kvString(c.Ghosts)+"}")
	}
	return strings.Join(parts, " ")
}

// ---- wiring sites -------------------------------------------------------------

// wiringSite describes one production call of the constructor: which sinks are provably
// present / absent, and which entry points are invoked on the processor it creates
// (simple flow-insensitive alias closure; if the value escapes, all entries are assumed).
type wiringSite struct {
	Fn      *ssa.Function
	Call    *ssa.Call
	Present [3]int8 // 1 present, 0 absent, -1 unknown
	Why     [3]string
	Entries map[string]bool
	Escapes bool
}

func motionWiringSites(w *World, c *Component) []*wiringSite {
	var sites []*wiringSite
	for _, fn := range w.RepoFuncs() {
		for _, b := range fn.Blocks {
			for _, in := range b.Instrs {
				call, ok := in.(*ssa.Call)
				if !ok || call.Call.StaticCallee() != c.Ctor {
					continue
				}
				s := &wiringSite{Fn: fn, Call: call, Entries: map[string]bool{}}
				for pi, role := range c.CtorSink {
					arg := call.Call.Args[pi]
					if ok, why := provablyNonNil(arg, 0); ok {
						s.Present[role], s.Why[role] = 1, why
					} else if isNilConst(arg) {
						s.Present[role], s.Why[role] = 0, "constant nil"
					} else {
						s.Present[role], s.Why[role] = -1, why
					}
				}
				aliasEntries(w, c, call, s)
				sites = append(sites, s)
			}
		}
	}
	sort.Slice(sites, func(i, j int) bool { return sites[i].Fn.String() < sites[j].Fn.String() })
	return sites
}

func isNilConst(v ssa.Value) bool {
	for {
		switch x := v.(type) {
		case *ssa.MakeInterface:
			v = x.X
			continue
		case *ssa.ChangeInterface:
			v = x.X
			continue
		case *ssa.Const:
			return x.Value == nil
		}
		return false
	}
}

func aliasEntries(w *World, c *Component, root ssa.Value, s *wiringSite) {
	seen := map[ssa.Value]bool{}
	cells := map[ssa.Value]bool{} // allocs / globals holding the processor
	var work []ssa.Value
	push := func(v ssa.Value) {
		if v != nil && !seen[v] {
			seen[v] = true
			work = append(work, v)
		}
	}
	addCell := func(cell ssa.Value) {
		if cells[cell] {
			return
		}
		cells[cell] = true
		switch cv := cell.(type) {
		case *ssa.Global:
			for fn := range w.AllFuncs {
				for _, b := range fn.Blocks {
					for _, in := range b.Instrs {
						if u, ok := in.(*ssa.UnOp); ok && u.X == ssa.Value(cv) {
							push(u)
						}
					}
				}
			}
		default:
			if refs := cell.Referrers(); refs != nil {
				for _, rf := range *refs {
					switch x := rf.(type) {
					case *ssa.UnOp:
						push(x)
					case *ssa.MakeClosure:
						// captured variable: find the matching free variable
						fn := x.Fn.(*ssa.Function)
						for i, bnd := range x.Bindings {
							if bnd == cell {
								fv := fn.FreeVars[i]
								if r2 := fv.Referrers(); r2 != nil {
									for _, q := range *r2 {
										if u, ok := q.(*ssa.UnOp); ok {
											push(u)
										}
									}
								}
							}
						}
					}
				}
			}
		}
	}
	push(root)
	for len(work) > 0 {
		v := work[len(work)-1]
		work = work[:len(work)-1]
		refs := v.Referrers()
		if refs == nil {
			continue
		}
		for _, rf := range *refs {
			switch x := rf.(type) {
			case *ssa.Phi:
				push(x)
			case *ssa.ChangeType:
				push(x)
			case *ssa.Store:
				if x.Val != v {
					continue
				}
				switch ad := x.Addr.(type) {
				case *ssa.Global:
					addCell(ad)
				case *ssa.Alloc:
					addCell(ad)
				default:
					s.Escapes = true
				}
			case ssa.CallInstruction:
				cc := x.Common()
				callee := cc.StaticCallee()
				if callee != nil && callee.Signature.Recv() != nil && len(cc.Args) > 0 && cc.Args[0] == v && isPtrTo(callee.Signature.Recv().Type(), c.T) {
					s.Entries[callee.Name()] = true
					for _, a := range cc.Args[1:] {
						if a == v {
							s.Escapes = true
						}
					}
				} else {
					s.Escapes = true
				}
			case *ssa.BinOp, *ssa.DebugRef, *ssa.FieldAddr:
				if fa, ok := x.(*ssa.FieldAddr); ok {
					// direct field access from outside: handled by the foreign-store scan
					_ = fa
				}
			case *ssa.Return:
				// returned to the caller: follow call sites of this function
				fn := x.Parent()
				found := false
				for f2 := range w.AllFuncs {
					for _, b := range f2.Blocks {
						for _, in := range b.Instrs {
							if cl, ok := in.(*ssa.Call); ok && cl.Call.StaticCallee() == fn {
								push(cl)
								found = true
							}
						}
					}
				}
				if !found {
					s.Escapes = true
				}
			default:
				s.Escapes = true
			}
		}
	}
}
