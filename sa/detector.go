package main

// Resolution of the motion detector's roles (G2: by constructor provenance, not by name)
// and the pixel-access census used by C07, C08, C09, C15.

import (
	"fmt"
	"go/token"
	"go/types"
	"sort"
	"strings"

	"golang.org/x/tools/go/ssa"
)

const cfgMotion = "@param:config.ThermalMotion"

type detInfo struct {
	W      *World
	T      *types.Named
	St     *types.Struct
	Ctor   *ssa.Function
	CI     *ctorInfo
	Env    *termEnv
	Role   map[string]int // role -> field index
	Detect *ssa.Function
	Funcs  []*ssa.Function // methods of the detector + pure helpers they call (repo)
	Err    error
}

func (d *detInfo) leaf(role string) string {
	fi, ok := d.Role[role]
	if !ok {
		return "<unresolved " + role + ">"
	}
	return "motion.motionDetector." + d.St.Field(fi).Name() + "@recv:motion.motionDetector"
}
func (d *detInfo) fname(role string) string {
	fi, ok := d.Role[role]
	if !ok {
		return "<unresolved " + role + ">"
	}
	return d.St.Field(fi).Name()
}

var detCache = map[*World]*detInfo{}

func getDetector(w *World) *detInfo {
	if d, ok := detCache[w]; ok {
		return d
	}
	d := &detInfo{W: w, Role: map[string]int{}}
	detCache[w] = d
	pkg := w.Pkg("motion")
	if pkg == nil {
		d.Err = fmt.Errorf("package motion not loaded")
		return d
	}
	for _, mem := range pkg.Members {
		t, ok := mem.(*ssa.Type)
		if !ok {
			continue
		}
		n, ok := t.Type().(*types.Named)
		if !ok {
			continue
		}
		if _, isStruct := n.Underlying().(*types.Struct); !isStruct {
			continue
		}
		if fn := findMethod(w.Prog, n, "Detect"); fn != nil && fn.Signature.Results().Len() == 1 {
			d.T, d.Detect = n, fn
		}
	}
	if d.T == nil {
		d.Err = fmt.Errorf("no struct type with a Detect method in package motion")
		return d
	}
	d.St = d.T.Underlying().(*types.Struct)
	for _, mem := range pkg.Members {
		if fn, ok := mem.(*ssa.Function); ok && fn.Signature.Results().Len() == 1 && isPtrTo(fn.Signature.Results().At(0).Type(), d.T) {
			d.Ctor = fn
		}
	}
	if d.Ctor == nil {
		d.Err = fmt.Errorf("constructor of the detector not found")
		return d
	}
	d.Env = newTermEnv(w)
	d.CI = d.Env.useCtor(d.T, d.Ctor)
	want := map[string]string{
		"start":         "config.ThermalMotion.EdgePixels" + cfgMotion,
		"rowStop":       "(-1*config.ThermalMotion.EdgePixels" + cfgMotion + " + cptvframe.CameraSpec.ResY())",
		"columnStop":    "(-1*config.ThermalMotion.EdgePixels" + cfgMotion + " + cptvframe.CameraSpec.ResX())",
		"tempThresh":    "config.ThermalMotion.TempThresh" + cfgMotion,
		"tempThreshMin": "config.ThermalMotion.TempThreshMin" + cfgMotion,
		"tempThreshMax": "config.ThermalMotion.TempThreshMax" + cfgMotion,
		"deltaThresh":   "config.ThermalMotion.DeltaThresh" + cfgMotion,
		"countThresh":   "config.ThermalMotion.CountThresh" + cfgMotion,
		"warmerOnly":    "config.ThermalMotion.WarmerOnly" + cfgMotion,
		"useOneDiff":    "config.ThermalMotion.UseOneDiffOnly" + cfgMotion,
		"dynamicThresh": "config.ThermalMotion.DynamicThreshold" + cfgMotion,
		"previewFrames": "param:int",
	}
	for fi, t := range d.CI.Stores {
		s := t.String()
		for role, wv := range want {
			if s == wv {
				if _, dup := d.Role[role]; dup {
					d.Err = fmt.Errorf("two fields hold %s", role)
				}
				d.Role[role] = fi
			}
		}
		switch {
		case strings.Contains(s, "NewFrameLoop(") && strings.Contains(s, "FrameCompareGap"):
			d.Role["compareRing"] = fi
			d.Role["compareRingSize:"+s] = fi
		case strings.Contains(s, "NewFrameLoop(2,"):
			d.Role["diffRing"] = fi
		case strings.Contains(s, "cptvframe.NewFrame("):
			d.Role["background"] = fi
		case strings.HasPrefix(s, "makeslice("):
			d.Role["weights"] = fi
		}
	}
	// the background frame may be allocated by a helper the constructor calls: the one *Frame field of the detector
	// that some method of the detector assigns a freshly allocated frame to
	if _, ok := d.Role["background"]; !ok {
		cands := map[int]bool{}
		for fn := range w.AllFuncs {
			if fn.Pkg != pkg || fn.Signature.Recv() == nil || !isPtrTo(fn.Signature.Recv().Type(), d.T) {
				continue
			}
			for _, b := range fn.Blocks {
				for _, in := range b.Instrs {
					st, ok := in.(*ssa.Store)
					if !ok {
						continue
					}
					fa, ok := st.Addr.(*ssa.FieldAddr)
					if !ok || !isPtrTo(fa.X.Type(), d.T) {
						continue
					}
					if c, ok := st.Val.(*ssa.Call); ok && strings.HasSuffix(calleeName(c), "cptvframe.NewFrame") {
						cands[fa.Field] = true
					}
				}
			}
		}
		if len(cands) == 1 {
			for fi := range cands {
				d.Role["background"] = fi
			}
		}
	}
	// the per-pixel weights: the one [][]float32 field
	if _, ok := d.Role["weights"]; !ok {
		var cands []int
		for fi := 0; fi < d.St.NumFields(); fi++ {
			if d.St.Field(fi).Type().String() == "[][]float32" {
				cands = append(cands, fi)
			}
		}
		if len(cands) == 1 {
			d.Role["weights"] = cands[0]
		}
	}
	// the working threshold: the only uint16 field that is written outside the constructor (the dynamic
	// threshold computation); its initial value is checked separately (C07.K2)
	if _, ok := d.Role["tempThresh"]; !ok {
		cands := []int{}
		for fi := 0; fi < d.St.NumFields(); fi++ {
			if bt, ok := d.St.Field(fi).Type().Underlying().(*types.Basic); ok && bt.Kind() == types.Uint16 && d.CI.Mutable[fi] {
				cands = append(cands, fi)
			}
		}
		if len(cands) == 1 {
			d.Role["tempThresh"] = cands[0]
		}
	}
	// numPixels: float field whose term mentions rowStop/columnStop differences
	for fi, t := range d.CI.Stores {
		if isFloat(d.St.Field(fi).Type()) {
			d.Role["numPixels"] = fi
			d.Role["numPixelsTerm:"+t.String()] = fi
		}
	}
	// mutable bools / ints by behaviour are resolved by the rules that need them
	// functions: methods of the detector
	seen := map[*ssa.Function]bool{}
	var walk func(fn *ssa.Function)
	walk = func(fn *ssa.Function) {
		if fn == nil || seen[fn] || len(fn.Blocks) == 0 || !w.IsRepoFunc(fn) {
			return
		}
		seen[fn] = true
		d.Funcs = append(d.Funcs, fn)
		for _, b := range fn.Blocks {
			for _, in := range b.Instrs {
				if ci, ok := in.(ssa.CallInstruction); ok {
					if callee := ci.Common().StaticCallee(); callee != nil {
						// stay inside the detector: its own methods and free helpers of the package
						if callee.Pkg == pkg {
							if rv := callee.Signature.Recv(); rv == nil || isPtrTo(rv.Type(), d.T) || types.Identical(rv.Type(), d.T) {
								walk(callee)
							}
						}
					}
				}
			}
		}
	}
	walk(d.Detect)
	sort.Slice(d.Funcs, func(i, j int) bool { return d.Funcs[i].Name() < d.Funcs[j].Name() })
	for _, role := range []string{"start", "rowStop", "columnStop", "tempThresh", "deltaThresh", "countThresh", "warmerOnly", "useOneDiff", "dynamicThresh", "compareRing", "diffRing", "background"} {
		if _, ok := d.Role[role]; !ok && d.Err == nil {
			d.Err = fmt.Errorf("detector role %q not resolved from the constructor", role)
		}
	}
	return d
}

// ---- linear forms over S (start), R (rowStop), C (columnStop) -------------------------

type lin struct{ s, r, c, k int64 }

func (a lin) add(b lin) lin { return lin{a.s + b.s, a.r + b.r, a.c + b.c, a.k + b.k} }
func (a lin) neg() lin      { return lin{-a.s, -a.r, -a.c, -a.k} }
func (a lin) String() string {
	var p []string
	for _, x := range []struct {
		n int64
		s string
	}{{a.s, "S"}, {a.r, "R"}, {a.c, "C"}} {
		if x.n != 0 {
			p = append(p, fmt.Sprintf("%d%s", x.n, x.s))
		}
	}
	p = append(p, fmt.Sprint(a.k))
	return strings.Join(p, "+")
}

// nonneg: a >= 0 follows from S >= 0, R-S >= 1, C-S >= 1 (closed form of the Farkas certificate).
func (a lin) nonneg() bool {
	return a.r >= 0 && a.c >= 0 && a.s+a.r+a.c >= 0 && a.k+a.r+a.c >= 0
}

type interval struct {
	lo, hi lin
	ok     bool
	why    string
}

// linOf converts a term into a linear form over the detector's S, R, C.
func (d *detInfo) linOf(t *Term) (lin, bool) {
	switch t.Op {
	case "const":
		if n, ok := t.isConst(); ok {
			return lin{k: n}, true
		}
	case "leaf":
		switch t.Name {
		case d.leaf("start"):
			return lin{s: 1}, true
		case d.leaf("rowStop"):
			return lin{r: 1}, true
		case d.leaf("columnStop"):
			return lin{c: 1}, true
		}
	case "add":
		acc := lin{}
		for _, a := range t.Args {
			l, ok := d.linOf(a)
			if !ok {
				return lin{}, false
			}
			acc = acc.add(l)
		}
		return acc, true
	case "mul":
		if len(t.Args) == 2 {
			if n, ok := t.Args[0].isConst(); ok {
				if l, ok := d.linOf(t.Args[1]); ok {
					return lin{l.s * n, l.r * n, l.c * n, l.k * n}, true
				}
			}
		}
	}
	return lin{}, false
}

// rangeOf gives the interval of an index value (SSA) inside fn, using a non-substituting
// environment so that detector fields stay symbolic.
func (d *detInfo) rangeOf(e *termEnv, v ssa.Value) interval {
	// induction variable
	if phi, ok := v.(*ssa.Phi); ok {
		iv := e.ivOf(phi)
		if iv == nil {
			return interval{why: "phi is not a counted-loop variable"}
		}
		step, _ := iv.Args[1].isConst()
		if step != 1 {
			return interval{why: "step is not +1"}
		}
		lo, ok := d.linOf(iv.Args[0])
		if !ok {
			return interval{why: "loop start not linear in start/rowStop/columnStop: " + iv.Args[0].String()}
		}
		b, strict, ok := e.ivBound(phi)
		if !ok {
			return interval{why: "loop has no upper-bound test on its header"}
		}
		hi, ok := d.linOf(b)
		if !ok {
			return interval{why: "loop bound not linear: " + b.String()}
		}
		if strict {
			hi = hi.add(lin{k: -1})
		}
		return interval{lo: lo, hi: hi, ok: true}
	}
	if bo, ok := v.(*ssa.BinOp); ok {
		if ranged := rangeIndexOf(bo); ranged != nil {
			// the index of "for i := range s": [0, len(s)-1]; the length is known for a re-sliced s = t[lo:hi]
			sl, isSl := ranged.(*ssa.Slice)
			if !isSl {
				// ranging over a whole frame (its rows) or over a whole pixel row: the index runs over the full height
				// rowStop+start resp. the full width columnStop+start (frames are allocated for the camera the detector
				// was built for: ctor relations rowStop = ResY - start, columnStop = ResX - start)
				if u, isLoad := ranged.(*ssa.UnOp); isLoad && u.Op == token.MUL {
					if fa, isFA := u.X.(*ssa.FieldAddr); isFA && isPixField(fa) {
						return interval{lo: lin{}, hi: lin{r: 1, s: 1, k: -1}, ok: true}
					}
				}
				if _, _, _, _, _, isRow := pixRowOf(ranged); isRow {
					return interval{lo: lin{}, hi: lin{c: 1, s: 1, k: -1}, ok: true}
				}
			}
			if !isSl || sl.Max != nil {
				return interval{why: "range over a slice of unknown length: " + e.termOf(ranged).String()}
			}
			// an open-ended re-slice of a pixel row ends at the row's length = frame width = columnStop + start
			// (frames are allocated for the camera the detector was built for: ctor relation columnStop = ResX - start)
			hi, okh := lin{c: 1, s: 1}, false
			if sl.High != nil {
				hi, okh = d.linOf(e.termOf(sl.High))
			} else if _, _, _, _, _, isRow := pixRowOf(sl.X); isRow {
				okh = true
			}
			lo := lin{}
			okl := true
			if sl.Low != nil {
				lo, okl = d.linOf(e.termOf(sl.Low))
			}
			if !okh || !okl {
				return interval{why: "range over a slice whose bounds are not linear in start/rowStop/columnStop: " + e.termOf(ranged).String()}
			}
			return interval{lo: lin{}, hi: hi.add(lo.neg()).add(lin{k: -1}), ok: true}
		}
	}
	if bo, ok := v.(*ssa.BinOp); ok && (bo.Op == token.ADD || bo.Op == token.SUB) {
		x, y := d.rangeOf(e, bo.X), d.rangeOf(e, bo.Y)
		if x.ok && y.ok {
			if bo.Op == token.ADD {
				return interval{lo: x.lo.add(y.lo), hi: x.hi.add(y.hi), ok: true}
			}
			return interval{lo: x.lo.add(y.hi.neg()), hi: x.hi.add(y.lo.neg()), ok: true}
		}
		return interval{why: "operand: " + x.why + y.why}
	}
	t := e.termOf(v)
	if l, ok := d.linOf(t); ok {
		return interval{lo: l, hi: l, ok: true}
	}
	return interval{why: "index not understood: " + t.String()}
}

// colRange is the interval of the effective column of a pixel access (re-sliced rows add their low bound).
func (d *detInfo) colRange(e *termEnv, a pixAccess) interval {
	c := d.rangeOf(e, a.Col)
	if !a.Sliced || !c.ok {
		return c
	}
	if a.ColLow == nil {
		return c
	}
	lo, ok := d.linOf(e.termOf(a.ColLow))
	if !ok {
		return interval{why: "low bound of the re-sliced row is not linear: " + e.termOf(a.ColLow).String()}
	}
	return interval{lo: c.lo.add(lo), hi: c.hi.add(lo), ok: true}
}

func (iv interval) within(lo, hi lin) bool {
	return iv.ok && iv.lo.add(lo.neg()).nonneg() && hi.add(iv.hi.neg()).nonneg()
}

// ---- pixel accesses ----------------------------------------------------------------------

type pixAccess struct {
	Fn      *ssa.Function
	Instr   ssa.Instruction // the load (UnOp) or Store
	Frame   ssa.Value       // the *Frame value
	Row     ssa.Value
	Col     ssa.Value // nil for whole-row accesses
	ColLow  ssa.Value // non-nil when the row was re-sliced (row[lo:hi])[Col]: the effective column is ColLow+Col
	Sliced  bool      // the row was re-sliced (ColLow == nil means low bound 0)
	IsStore bool
	Val     ssa.Value // stored value
	Addr    ssa.Value
}

// pixAddr decomposes &X.Pix[i][j] (col != nil) or &X.Pix[i] (row slot).
func pixAddr(v ssa.Value) (frame, row, col ssa.Value, ok bool) {
	f, r, c, _, sliced, ok := pixAddrS(v)
	if sliced {
		return nil, nil, nil, false
	}
	return f, r, c, ok
}

// pixAddrS also sees through one re-slicing of the row: &(X.Pix[i][lo:hi])[j].
func pixAddrS(v ssa.Value) (frame, row, col, low ssa.Value, sliced, ok bool) {
	ia, isIA := v.(*ssa.IndexAddr)
	if !isIA {
		return
	}
	if sl, isSl := ia.X.(*ssa.Slice); isSl && sl.Max == nil {
		if u, isLoad := sl.X.(*ssa.UnOp); isLoad && u.Op == token.MUL {
			if ia2, ok2 := u.X.(*ssa.IndexAddr); ok2 {
				if f, r, c, _, s2, ok3 := pixAddrS(ia2); ok3 && c == nil && !s2 {
					return f, r, ia.Index, sl.Low, true, true
				}
			}
		}
		return
	}
	// inner: row slice value = *(&X.Pix[i])
	if u, isLoad := ia.X.(*ssa.UnOp); isLoad && u.Op == token.MUL {
		if ia2, ok2 := u.X.(*ssa.IndexAddr); ok2 {
			if f, r, c, _, s2, ok3 := pixAddrS(ia2); ok3 && c == nil && !s2 {
				return f, r, ia.Index, nil, false, true
			}
		}
		// X.Pix loaded: this is &X.Pix[i]
		if fa, ok2 := u.X.(*ssa.FieldAddr); ok2 && isPixField(fa) {
			return fa.X, ia.Index, nil, nil, false, true
		}
	}
	return
}

// pixRowOf: v is a whole pixel row X.Pix[i] (loaded).
func pixRowOf(v ssa.Value) (frame, row, col, low ssa.Value, sliced, ok bool) {
	u, isLoad := v.(*ssa.UnOp)
	if !isLoad || u.Op != token.MUL {
		return
	}
	ia, isIA := u.X.(*ssa.IndexAddr)
	if !isIA {
		return
	}
	f, r, c, lo, sl, ok2 := pixAddrS(ia)
	if ok2 && c == nil && !sl {
		return f, r, nil, lo, false, true
	}
	return
}

func isPixField(fa *ssa.FieldAddr) bool {
	st := structOf(fa.X.Type())
	return st != nil && st.Field(fa.Field).Name() == "Pix" && typeIs(fa.X.Type(), "github.com/TheCacophonyProject/go-cptv/cptvframe", "Frame")
}

func pixAccessesOf(fn *ssa.Function) []pixAccess {
	var out []pixAccess
	for _, b := range fn.Blocks {
		for _, in := range b.Instrs {
			switch x := in.(type) {
			case *ssa.UnOp:
				if x.Op != token.MUL {
					continue
				}
				if f, r, c, lo, sl, ok := pixAddrS(x.X); ok {
					out = append(out, pixAccess{Fn: fn, Instr: x, Frame: f, Row: r, Col: c, ColLow: lo, Sliced: sl, Addr: x.X})
				}
			case *ssa.Store:
				if f, r, c, lo, sl, ok := pixAddrS(x.Addr); ok {
					out = append(out, pixAccess{Fn: fn, Instr: x, Frame: f, Row: r, Col: c, ColLow: lo, Sliced: sl, IsStore: true, Val: x.Val, Addr: x.Addr})
				}
			}
		}
	}
	return out
}

// checkDetectorParamsImmutable: the detector's parameters named by roles are set by the constructor only - a later store
// (Reset zeroing the edge width, a method re-deriving a limit) changes what every following frame is compared with.
func checkDetectorParamsImmutable(w *World, r *Report, d *detInfo, rule string, roles ...string) {
	for _, role := range roles {
		fi, ok := d.Role[role]
		if !ok {
			r.Unknown(rule, "detector parameter "+role, "-", "role not resolved")
			continue
		}
		var bad ssa.Instruction
		for fn := range w.AllFuncs {
			if fn == d.Ctor || !w.IsRepoFunc(fn) {
				continue
			}
			for _, b := range fn.Blocks {
				for _, in := range b.Instrs {
					if st, ok := in.(*ssa.Store); ok {
						if fa, ok := st.Addr.(*ssa.FieldAddr); ok && fa.Field == fi && isPtrTo(fa.X.Type(), d.T) {
							if bad == nil || w.InstrPos(in) < w.InstrPos(bad) {
								bad = in
							}
						}
					}
				}
			}
		}
		pos, detail := w.Pos(d.Ctor.Pos()), "stored by the constructor only"
		if bad != nil {
			pos, detail = w.InstrPos(bad), "assigned again in "+bad.Parent().Name()
		}
		r.Check(bad == nil, rule, "detector parameter "+role+" ("+d.St.Field(fi).Name()+") keeps its configured value for the life of the detector", pos, detail)
	}
}
