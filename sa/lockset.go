package main

// E6: goroutine roots, must-locksets and shared-location accesses.
//
// Roots: main, every `go` statement, and every exported method of a value passed to
// (*dbus.Conn).Export (godbus runs each incoming call in its own goroutine, so such a
// root is also concurrent with itself). Per root, the reachable repo functions are
// visited with the set of mutexes that MUST be held (forward dataflow, meet =
// intersection; `defer Unlock` keeps the lock to the exit); every load/store of a
// global or of a field of a repo-defined struct is recorded with its lockset.
// sync/atomic operations are recorded with the pseudo-lock "atomic".

import (
	"fmt"
	"go/token"
	"go/types"
	"sort"
	"strings"

	"golang.org/x/tools/go/ssa"
)

type lsAccess struct {
	Loc   string
	Write bool
	Locks string
	Root  string
	Fn    string
	Pos   string
}

type lsRoot struct {
	Name string
	Fn   *ssa.Function
	Self bool // concurrent with itself
}

type lockAnalysis struct {
	fieldTargets map[string][]*ssa.Function
	w            *World
	pkg          *ssa.Package
	impls        map[string][]*ssa.Function
	Acc          []lsAccess
	seen         map[string]bool
	root         string
	Roots        []lsRoot
	// lock sets at call sites, for "function f always runs with lock L" queries
	EntryLocks map[*ssa.Function][]string
	Funcs      map[string]map[*ssa.Function]bool // root -> reachable functions
}

func newLockAnalysis(w *World, pkgRel string) (*lockAnalysis, error) {
	a := &lockAnalysis{w: w, pkg: w.Pkg(pkgRel), impls: map[string][]*ssa.Function{}, seen: map[string]bool{}, EntryLocks: map[*ssa.Function][]string{}, Funcs: map[string]map[*ssa.Function]bool{}}
	if a.pkg == nil {
		return nil, fmt.Errorf("package %s not loaded", pkgRel)
	}
	// CHA over repo types for interface calls
	for _, p := range w.Repo {
		sp := w.SSAPkgs[p.PkgPath]
		for _, m := range sp.Members {
			t, ok := m.(*ssa.Type)
			if !ok {
				continue
			}
			for _, T := range []types.Type{t.Type(), types.NewPointer(t.Type())} {
				ms := w.Prog.MethodSets.MethodSet(T)
				for i := 0; i < ms.Len(); i++ {
					f := w.Prog.MethodValue(ms.At(i))
					if f != nil && w.IsRepoFunc(f) && len(f.Blocks) > 0 {
						dup := false
						for _, g := range a.impls[f.Name()] {
							if g == f {
								dup = true
							}
						}
						if !dup {
							a.impls[f.Name()] = append(a.impls[f.Name()], f)
						}
					}
				}
			}
		}
	}
	mainFn := a.pkg.Func("main")
	if mainFn == nil {
		return nil, fmt.Errorf("no main function in %s", pkgRel)
	}
	a.Roots = append(a.Roots, lsRoot{Name: "main", Fn: mainFn})
	for fn := range w.AllFuncs {
		if !w.IsRepoFunc(fn) || fn.Pkg != a.pkg && (fn.Parent() == nil || fn.Parent().Pkg != a.pkg) {
			continue
		}
		for _, b := range fn.Blocks {
			for _, in := range b.Instrs {
				switch in := in.(type) {
				case *ssa.Go:
					if c := in.Call.StaticCallee(); c != nil {
						a.Roots = append(a.Roots, lsRoot{Name: "go:" + c.Name(), Fn: c, Self: inLoop(in.Block())})
					} else if mc, ok := in.Call.Value.(*ssa.MakeClosure); ok {
						a.Roots = append(a.Roots, lsRoot{Name: "go:" + mc.Fn.Name(), Fn: mc.Fn.(*ssa.Function), Self: inLoop(in.Block())})
					}
				case *ssa.Call:
					c := in.Call.StaticCallee()
					expArg := -1
					if c != nil && c.Name() == "Export" && c.Signature.Recv() != nil && typeIs(c.Signature.Recv().Type(), "github.com/godbus/dbus", "Conn") {
						expArg = 1
					} else if in.Call.IsInvoke() && in.Call.Method.Name() == "Export" && dbusConnImplements(w, in.Call.Value.Type()) {
						expArg = 0 // the bus connection behind an interface of the repository's own
					}
					if expArg >= 0 && expArg < len(in.Call.Args) {
						if mi, ok := in.Call.Args[expArg].(*ssa.MakeInterface); ok {
							ms := w.Prog.MethodSets.MethodSet(mi.X.Type())
							for i := 0; i < ms.Len(); i++ {
								if ms.At(i).Obj().Exported() {
									if f := w.Prog.MethodValue(ms.At(i)); f != nil && w.IsRepoFunc(f) {
										a.Roots = append(a.Roots, lsRoot{Name: "dbus:" + f.Name(), Fn: f, Self: true})
									}
								}
							}
						}
					}
				}
			}
		}
	}
	sort.Slice(a.Roots, func(i, j int) bool { return a.Roots[i].Name < a.Roots[j].Name })
	for _, r := range a.Roots {
		a.root = r.Name
		a.Funcs[r.Name] = map[*ssa.Function]bool{}
		a.visit(r.Fn, "", "")
	}
	// goroutines started by library packages of the repository on behalf of this binary: every `go` statement in a
	// function of another package that one of the roots reaches is a root as well (to a fix-point)
	isRoot := map[*ssa.Function]bool{}
	for _, r := range a.Roots {
		isRoot[r.Fn] = true
	}
	for changed := true; changed; {
		changed = false
		var fns []*ssa.Function
		for _, r := range a.Roots {
			for fn := range a.Funcs[r.Name] {
				if fn.Pkg != a.pkg && (fn.Parent() == nil || fn.Parent().Pkg != a.pkg) {
					fns = append(fns, fn)
				}
			}
		}
		sort.Slice(fns, func(i, j int) bool { return fns[i].String() < fns[j].String() })
		for _, fn := range fns {
			for _, b := range fn.Blocks {
				for _, in := range b.Instrs {
					g, ok := in.(*ssa.Go)
					if !ok {
						continue
					}
					var c *ssa.Function
					if sc := g.Call.StaticCallee(); sc != nil {
						c = sc
					} else if mc, ok := g.Call.Value.(*ssa.MakeClosure); ok {
						c = mc.Fn.(*ssa.Function)
					}
					if c == nil || isRoot[c] || !w.IsRepoFunc(c) {
						continue
					}
					isRoot[c] = true
					nr := lsRoot{Name: "go:" + c.Name(), Fn: c, Self: true} // started from per-frame code: may overlap its own previous instance
					a.Roots = append(a.Roots, nr)
					a.root = nr.Name
					if a.Funcs[nr.Name] == nil {
						a.Funcs[nr.Name] = map[*ssa.Function]bool{}
					}
					a.visit(c, "", "")
					changed = true
				}
			}
		}
	}
	return a, nil
}

func inLoop(b *ssa.BasicBlock) bool {
	// block is part of a cycle
	seen := map[*ssa.BasicBlock]bool{}
	var dfs func(x *ssa.BasicBlock) bool
	dfs = func(x *ssa.BasicBlock) bool {
		for _, s := range x.Succs {
			if s == b {
				return true
			}
			if !seen[s] {
				seen[s] = true
				if dfs(s) {
					return true
				}
			}
		}
		return false
	}
	return dfs(b)
}

func (a *lockAnalysis) isRepoNamed(t types.Type) (*types.Named, bool) {
	if p, ok := t.(*types.Pointer); ok {
		t = p.Elem()
	}
	n, ok := t.(*types.Named)
	if !ok || n.Obj().Pkg() == nil {
		return nil, false
	}
	return n, strings.HasPrefix(n.Obj().Pkg().Path(), modPath)
}

func lsLockName(v ssa.Value, ctx string) string {
	switch x := v.(type) {
	case *ssa.Global:
		return "global:" + x.Pkg.Pkg.Name() + "." + x.Name()
	case *ssa.FieldAddr:
		return "field:" + ctx + "/" + lsFieldName(x)
	}
	return "?"
}

func lsFieldName(fa *ssa.FieldAddr) string {
	st := fa.X.Type().(*types.Pointer).Elem()
	n := st.String()
	if nn, ok := st.(*types.Named); ok {
		n = nn.Obj().Name()
	}
	return n + "." + st.Underlying().(*types.Struct).Field(fa.Field).Name()
}

// lsOwnerCtx: for a FrameLoop receiver argument, which field owns it (1-level receiver sensitivity).
func lsOwnerCtx(v ssa.Value, cur string, recv ssa.Value) string {
	if v == recv {
		return cur
	}
	switch x := v.(type) {
	case *ssa.UnOp:
		if fa, ok := x.X.(*ssa.FieldAddr); ok {
			return lsFieldName(fa)
		}
	case *ssa.FieldAddr:
		return lsFieldName(x)
	}
	return "?"
}

func lsFresh(v ssa.Value) bool {
	switch x := v.(type) {
	case *ssa.Alloc:
		return true
	case *ssa.FieldAddr:
		return lsFresh(x.X)
	case *ssa.IndexAddr:
		return lsFresh(x.X)
	}
	return false
}

func isMutexOp(c *ssa.Function, name string) bool {
	if c == nil || c.Name() != name || c.Signature.Recv() == nil {
		return false
	}
	return typeIs(c.Signature.Recv().Type(), "sync", "Mutex") || typeIs(c.Signature.Recv().Type(), "sync", "RWMutex")
}

func (a *lockAnalysis) visit(fn *ssa.Function, locks string, ctx string) {
	if fn == nil || len(fn.Blocks) == 0 || !a.w.IsRepoFunc(fn) {
		return
	}
	key := a.root + "|" + fn.String() + "|" + locks + "|" + ctx
	if a.seen[key] {
		return
	}
	a.seen[key] = true
	a.Funcs[a.root][fn] = true
	a.EntryLocks[fn] = append(a.EntryLocks[fn], a.root+"|"+locks)
	in := make([]map[string]bool, len(fn.Blocks))
	entry := map[string]bool{}
	for _, l := range strings.Split(locks, ",") {
		if l != "" {
			entry[l] = true
		}
	}
	in[0] = entry
	var recv ssa.Value
	if fn.Signature.Recv() != nil && len(fn.Params) > 0 {
		recv = fn.Params[0]
	}
	out := make([]map[string]bool, len(fn.Blocks))
	transfer := func(b *ssa.BasicBlock, cur map[string]bool, record bool) map[string]bool {
		cur = copySet(cur)
		for _, ins := range b.Instrs {
			switch ins := ins.(type) {
			case *ssa.Defer:
				c := ins.Call.StaticCallee()
				if isMutexOp(c, "Unlock") || isMutexOp(c, "RUnlock") {
					// released at exit only
				} else if record {
					if c != nil {
						a.visit(c, setStr(cur), ctx)
					} else if mc, ok := ins.Call.Value.(*ssa.MakeClosure); ok {
						a.visit(mc.Fn.(*ssa.Function), setStr(cur), ctx)
					}
				}
			case *ssa.Call:
				c := ins.Call.StaticCallee()
				if isMutexOp(c, "Lock") || isMutexOp(c, "RLock") {
					cur[lsLockName(ins.Call.Args[0], ctx)] = true
					continue
				}
				if isMutexOp(c, "Unlock") || isMutexOp(c, "RUnlock") {
					delete(cur, lsLockName(ins.Call.Args[0], ctx))
					continue
				}
				if c != nil && c.Pkg != nil && c.Pkg.Pkg.Path() == "sync/atomic" && len(ins.Call.Args) > 0 {
					if record {
						write := !strings.HasPrefix(c.Name(), "Load")
						at := copySet(cur)
						at["atomic"] = true
						a.record(fn, ins.Call.Args[0], write, at, ctx, ins.Pos())
					}
					continue
				}
				if !record {
					continue
				}
				if c != nil {
					nctx := ctx
					if c.Signature.Recv() != nil && len(ins.Call.Args) > 0 {
						if n, ok := a.isRepoNamed(ins.Call.Args[0].Type()); ok && n.Obj().Name() == "FrameLoop" {
							nctx = lsOwnerCtx(ins.Call.Args[0], ctx, recv)
						}
					}
					a.visit(c, setStr(cur), nctx)
				} else if ins.Call.IsInvoke() {
					for _, f := range a.impls[ins.Call.Method.Name()] {
						a.visit(f, setStr(cur), "")
					}
				} else if mc, ok := ins.Call.Value.(*ssa.MakeClosure); ok {
					a.visit(mc.Fn.(*ssa.Function), setStr(cur), ctx)
				} else if ld, ok := ins.Call.Value.(*ssa.UnOp); ok && ld.Op == token.MUL {
					// a call through a function-typed field of a repository struct (an injected dependency): every function
					// the program ever stores into that field may be the callee
					if fa, ok := ld.X.(*ssa.FieldAddr); ok {
						for _, f := range a.funcFieldTargets(fa) {
							a.visit(f, setStr(cur), ctx)
						}
					}
				}
			case *ssa.Store:
				if record {
					a.record(fn, ins.Addr, true, cur, ctx, ins.Pos())
				}
			case *ssa.UnOp:
				if record && ins.Op == token.MUL {
					a.record(fn, ins.X, false, cur, ctx, ins.Pos())
				}
			}
		}
		return cur
	}
	changed := true
	for changed {
		changed = false
		for _, b := range fn.Blocks {
			if b.Index != 0 {
				var m map[string]bool
				for _, p := range b.Preds {
					if out[p.Index] == nil {
						continue
					}
					if m == nil {
						m = copySet(out[p.Index])
					} else {
						for k := range m {
							if !out[p.Index][k] {
								delete(m, k)
							}
						}
					}
				}
				if m == nil {
					continue
				}
				in[b.Index] = m
			}
			o := transfer(b, in[b.Index], false)
			if out[b.Index] == nil || setStr(out[b.Index]) != setStr(o) {
				out[b.Index] = o
				changed = true
			}
		}
	}
	for _, b := range fn.Blocks {
		if in[b.Index] != nil {
			transfer(b, in[b.Index], true)
		}
	}
}

func copySet(m map[string]bool) map[string]bool {
	n := map[string]bool{}
	for k := range m {
		n[k] = true
	}
	return n
}

func setStr(m map[string]bool) string {
	ks := []string{}
	for k := range m {
		ks = append(ks, k)
	}
	sort.Strings(ks)
	return strings.Join(ks, ",")
}

func (a *lockAnalysis) record(fn *ssa.Function, addr ssa.Value, write bool, locks map[string]bool, ctx string, pos token.Pos) {
	var loc string
	switch x := addr.(type) {
	case *ssa.Global:
		if x.Pkg == nil || !a.w.IsRepoPkg(x.Pkg) {
			return
		}
		loc = "global:" + x.Pkg.Pkg.Name() + "." + x.Name()
	case *ssa.FieldAddr:
		n, ok := a.isRepoNamed(x.X.Type())
		if !ok || lsFresh(x.X) {
			return
		}
		loc = lsFieldName(x)
		if n.Obj().Name() == "FrameLoop" {
			loc = ctx + "→" + loc
		}
	default:
		return
	}
	a.Acc = append(a.Acc, lsAccess{Loc: loc, Write: write, Locks: setStr(locks), Root: a.root, Fn: fn.Name(), Pos: a.w.Pos(pos)})
}

func lsIntersects(a, b string) bool {
	if a == "" || b == "" {
		return false
	}
	for _, x := range strings.Split(a, ",") {
		for _, y := range strings.Split(b, ",") {
			if x == y {
				return true
			}
		}
	}
	return false
}

type lsRace struct {
	Loc    string
	A, B   lsAccess
	Detail string
}

// Races returns conflicting access pairs: same location, different roots (or a self-concurrent
// root), at least one write, no common lock.
func (a *lockAnalysis) Races() (races []lsRace, shared []string, nloc int) {
	selfc := map[string]bool{}
	for _, r := range a.Roots {
		if r.Self {
			selfc[r.Name] = true
		}
	}
	by := map[string][]lsAccess{}
	for _, x := range a.Acc {
		by[x.Loc] = append(by[x.Loc], x)
	}
	var locs []string
	for l := range by {
		locs = append(locs, l)
	}
	sort.Strings(locs)
	nloc = len(locs)
	for _, l := range locs {
		xs := by[l]
		roots := map[string]bool{}
		for _, x := range xs {
			roots[x.Root] = true
		}
		isShared := len(roots) >= 2
		for r := range roots {
			if selfc[r] {
				isShared = true
			}
		}
		if !isShared {
			continue
		}
		shared = append(shared, l)
		reported := map[string]bool{}
		for i := range xs {
			for j := range xs {
				x, y := xs[i], xs[j]
				if !x.Write {
					continue
				}
				if x.Root == y.Root && !selfc[x.Root] {
					continue
				}
				if lsIntersects(x.Locks, y.Locks) {
					continue
				}
				k := x.Fn + "|" + x.Root + "|" + y.Fn + "|" + y.Root + "|" + fmt.Sprint(y.Write)
				if reported[k] {
					continue
				}
				reported[k] = true
				rw := "read"
				if y.Write {
					rw = "write"
				}
				races = append(races, lsRace{Loc: l, A: x, B: y, Detail: fmt.Sprintf("write in %s [%s] holding {%s} at %s vs %s in %s [%s] holding {%s} at %s", x.Fn, x.Root, x.Locks, x.Pos, rw, y.Fn, y.Root, y.Locks, y.Pos)})
			}
		}
	}
	return
}

// dbusConnImplements: t is an interface type that *dbus.Conn satisfies and that has dbus.Conn's Export signature.
func dbusConnImplements(w *World, t types.Type) bool {
	it, ok := t.Underlying().(*types.Interface)
	if !ok {
		return false
	}
	for _, p := range w.Prog.AllPackages() {
		if p.Pkg.Path() == "github.com/godbus/dbus" {
			if tn, ok := p.Members["Conn"].(*ssa.Type); ok {
				return types.Implements(types.NewPointer(tn.Type()), it)
			}
		}
	}
	return false
}

// funcFieldTargets: the functions stored anywhere in the repository into the struct field fa addresses (directly, or as
// an argument of a constructor call whose parameter is stored into the field).
func (a *lockAnalysis) funcFieldTargets(fa *ssa.FieldAddr) []*ssa.Function {
	st := structOf(fa.X.Type())
	if st == nil {
		return nil
	}
	if _, isSig := st.Field(fa.Field).Type().Underlying().(*types.Signature); !isSig {
		return nil
	}
	key := fa.X.Type().String() + "#" + fmt.Sprint(fa.Field)
	if a.fieldTargets == nil {
		a.fieldTargets = map[string][]*ssa.Function{}
	}
	if t, ok := a.fieldTargets[key]; ok {
		return t
	}
	seen := map[*ssa.Function]bool{}
	var out []*ssa.Function
	var fromValue func(v ssa.Value, depth int)
	fromValue = func(v ssa.Value, depth int) {
		if depth > 4 {
			return
		}
		switch x := v.(type) {
		case *ssa.Function:
			if !seen[x] {
				seen[x] = true
				out = append(out, x)
			}
		case *ssa.MakeClosure:
			if f, ok := x.Fn.(*ssa.Function); ok && !seen[f] {
				seen[f] = true
				out = append(out, f)
			}
		case *ssa.ChangeType:
			fromValue(x.X, depth+1)
		case *ssa.Parameter:
			// every argument passed for this parameter by a direct caller
			fn := x.Parent()
			idx := -1
			for i, p := range fn.Params {
				if p == x {
					idx = i
				}
			}
			for g := range a.w.AllFuncs {
				if !a.w.IsRepoFunc(g) {
					continue
				}
				for _, b := range g.Blocks {
					for _, in := range b.Instrs {
						if ci, ok := in.(ssa.CallInstruction); ok && ci.Common().StaticCallee() == fn && idx >= 0 && idx < len(ci.Common().Args) {
							fromValue(ci.Common().Args[idx], depth+1)
						}
					}
				}
			}
		}
	}
	for g := range a.w.AllFuncs {
		if !a.w.IsRepoFunc(g) {
			continue
		}
		for _, b := range g.Blocks {
			for _, in := range b.Instrs {
				if s2, ok := in.(*ssa.Store); ok {
					if fa2, ok := s2.Addr.(*ssa.FieldAddr); ok && fa2.Field == fa.Field && types.Identical(fa2.X.Type(), fa.X.Type()) {
						fromValue(s2.Val, 0)
					}
				}
			}
		}
	}
	sort.Slice(out, func(i, j int) bool { return out[i].String() < out[j].String() })
	a.fieldTargets[key] = out
	return out
}
