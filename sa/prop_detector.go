package main

import (
	"fmt"
	"go/token"
	"go/types"
	"sort"
	"strings"

	"golang.org/x/tools/go/ssa"
)

func init() {
	register("C07", propC07)
	register("C08", propC08)
	register("C09", propC09)
	register("C15", propC15)
}

var (
	linS  = lin{s: 1}
	linR1 = lin{r: 1, k: -1}
	linC1 = lin{c: 1, k: -1}
)

func detSetup(w *World, r *Report) *detInfo {
	d := getDetector(w)
	if d.Err != nil {
		r.Unknown("roles", "motion detector", "-", "role resolution failed: "+d.Err.Error())
		return nil
	}
	roles := map[string]string{}
	for k, fi := range d.Role {
		if !strings.Contains(k, ":") {
			roles[k] = d.St.Field(fi).Name()
		}
	}
	r.Extra["detector_roles"] = roles
	var fns []string
	for _, f := range d.Funcs {
		fns = append(fns, f.Name())
	}
	r.Extra["functions_analysed"] = fns
	return d
}

// elemAccesses returns the element-level pixel accesses (row and column index) of a function.
func elemAccesses(fn *ssa.Function) []pixAccess {
	var out []pixAccess
	for _, a := range pixAccessesOf(fn) {
		if a.Col != nil {
			out = append(out, a)
		}
	}
	return out
}

func accessName(w *World, e *termEnv, a pixAccess, n int) string {
	k := "read"
	if a.IsStore {
		k = "write"
	}
	return fmt.Sprintf("%s: pixel %s #%d of %s", a.Fn.Name(), k, n, frameName(e, a.Frame))
}

func frameName(e *termEnv, v ssa.Value) string {
	s := e.termOf(v).String()
	s = strings.ReplaceAll(s, "@recv:motion.motionDetector", "")
	s = strings.ReplaceAll(s, "motion.motionDetector.", "detector.")
	return s
}

// kernelFuncs finds the functions of the detector by what they do.
type kernels struct {
	diffAbs, diffWarm    *ssa.Function // store |a-b| / max(a-b,0) into their third frame
	countOne, countTwo   *ssa.Function // counting loops over one / two frames
	pixelsChanged        *ssa.Function // calls the diff kernels and the ring
	hasMotion            *ssa.Function
	updateBg, calcThresh *ssa.Function
	ffcPred              *ssa.Function
	reset                *ssa.Function
}

func findKernels(d *detInfo) (*kernels, error) {
	k := &kernels{}
	e := newTermEnv(d.W)
	bg := d.leaf("background")
	for _, fn := range d.Funcs {
		accs := elemAccesses(fn)
		storesToParam, storesToBg, loads := 0, 0, 0
		for _, a := range accs {
			if a.IsStore {
				if e.termOf(a.Frame).String() == bg {
					storesToBg++
				} else if _, isP := a.Frame.(*ssa.Parameter); isP {
					storesToParam++
				}
			} else {
				loads++
			}
		}
		switch {
		case storesToBg > 0:
			k.updateBg = fn
		case storesToParam == 0 && loads > 0 && fn.Signature.Results().Len() == 1 && isInteger(fn.Signature.Results().At(0).Type()):
			frames := 0
			for _, p := range fn.Params {
				if typeIs(p.Type(), "github.com/TheCacophonyProject/go-cptv/cptvframe", "Frame") {
					frames++
				}
			}
			if frames == 1 {
				k.countOne = fn
			} else if frames == 2 {
				k.countTwo = fn
			}
		}
	}
	// the selection logic is the function that asks the comparison ring for its oldest frame; the
	// differencing kernels are what it calls with that frame, told apart by the warmer-only guard
	cmpRing := d.Role["compareRing"]
	for _, fn := range d.Funcs {
		var oldest ssa.Value
		for _, b := range fn.Blocks {
			for _, in := range b.Instrs {
				if call, ok := in.(*ssa.Call); ok {
					if callee := call.Call.StaticCallee(); callee != nil && callee.Name() == "Oldest" && len(call.Call.Args) == 1 {
						if fa, ok := call.Call.Args[0].(*ssa.FieldAddr); ok && isPtrTo(fa.X.Type(), d.T) && fa.Field == cmpRing {
							oldest = call
						}
					}
				}
			}
		}
		if oldest == nil {
			continue
		}
		k.pixelsChanged = fn
		k.diffAbs, k.diffWarm = nil, nil
		for _, b := range fn.Blocks {
			for _, in := range b.Instrs {
				call, ok := in.(*ssa.Call)
				if !ok || call.Call.StaticCallee() == nil {
					continue
				}
				uses := false
				for _, a := range call.Call.Args {
					if a == oldest {
						uses = true
					}
				}
				if !uses {
					continue
				}
				gs := e.guardsOf(b)
				switch {
				case hasGuard(gs, d.leaf("warmerOnly")):
					k.diffWarm = call.Call.StaticCallee()
				case hasGuard(gs, "not("+d.leaf("warmerOnly")+")"):
					k.diffAbs = call.Call.StaticCallee()
				}
			}
		}
	}
	for _, fn := range d.Funcs {
		for _, b := range fn.Blocks {
			for _, in := range b.Instrs {
				if call, ok := in.(*ssa.Call); ok {
					switch call.Call.StaticCallee() {
					case k.countOne:
						if k.countOne != nil && fn != k.pixelsChanged {
							k.hasMotion = fn
						}
					}
				}
			}
		}
		// threshold function: stores to tempThresh outside the constructor
		for _, b := range fn.Blocks {
			for _, in := range b.Instrs {
				if st, ok := in.(*ssa.Store); ok {
					if fa, ok := st.Addr.(*ssa.FieldAddr); ok && isPtrTo(fa.X.Type(), d.T) && fa.Field == d.Role["tempThresh"] {
						k.calcThresh = fn
					}
				}
			}
		}
		// FFC predicate: bool function of a frame comparing telemetry with a constant duration
		if fn.Signature.Recv() == nil && fn.Signature.Results().Len() == 1 && len(fn.Params) == 1 {
			if bt, ok := fn.Signature.Results().At(0).Type().Underlying().(*types.Basic); ok && bt.Kind() == types.Bool {
				t := e.inline(fn, []ssa.Value{fn.Params[0]})
				if t != nil && strings.Contains(t.String(), "LastFFCTime") {
					k.ffcPred = fn
				}
			}
		}
	}
	k.reset = findMethod(d.W.Prog, d.T, "Reset")
	for name, f := range map[string]*ssa.Function{"abs-diff kernel": k.diffAbs, "warmer-diff kernel": k.diffWarm, "one-frame counter": k.countOne, "two-frame counter": k.countTwo,
		"pixelsChanged": k.pixelsChanged, "background update": k.updateBg, "threshold computation": k.calcThresh, "FFC predicate": k.ffcPred, "Reset": k.reset} {
		if f == nil {
			return k, fmt.Errorf("detector function not found by its behaviour: %s", name)
		}
	}
	return k, nil
}

// ---------------------------------------------------------------------------------------
// C08

func propC08(w *World, r *Report) {
	r.Explanation = "Decided clause (non-interference, by index ranges and value flow): (N1) every pixel element read in code reachable from the detector's Detect has row in [E, H-E) and column in [E, W-E) — symbolic intervals over start/rowStop/columnStop with start=EdgePixels, rowStop=ResY-EdgePixels, columnStop=ResX-EdgePixels, under E>=0, 2E<W,H; (N2) whole-row / slice copies are position preserving (same row, same interior column range; or border-row replication inside the background; or Frame.Copy); (N3) every store into the background frame takes its value from an interior read of the input or from the background itself; (N4) in the differencing kernels each loaded pixel occurs in the stored result only under max(pixel, tempThresh); (N5) background and threshold updates are control dependent on dynamic-thresh; (N6) the processor uses the frame only as argument of Detect and of sink writes. Rule: induction-variable intervals with a closed-form Farkas certificate + term occurrence analysis. Ranges over a whole frame or row are given the full height / width and decided as not interior."
	r.RuleText = "obligation per pixel access / copy / store site in the detector (functions reachable from Detect)"
	r.Assumptions = []string{"E >= 0 and 2E < min(W,H) (the statement's preconditions)", "cptvframe.Frame.Copy copies rows position by position (its body is checked once per run)",
		"debugTracker.update only logs (named exception of N4: values passed to it do not flow back)"}
	d := detSetup(w, r)
	if d == nil {
		return
	}
	k, err := findKernels(d)
	if err != nil {
		r.Unknown("roles", "detector kernels", "-", err.Error())
		return
	}
	e := newTermEnv(w)
	bg := d.leaf("background")
	// N1
	checkDetectorParamsImmutable(w, r, d, "N1", "start", "rowStop", "columnStop") // the bounds below are symbolic constants
	nReads := 0
	for _, fn := range d.Funcs {
		n := 0
		for _, a := range elemAccesses(fn) {
			n++
			row, col := d.rangeOf(e, a.Row), d.colRange(e, a)
			name := accessName(w, e, a, n)
			if a.IsStore {
				continue
			}
			nReads++
			if !row.ok || !col.ok {
				r.Unknown("N1", name, w.InstrPos(a.Instr), "index range not established: "+row.why+" "+col.why)
				continue
			}
			ok := row.within(linS, linR1) && col.within(linS, linC1)
			r.Check(ok, "N1", name+" is interior", w.InstrPos(a.Instr), fmt.Sprintf("row in [%s, %s], col in [%s, %s] (S=start, R=rowStop, C=columnStop)", row.lo, row.hi, col.lo, col.hi))
		}
	}
	r.Check(nReads >= 10, "G4", "pixel reads found in the detector", "-", fmt.Sprint(nReads))
	// N2: copies
	nCopies := 0
	for _, fn := range d.Funcs {
		n := 0
		for _, b := range fn.Blocks {
			for _, in := range b.Instrs {
				call, ok := in.(*ssa.Call)
				if !ok {
					continue
				}
				if bi, isB := call.Call.Value.(*ssa.Builtin); isB && bi.Name() == "copy" {
					n++
					nCopies++
					name := fmt.Sprintf("%s: copy #%d", fn.Name(), n)
					dst, ok1 := rowSlice(call.Call.Args[0])
					src, ok2 := rowSlice(call.Call.Args[1])
					if !ok1 || !ok2 {
						r.Unknown("N2", name, w.InstrPos(call), "copy operands are not rows of a frame")
						continue
					}
					dstBg := e.termOf(dst.frame).String() == bg
					srcBg := e.termOf(src.frame).String() == bg
					srow := d.rangeOf(e, src.row)
					switch {
					case dst.lo != nil && src.lo != nil:
						same := dst.row == src.row && e.termOf(dst.lo).String() == e.termOf(src.lo).String() && e.termOf(dst.hi).String() == e.termOf(src.hi).String()
						lo, hi := d.rangeOf(e, src.lo), d.rangeOf(e, src.hi)
						interior := srow.within(linS, linR1) && lo.ok && hi.ok && lo.lo.add(linS.neg()).nonneg() && lin{c: 1}.add(hi.hi.neg()).nonneg()
						r.Check(same && interior, "N2", name+" copies the same interior column range of the same row", w.InstrPos(call),
							fmt.Sprintf("row [%s,%s], cols [%s:%s)", srow.lo, srow.hi, lo.lo, hi.hi))
					case dst.lo == nil && src.lo == nil && dstBg && srcBg:
						r.Check(srow.within(linS, linR1), "N2", name+" replicates an interior background row into a background border row", w.InstrPos(call), fmt.Sprintf("source row [%s,%s]", srow.lo, srow.hi))
					case dst.lo == nil && src.lo == nil && dst.row == src.row && func() bool { _, _, ok := handWrittenFrameCopy(fn); return ok }():
						// Frame.Copy written out by hand: whole rows, same row on both sides (position preserving)
						r.Pass("N2", name+" is the row copy of a hand-written frame copy (same row on both sides)", w.InstrPos(call), "")
					default:
						r.Fail("N2", name, w.InstrPos(call), "whole-row copy that is neither a same-range interior copy nor background border replication", "")
					}
				}
				if callee := call.Call.StaticCallee(); callee != nil && callee.Name() == "Copy" && callee.Signature.Recv() != nil && typeIs(callee.Signature.Recv().Type(), "github.com/TheCacophonyProject/go-cptv/cptvframe", "Frame") {
					n++
					nCopies++
					r.Check(frameCopyIsPositionPreserving(callee), "N2", fmt.Sprintf("%s: Frame.Copy #%d is position preserving", fn.Name(), n), w.InstrPos(call), "cptvframe.Frame.Copy: copy(dst.Pix[y][:], src.Pix[y]) for every y")
				}
			}
		}
	}
	r.Check(nCopies >= 3, "G4", "copies found", "-", fmt.Sprint(nCopies))
	// N3: element stores into the background
	n3 := 0
	for _, fn := range d.Funcs {
		n := 0
		for _, a := range elemAccesses(fn) {
			n++
			if !a.IsStore || e.termOf(a.Frame).String() != bg {
				continue
			}
			n3++
			name := accessName(w, e, a, n)
			ld, isLoad := a.Val.(*ssa.UnOp)
			okv := false
			detail := e.termOf(a.Val).String()
			if isLoad {
				if f, rr, cc, ok := pixAddr(ld.X); ok && cc != nil {
					rowI, colI := d.rangeOf(e, rr), d.rangeOf(e, cc)
					okv = rowI.within(linS, linR1) && colI.within(linS, linC1)
					detail = fmt.Sprintf("value = %s pixel, row [%s,%s] col [%s,%s]", frameName(e, f), rowI.lo, rowI.hi, colI.lo, colI.hi)
				}
			}
			r.Check(okv, "N3", name+" takes its value from an interior pixel", w.InstrPos(a.Instr), detail)
		}
	}
	r.Check(n3 >= 4, "G4", "background stores found", "-", fmt.Sprint(n3))
	// N4: clamp-only occurrences in the differencing kernels
	T := d.leaf("tempThresh")
	for _, fn := range kernelFamily(k.diffAbs, k.diffWarm) {
		for _, a := range elemAccesses(fn) {
			if !a.IsStore {
				continue
			}
			t := e.termOf(a.Val)
			bad := unclampedPixel(t, T, false)
			r.Check(bad == "", "N4", fn.Name()+": every pixel enters the difference only as max(pixel, tempThresh)", w.InstrPos(a.Instr), "stored term "+t.String()+" ; unclamped: "+bad)
		}
		// uses of each loaded pixel
		for _, a := range elemAccesses(fn) {
			if a.IsStore {
				continue
			}
			u := a.Instr.(*ssa.UnOp)
			bad := clampOnlyUses(u, func(v ssa.Value) bool { return e.termOf(v).String() == T }, 0)
			pos := w.InstrPos(u)
			detail := "compared with temp-thresh, merged with it, or handed to a clamp helper / the debug log only"
			if bad != nil {
				pos, detail = w.InstrPos(bad), "raw pixel value used by "+bad.String()
			}
			r.Check(bad == nil, "N4", fmt.Sprintf("%s: the raw value of pixel read at %s is used only by the temp-thresh clamp", fn.Name(), w.InstrPos(u)), pos, detail)
		}
	}
	// ... and every interior pixel's result is stored on every pass (a skipped store leaves the value computed from an
	// earlier frame pair in the re-used slot: sub-threshold values would then decide what is kept)
	for _, fn := range kernelFamily(k.diffAbs, k.diffWarm) {
		for _, a := range elemAccesses(fn) {
			if a.IsStore {
				checkPixelStoredOnEveryIteration(w, r, e, fn, a, d.leaf("tempThresh"), "N4")
			}
		}
	}
	// N5
	for _, fn := range []*ssa.Function{k.updateBg, k.calcThresh} {
		for _, b := range detectBlocks(w, d, k) {
			for _, in := range b.Instrs {
				if call, ok := in.(*ssa.Call); ok && call.Call.StaticCallee() == fn {
					gs := e.guardsOf(b)
					r.Check(hasGuard(gs, d.leaf("dynamicThresh")), "N5", fn.Name()+" runs only with dynamic thresholding", w.InstrPos(call), strings.Join(guardStrings(gs), " ; "))
				}
			}
		}
	}
	// ... and nowhere else: a call from Reset, the constructor or any other function of the repository is held to the
	// same guard (with a fixed threshold nothing would ever restore the configured value)
	inDetect := map[*ssa.BasicBlock]bool{}
	for _, b := range detectBlocks(w, d, k) {
		inDetect[b] = true
	}
	for _, g := range w.RepoFuncs() {
		for _, b := range g.Blocks {
			if inDetect[b] {
				continue
			}
			for _, in := range b.Instrs {
				if call, ok := in.(ssa.CallInstruction); ok {
					if c := call.Common().StaticCallee(); c != nil && (c == k.updateBg || c == k.calcThresh) {
						gs := e.guardsOf(b)
						r.Check(hasGuard(gs, d.leaf("dynamicThresh")), "N5", c.Name()+" (called from "+g.Name()+", outside the per-frame path) runs only with dynamic thresholding", w.InstrPos(in), strings.Join(guardStrings(gs), " ; "))
					}
				}
			}
		}
	}
	r.Floor("N5", 2)
	checkParserEdgeArg(w, r, "N7") // which border zeros are tolerated is the configured edge width, always
	// N6: the processor's use of the frame
	runs, err := getMotionRuns(w)
	if err == nil {
		for _, ev := range eventsOfKind(runs.fault, "obs:detect", -1) {
			fn := ev.Instr.Parent()
			call := ev.Instr.(*ssa.Call)
			frameArg := call.Call.Args[1]
			okAll := true
			detail := ""
			// the frame value may also be handed on to other methods of the processor, where the same rule applies
			var visit func(v ssa.Value, depth int)
			visit = func(v ssa.Value, depth int) {
				refs := v.Referrers()
				if refs == nil {
					return
				}
				for _, rf := range *refs {
					switch x := rf.(type) {
					case *ssa.Call:
						nm := calleeName(x)
						if strings.HasSuffix(nm, ".Detect") || strings.HasSuffix(nm, ".WriteFrame") {
							continue
						}
						callee := x.Call.StaticCallee()
						if callee != nil && depth < 3 && callee.Signature.Recv() != nil && isPtrTo(callee.Signature.Recv().Type(), runs.model.C.T) && len(callee.Blocks) > 0 {
							for i, a := range x.Call.Args {
								if a == v && i < len(callee.Params) {
									visit(callee.Params[i], depth+1)
								}
							}
							continue
						}
						okAll = false
						detail += nm + " "
					case *ssa.DebugRef:
					default:
						okAll = false
						detail += fmt.Sprintf("%T ", rf)
					}
				}
			}
			visit(frameArg, 0)
			r.Check(okAll, "N6", fn.Name()+": the frame is only handed to Detect and to sink writes", w.InstrPos(call), detail)
		}
	}
	r.Floor("N6", 1)
	// N7: the raw-frame parsers exempt exactly the border from the zero-pixel (bad frame) test, so a border value
	// can never reject a frame and thereby change recording boundaries
	checkParsers(w, r, "N7")
	checkSettingsImmutable(w, r, "N1", "ThermalMotion:EdgePixels", "Config:Motion") // edge-pixels as configured
	if k8, err := findKernels(d); err == nil {
		checkThresholdInit(w, r, d, k8, "N4") // "at or below temp-thresh": the clamp value is the configured threshold
	}
}

type rowRef struct {
	frame, row ssa.Value
	lo, hi     ssa.Value
}

// rowSlice decomposes X.Pix[r] or X.Pix[r][lo:hi].
func rowSlice(v ssa.Value) (rowRef, bool) {
	var rr rowRef
	if sl, ok := v.(*ssa.Slice); ok {
		rr.lo, rr.hi = sl.Low, sl.High
		v = sl.X
		if rr.lo == nil || rr.hi == nil {
			rr.lo, rr.hi = nil, nil
		}
	}
	u, ok := v.(*ssa.UnOp)
	if !ok || u.Op != token.MUL {
		return rr, false
	}
	f, r, c, ok := pixAddr(u.X)
	if !ok || c != nil {
		return rr, false
	}
	rr.frame, rr.row = f, r
	return rr, true
}

func frameCopyIsPositionPreserving(fn *ssa.Function) bool {
	if len(fn.Blocks) == 0 {
		return false
	}
	n := 0
	ok := true
	for _, b := range fn.Blocks {
		for _, in := range b.Instrs {
			call, isCall := in.(*ssa.Call)
			if !isCall {
				continue
			}
			if bi, isB := call.Call.Value.(*ssa.Builtin); isB && bi.Name() == "copy" {
				n++
				dst, ok1 := rowSlice(call.Call.Args[0])
				src, ok2 := rowSlice(call.Call.Args[1])
				if !ok1 || !ok2 || dst.row != src.row || dst.frame != ssa.Value(fn.Params[0]) || src.frame != ssa.Value(fn.Params[1]) {
					ok = false
				}
			}
		}
	}
	return ok && n == 1
}

// unclampedPixel returns a pixel term that occurs outside max(pixel, T); "" if none.
func unclampedPixel(t *Term, T string, clamped bool) string {
	if t.Op == "index" && len(t.Args) == 2 && t.Args[0].Op == "index" {
		if !clamped {
			return t.String()
		}
		return ""
	}
	if t.Op == "max" {
		hasT := false
		for _, a := range t.Args {
			if a.String() == T {
				hasT = true
			}
		}
		for _, a := range t.Args {
			if s := unclampedPixel(a, T, hasT && a.Op == "index"); s != "" {
				return s
			}
		}
		return ""
	}
	for _, a := range t.Args {
		if s := unclampedPixel(a, T, false); s != "" {
			return s
		}
	}
	return ""
}

func onlyFeedsDebug(v ssa.Value) bool {
	refs := v.Referrers()
	if refs == nil {
		return true
	}
	for _, rf := range *refs {
		switch x := rf.(type) {
		case *ssa.Call:
			if !strings.Contains(calleeName(x), "debugTracker.") {
				return false
			}
		case *ssa.DebugRef:
		default:
			return false
		}
	}
	return true
}

// ---------------------------------------------------------------------------------------
// C07

func propC07(w *World, r *Report) {
	r.Explanation = "Decided clause — the detector kernel's normal form equals the statement's: (K1) the differencing and counting loops range over exactly rows [E, H-E) and columns [E, W-E); (K2) both operands of the difference are max(pixel, tempThresh); (K3) warmer-only selects max(a-b, 0), otherwise |a-b| (in a signed >= 32-bit intermediate), use-one-diff selects the one-frame count, otherwise the count over both the current and the previous diff (the other slot of the 2-ring); (K4) a pixel counts iff diff > delta-thresh (strict), motion iff count >= count-thresh (non-strict); (K5) the comparison partner is Oldest() of a ring of FrameCompareGap+1 frames into whose current slot the frame was copied before, advanced after; (K6) the first comparison after start-up returns false. Rule: induction-variable intervals + min/max/abs normal forms + exhaustive path enumeration of the loop-free selection logic."
	r.RuleText = "obligation per (rule, kernel / path)"
	r.Assumptions = []string{"'gap frames earlier or earliest since reset' relies on the ring semantics (C19)", "FFC handling is C09's"}
	d := detSetup(w, r)
	if d == nil {
		return
	}
	k, err := findKernels(d)
	if err != nil {
		r.Unknown("roles", "detector kernels", "-", err.Error())
		return
	}
	e := newTermEnv(w)
	T := d.leaf("tempThresh")
	// K1
	checkDetectorParamsImmutable(w, r, d, "K1", "start", "rowStop", "columnStop", "deltaThresh", "countThresh", "warmerOnly", "useOneDiff")
	checkDetectorSeesEveryFrame(w, r, "K7")
	for _, fn := range []*ssa.Function{k.diffAbs, k.diffWarm, k.countOne, k.countTwo} {
		n := 0
		for _, a := range elemAccesses(fn) {
			n++
			row, col := d.rangeOf(e, a.Row), d.colRange(e, a)
			exact := row.ok && col.ok && row.lo == linS && row.hi == linR1 && col.lo == linS && col.hi == linC1
			r.Check(exact, "K1", accessName(w, e, a, n)+" ranges over exactly the interior", w.InstrPos(a.Instr), fmt.Sprintf("rows [%s,%s] cols [%s,%s] %s%s", row.lo, row.hi, col.lo, col.hi, row.why, col.why))
		}
	}
	// K2 / K3 kernels
	pix := func(p int) string {
		return fmt.Sprintf("index(index(cptvframe.Frame.Pix@param#%d:cptvframe.Frame, iv(%s, 1)), iv(%s, 1))", p, d.leaf("start"), d.leaf("start"))
	}
	A := tminmax("max", tleaf(pix(1)), tleaf(T))
	B := tminmax("max", tleaf(pix(2)), tleaf(T))
	diff := tsub(A, B)
	wantAbs := mk("abs", "", diff).String()
	wantWarm := tminmax("max", tconst(0), diff).String()
	for _, kk := range []struct {
		fn   *ssa.Function
		want string
		what string
	}{{k.diffAbs, wantAbs, "|max(a,T) - max(b,T)|"}, {k.diffWarm, wantWarm, "max(max(a,T) - max(b,T), 0)"}} {
		for _, vfn := range kernelFamily(kk.fn)[1:] {
			// a variant of the kernel it hands off to (a verbose / fast twin): the same stored form is demanded of it
			for _, a := range elemAccesses(vfn) {
				if a.IsStore {
					got := e.termOf(a.Val).String()
					r.Check(got == kk.want, "K2", vfn.Name()+" (variant of "+kk.fn.Name()+"): stored difference is "+kk.what, w.InstrPos(a.Instr), got)
					checkPixelStoredOnEveryIteration(w, r, e, vfn, a, T, "K2")
				}
			}
		}
		for _, a := range elemAccesses(kk.fn) {
			if !a.IsStore {
				continue
			}
			got := e.termOf(a.Val).String()
			r.Check(got == kk.want, "K2", kk.fn.Name()+": stored difference is "+kk.what, w.InstrPos(a.Instr), got)
			r.Check(a.Frame == ssa.Value(kk.fn.Params[3]), "K2", kk.fn.Name()+": result goes to the third frame argument at the same position", w.InstrPos(a.Instr), frameName(e, a.Frame))
			checkPixelStoredOnEveryIteration(w, r, e, kk.fn, a, T, "K2")
		}
	}
	checkThresholdInit(w, r, d, k, "K2")
	// signed intermediate
	for _, fn := range d.Funcs {
		for _, b := range fn.Blocks {
			for _, in := range b.Instrs {
				if bo, ok := in.(*ssa.BinOp); ok && bo.Op == token.SUB {
					if isPixelDerived(bo.X) && isPixelDerived(bo.Y) {
						bt, _ := bo.Type().Underlying().(*types.Basic)
						okT := bt != nil && bt.Info()&types.IsUnsigned == 0 && (bt.Kind() == types.Int32 || bt.Kind() == types.Int64 || bt.Kind() == types.Int || bt.Info()&types.IsFloat != 0)
						r.Check(okT, "K3", fn.Name()+": pixel difference computed in a signed/float type wider than 16 bits", w.InstrPos(bo), bo.Type().String())
					}
				}
			}
		}
	}
	// K4: counting conditions
	D := d.leaf("deltaThresh")
	for _, fn := range []*ssa.Function{k.countOne, k.countTwo} {
		found := 0
		for _, b := range fn.Blocks {
			for _, in := range b.Instrs {
				bo, ok := in.(*ssa.BinOp)
				if !ok || bo.Op != token.ADD {
					continue
				}
				if _, isPhi := bo.X.(*ssa.Phi); !isPhi {
					continue
				}
				if c, isC := bo.Y.(*ssa.Const); !isC || c.Int64() != 1 {
					continue
				}
				if !isInteger(bo.Type()) || e.ivOfIsLoopCounter(bo.X.(*ssa.Phi)) || rangeIndexOf(bo) != nil {
					continue
				}
				found++
				gs := e.guardsOf(b)
				var pixGuards []string
				for _, g := range gs {
					s := g.String()
					if isRangeLoopGuard(g) {
						continue // "the range loop is still running" is not a condition on pixel values
					}
					if strings.Contains(s, "cptvframe.Frame.Pix") {
						pixGuards = append(pixGuards, s)
					}
				}
				sort.Strings(pixGuards)
				var want []string
				nframes := 1
				if fn == k.countTwo {
					nframes = 2
				}
				for p := 1; p <= nframes; p++ {
					leaf := pix(p)
					if nframes == 1 {
						leaf = strings.Replace(leaf, "param#1:", "param:", 1)
					}
					want = append(want, "lt("+D+", "+leaf+")")
				}
				sort.Strings(want)
				r.Check(strings.Join(pixGuards, " ∧ ") == strings.Join(want, " ∧ "), "K4", fn.Name()+": a pixel is counted iff diff > delta-thresh (strict) in "+fmt.Sprint(nframes)+" frame(s)", w.InstrPos(bo), strings.Join(pixGuards, " ∧ "))
			}
		}
		r.Check(found == 1, "K4", fn.Name()+": exactly one counting increment", "-", fmt.Sprint(found))
	}
	// hasMotion (when the verdict is not computed in the selection logic itself: that form is checked on its paths)
	if k.hasMotion != nil {
		he := newTermEnv(w)
		paths, complete := enumPaths(he, k.hasMotion, 16)
		if complete && len(paths) == 1 {
			// one helper per mode (no selection inside): each is checked, unfolded, on the paths of the selection logic (K3)
			r.Pass("K4", "hasMotion is a two-way selection", w.Pos(k.hasMotion.Pos()), "a single-mode verdict helper; the selection is made by its caller and checked there")
			paths = nil
		} else {
			r.Check(complete && len(paths) == 2, "K4", "hasMotion is a two-way selection", w.Pos(k.hasMotion.Pos()), fmt.Sprint(len(paths)))
		}
		for _, p := range paths {
			one := hasGuard(p.Conds, d.leaf("useOneDiff"))
			verdict := p.Term(he, p.Ret.Results[0]).String()
			var wantCall string
			if one {
				wantCall = "motion.motionDetector." + k.countOne.Name() + "("
			} else {
				wantCall = "motion.motionDetector." + k.countTwo.Name() + "("
			}
			okv := strings.HasPrefix(verdict, "le("+d.leaf("countThresh")+", "+wantCall)
			which := "two-diff count"
			if one {
				which = "one-diff count"
			}
			r.Check(okv, "K4", "hasMotion ["+strings.Join(guardStrings(p.Conds), " ∧ ")+"]: motion iff "+which+" >= count-thresh", w.InstrPos(p.Ret), verdict)
		}
	}
	// K3 / K5 / K6: pixelsChanged
	checkPixelsChanged(w, r, d, k, "K")
	// ... and what Detect reports is that verdict (a verdict computed and then lost - shadowed, overwritten - reports
	// no motion whatever the thresholds say)
	linkObligations(w, r, propC09, "C09", func(o *Obligation) bool {
		return o.Rule == "C09.F1" && strings.Contains(o.Construct, "every return of Detect is the selection logic's verdict")
	}, "K3")
	// K5: ring sizes
	var sz string
	for key := range d.Role {
		if strings.HasPrefix(key, "compareRingSize:") {
			sz = strings.TrimPrefix(key, "compareRingSize:")
		}
	}
	r.Check(strings.Contains(sz, "NewFrameLoop((config.ThermalMotion.FrameCompareGap"+cfgMotion+" + 1),"), "K5", "comparison ring holds FrameCompareGap+1 frames", w.Pos(d.Ctor.Pos()), sz)
	checkRingResetAndOldest(w, r, "K5")
	checkDetectorResetRings(w, r, d, k, "K5") // "earliest frame SINCE THE RESET": the detector's Reset really empties its rings
	if mruns, err := getMotionRuns(w); err == nil {
		checkProcessorResetResetsDetector(w, r, mruns, "K5") // ... and a camera reset reaches the detector on every path
		checkHandleConnMarker(w, r, "K5")
	} else {
		r.Unknown("K5", "MotionProcessor.Reset", "-", err.Error())
	}
	checkRingMove(w, r, "K5")
	// the slot the detector fills and the slot it is handed back by Move are the ring's slots at its position (a cached
	// pointer that a reset does not refresh leaves the first frames after the reset compared with a pre-reset frame)
	linkObligations(w, r, propC19, "C19", func(o *Obligation) bool {
		return o.Rule == "C19.Q6" && (strings.HasPrefix(o.Construct, "Current returns") || strings.HasPrefix(o.Construct, "Move ["))
	}, "K5")
	checkSettingsImmutable(w, r, "K2", "ThermalMotion:TempThresh|DeltaThresh|CountThresh|FrameCompareGap|UseOneDiffOnly|WarmerOnly|DynamicThreshold", "Config:Motion") // the thresholds, gap and flags as configured
	checkRingCapacityExact(w, r, "K5")
}

func (c *ssaConstHelper) unused() {}

type ssaConstHelper struct{}

func isPixelDerived(v ssa.Value) bool {
	for i := 0; i < 6; i++ {
		switch x := v.(type) {
		case *ssa.Convert:
			v = x.X
			continue
		case *ssa.Parameter:
			bt, ok := x.Type().Underlying().(*types.Basic)
			return ok && bt.Kind() == types.Uint16
		case *ssa.UnOp:
			_, _, c, ok := pixAddr(x.X)
			return ok && c != nil
		case *ssa.Phi:
			for _, ed := range x.Edges {
				if isPixelDerived(ed) {
					return true
				}
			}
			return false
		}
		return false
	}
	return false
}

// ivOfIsLoopCounter: the phi is a counted-loop variable with a header bound test.
func (e *termEnv) ivOfIsLoopCounter(p *ssa.Phi) bool {
	if e.ivOf(p) == nil {
		return false
	}
	_, _, ok := e.ivBound(p)
	return ok
}

// checkPixelsChanged enumerates the paths of the selection logic (C07 K3/K5/K6 and C09 F1/F3).
func checkPixelsChanged(w *World, r *Report, d *detInfo, k *kernels, fam string) {
	e := newTermEnv(w)
	fn := k.pixelsChanged
	stage := sameReceiverHelperOf(fn)
	kernel := map[*ssa.Function]bool{}
	for _, kf := range []*ssa.Function{k.updateBg, k.calcThresh, k.diffAbs, k.diffWarm, k.countOne, k.countTwo, k.reset, k.ffcPred} {
		if kf != nil {
			kernel[kf] = true
		}
	}
	paths, complete := enumPathsInl(e, fn, 512, func(c *ssa.Function) bool {
		if k.hasMotion != nil && c == k.hasMotion {
			return true
		}
		// a gating / bookkeeping step extracted from the selection logic into a method of the detector
		return !kernel[c] && stage(c) && isPtrTo(c.Signature.Recv().Type(), d.T)
	})
	paths = framesNonNil(paths)
	if !complete {
		r.Unknown(fam+"6", fn.Name(), w.Pos(fn.Pos()), "selection logic is not loop-free")
		return
	}
	r.Extra["selection_paths"] = len(paths)
	cmp, dif := "motion.motionDetector."+d.fname("compareRing"), "motion.motionDetector."+d.fname("diffRing")
	ringOf := func(v ssa.Value) string {
		// &d.ring (value field) passed as receiver
		if fa, ok := v.(*ssa.FieldAddr); ok && isPtrTo(fa.X.Type(), d.T) {
			return "motion.motionDetector." + d.St.Field(fa.Field).Name()
		}
		return ""
	}
	// first-diff flag: the bool field stored in this function
	var flag int = -1
	var famBlocks []*ssa.BasicBlock
	famBlocks = append(famBlocks, fn.Blocks...)
	for _, b := range fn.Blocks {
		for _, in := range b.Instrs {
			if c, ok := in.(*ssa.Call); ok {
				if callee := c.Call.StaticCallee(); callee != nil && !kernel[callee] && callee != k.hasMotion && len(callee.Blocks) > 0 && callee.Signature.Recv() != nil && isPtrTo(callee.Signature.Recv().Type(), d.T) && stage(callee) {
					famBlocks = append(famBlocks, callee.Blocks...)
				}
			}
		}
	}
	for _, b := range famBlocks {
		for _, in := range b.Instrs {
			if st, ok := in.(*ssa.Store); ok {
				if fa, ok := st.Addr.(*ssa.FieldAddr); ok && isPtrTo(fa.X.Type(), d.T) {
					if bt, ok := d.St.Field(fa.Field).Type().Underlying().(*types.Basic); ok && bt.Kind() == types.Bool {
						flag = fa.Field
					}
				}
			}
		}
	}
	if flag < 0 {
		r.Fail(fam+"6", "first-comparison flag", w.Pos(fn.Pos()), "no boolean flag is maintained by the selection logic", "")
		return
	}
	flagLeaf := "motion.motionDetector." + d.St.Field(flag).Name() + "@recv:motion.motionDetector"
	ffcCur := ""
	if t := e.inline(k.ffcPred, []ssa.Value{fn.Params[1]}); t != nil {
		ffcCur = t.String()
	}
	prevLeaf := e.termOf(fn.Params[2]).String()
	for i, p := range paths {
		name := fmt.Sprintf("selection path %d [%s]", i+1, strings.Join(guardStrings(p.Conds), " ∧ "))
		pos := w.InstrPos(p.Ret)
		// sequence of ring operations and kernel calls
		var seq []string
		var diffCall *ssa.Call
		var cmpFrame, curFloor, diffCur, diffPrev ssa.Value
		var copyCall *ssa.Call
		deferredMove := false
		flagStores := []string{}
		marks := 0
		for _, in := range p.Instrs {
			switch x := in.(type) {
			case *ssa.Call:
				callee := x.Call.StaticCallee()
				if callee == nil {
					continue
				}
				rg := ""
				if len(x.Call.Args) > 0 {
					rg = ringOf(x.Call.Args[0])
				}
				switch {
				case rg == cmp && callee.Name() == "Current":
					curFloor = x
					seq = append(seq, "cmp.Current")
				case rg == cmp && callee.Name() == "Oldest":
					cmpFrame = x
					seq = append(seq, "cmp.Oldest")
				case rg == cmp && callee.Name() == "SetAsOldest":
					marks++
					seq = append(seq, "cmp.SetAsOldest")
				case rg == dif && callee.Name() == "Current":
					diffCur = x
					seq = append(seq, "diff.Current")
				case rg == dif && callee.Name() == "Move":
					diffPrev = x
					seq = append(seq, "diff.Move")
				case callee == k.diffAbs || callee == k.diffWarm:
					diffCall = x
					seq = append(seq, "diff-kernel:"+callee.Name())
				case callee == k.hasMotion:
					seq = append(seq, "hasMotion")
				default:
					if isCopyInto(callee, x) {
						copyCall = x
						seq = append(seq, "copy-into-floor")
					}
				}
			case *ssa.Defer:
				if callee := x.Call.StaticCallee(); callee != nil && callee.Name() == "Move" && ringOf(x.Call.Args[0]) == cmp {
					deferredMove = true
					seq = append(seq, "defer cmp.Move")
				}
			case *ssa.Store:
				if fa, ok := x.Addr.(*ssa.FieldAddr); ok && isPtrTo(fa.X.Type(), d.T) && fa.Field == flag {
					flagStores = append(flagStores, e.termOf(x.Val).String())
				}
			}
		}
		// K5: common prefix
		okPrefix := curFloor != nil && cmpFrame != nil && copyCall != nil && deferredMove && diffCall != nil && diffCur != nil && diffPrev != nil
		if okPrefix {
			// copy of the input frame into the comparison ring's current slot happens before Oldest()
			idx := map[string]int{}
			for j, s := range seq {
				if _, seen := idx[s]; !seen {
					idx[s] = j
				}
			}
			okPrefix = idx["cmp.Current"] < idx["copy-into-floor"] && idx["copy-into-floor"] < idx["cmp.Oldest"] && idx["cmp.Oldest"] < idx["defer cmp.Move"]
			// kernel args: (floored current, compare frame, current diff slot)
			okPrefix = okPrefix && len(diffCall.Call.Args) == 4 && sameFrame(diffCall.Call.Args[1], curFloor, copyCall) && diffCall.Call.Args[2] == cmpFrame && diffCall.Call.Args[3] == diffCur
			// the copy goes FROM the input frame INTO the comparison ring's current slot
			if cd, cs, okc := frameCopyOf(copyCall.Call.StaticCallee(), copyCall.Call.Args, 0); !okc || p.Origin(cd) != curFloor || !isParamOfFamily(p.Origin(cs)) {
				okPrefix = false
			}
		}
		r.Check(okPrefix, fam+"5", name+": frame copied into the comparison ring, compared with Oldest(), ring advanced afterwards, result into the current diff slot", pos, strings.Join(seq, " → "))
		// K3 selection of the kernel
		if diffCall != nil {
			warm := hasGuard(p.Conds, d.leaf("warmerOnly"))
			want := k.diffAbs
			if warm {
				want = k.diffWarm
			}
			r.Check(diffCall.Call.StaticCallee() == want, fam+"3", name+": warmer-only selects the warmer kernel, otherwise the absolute kernel", pos, diffCall.Call.StaticCallee().Name())
		}
		// return classification
		ret0 := p.Term(e, p.Ret.Results[0]).String()
		mayBeTrue := ret0 != "false"
		first := hasGuard(p.Conds, tnot(tleaf(flagLeaf)).String())
		ffc := hasGuardContaining(p.Conds, ffcCur, true) || hasGuard(p.Conds, prevLeaf)
		noFFC := hasGuardContaining(p.Conds, ffcCur, false) && hasGuard(p.Conds, tnot(tleaf(prevLeaf)).String())
		switch {
		case first:
			r.Check(!mayBeTrue && len(flagStores) == 1 && flagStores[0] == "true", fam+"6", name+": the first comparison returns false and arms the flag", pos, "returns "+ret0+", flag <- "+strings.Join(flagStores, ","))
		case ffc:
			r.Check(!mayBeTrue && marks == 1 && len(flagStores) == 1 && flagStores[0] == "false", "F3", name+": FFC on this or the previous frame returns false, re-marks the comparison ring and clears the flag", pos,
				fmt.Sprintf("returns %s, marks=%d, flag <- %s", ret0, marks, strings.Join(flagStores, ",")))
		default:
			// a motion verdict: must be guarded by flag ∧ ¬ffc(cur) ∧ ¬ffc(prev)
			r.Check(hasGuard(p.Conds, flagLeaf) && noFFC, "F1", name+": a motion verdict is only produced with the flag armed and no FFC on this or the previous frame", pos, strings.Join(guardStrings(p.Conds), " ∧ "))
			one := hasGuard(p.Conds, d.leaf("useOneDiff"))
			// the verdict (whether computed here or in an unfolded helper): count-thresh <= CountPixels(current diff) with
			// use-one-diff, else count-thresh <= CountPixelsTwoCompare(current diff, previous diff)
			var cnt *ssa.Call
			nCnt := 0
			for _, in := range p.Instrs {
				if c, ok := in.(*ssa.Call); ok && (c.Call.StaticCallee() == k.countOne || c.Call.StaticCallee() == k.countTwo) {
					cnt = c
					nCnt++
				}
			}
			okSel := cnt != nil && nCnt == 1 && diffCur != nil && p.Term(e, cnt.Call.Args[1]).String() == p.Term(e, diffCur).String()
			if okSel {
				if one {
					okSel = cnt.Call.StaticCallee() == k.countOne
				} else {
					okSel = cnt.Call.StaticCallee() == k.countTwo && diffPrev != nil && p.Term(e, cnt.Call.Args[2]).String() == p.Term(e, diffPrev).String()
				}
			}
			if okSel {
				okSel = ret0 == "le("+d.leaf("countThresh")+", "+p.Term(e, cnt).String()+")"
			}
			r.Check(okSel, fam+"3", name+": verdict = count-thresh <= changed pixels of the current diff (and, unless use-one-diff, of the previous diff = the other slot of the 2-ring)", pos, ret0+" ; "+strings.Join(seq, " → "))
			r.Check(len(flagStores) == 0 && marks == 0, fam+"6", name+": no bookkeeping change on a normal comparison", pos, "")
		}
	}
}

func hasGuardContaining(gs []Guard, condStr string, pos bool) bool {
	if condStr == "" {
		return false
	}
	for _, g := range gs {
		if g.Cond.String() == condStr && g.Pos == pos {
			return true
		}
	}
	return false
}

// frameCopyOf: does the call copy one frame's content (telemetry and every pixel) into another frame's own rows?
// Recognised: cptvframe.Frame.Copy; a helper every path of which passes such a copy between two of its parameters and
// which never assigns a frame's row table; a hand-written deep copy (dst.Status = src.Status and, for every row index
// of the full range, copy(dst.Pix[i], src.Pix[i])). Returns the destination and source as values of the caller.
func frameCopyOf(callee *ssa.Function, args []ssa.Value, depth int) (dst, src ssa.Value, ok bool) {
	if callee == nil || depth > 2 {
		return nil, nil, false
	}
	if callee.Name() == "Copy" && callee.Signature.Recv() != nil && typeIs(callee.Signature.Recv().Type(), "github.com/TheCacophonyProject/go-cptv/cptvframe", "Frame") && len(args) == 2 {
		return args[0], args[1], true
	}
	if len(callee.Blocks) == 0 || len(args) != len(callee.Params) {
		return nil, nil, false
	}
	paramIdx := func(v ssa.Value) int {
		for i, p := range callee.Params {
			if v == ssa.Value(p) {
				return i
			}
		}
		return -1
	}
	// hand-written deep copy
	if d, sidx, ok := handWrittenFrameCopy(callee); ok {
		return args[d], args[sidx], true
	}
	// wrapper: every path passes a frame copy between two parameters
	di, si := -1, -1
	copies := map[*ssa.BasicBlock]bool{}
	for _, b := range callee.Blocks {
		for _, in := range b.Instrs {
			if c, isCall := in.(*ssa.Call); isCall {
				if d, s0, ok := frameCopyOf(c.Call.StaticCallee(), c.Call.Args, depth+1); ok {
					pd, ps := paramIdx(d), paramIdx(s0)
					if pd < 0 || ps < 0 || di >= 0 && (pd != di || ps != si) {
						return nil, nil, false
					}
					di, si = pd, ps
					copies[b] = true
				}
			}
			if st, isSt := in.(*ssa.Store); isSt {
				if fa, isFa := st.Addr.(*ssa.FieldAddr); isFa && isPixField(fa) {
					return nil, nil, false
				}
			}
		}
	}
	if di < 0 {
		return nil, nil, false
	}
	seen := map[*ssa.BasicBlock]bool{}
	var walk func(b *ssa.BasicBlock) bool
	walk = func(b *ssa.BasicBlock) bool {
		if seen[b] || copies[b] {
			return false
		}
		seen[b] = true
		if _, isRet := b.Instrs[len(b.Instrs)-1].(*ssa.Return); isRet {
			return true
		}
		for _, s := range b.Succs {
			if walk(s) {
				return true
			}
		}
		return false
	}
	if walk(callee.Blocks[0]) {
		return nil, nil, false // a return is reachable without the copy
	}
	return args[di], args[si], true
}

// handWrittenFrameCopy: fn is "dst.Status = src.Status; for i over all rows { copy(dst.Pix[i], src.Pix[i]) }" for two
// of its parameters, with no other branching and no assignment of a row table.
func handWrittenFrameCopy(fn *ssa.Function) (dstIdx, srcIdx int, ok bool) {
	paramOf := func(v ssa.Value) int {
		for i, p := range fn.Params {
			if v == ssa.Value(p) {
				return i
			}
		}
		return -1
	}
	// row(v): v = *(&(*(&P.Pix))[i])  ->  (param index, i)
	row := func(v ssa.Value) (int, ssa.Value) {
		ld, ok := v.(*ssa.UnOp)
		if !ok || ld.Op != token.MUL {
			return -1, nil
		}
		ia, ok := ld.X.(*ssa.IndexAddr)
		if !ok {
			return -1, nil
		}
		tbl, ok := ia.X.(*ssa.UnOp)
		if !ok || tbl.Op != token.MUL {
			return -1, nil
		}
		fa, ok := tbl.X.(*ssa.FieldAddr)
		if !ok || !isPixField(fa) {
			return -1, nil
		}
		return paramOf(fa.X), ia.Index
	}
	nIf, nCopy, status := 0, 0, false
	dstIdx, srcIdx = -1, -1
	var copyBlock *ssa.BasicBlock
	var idx ssa.Value
	for _, b := range fn.Blocks {
		for _, in := range b.Instrs {
			switch x := in.(type) {
			case *ssa.If:
				nIf++
			case *ssa.Store:
				if fa, isFa := x.Addr.(*ssa.FieldAddr); isFa {
					if isPixField(fa) {
						return -1, -1, false
					}
					if structOf(fa.X.Type()) != nil && structOf(fa.X.Type()).Field(fa.Field).Name() == "Status" {
						if ld, isLd := x.Val.(*ssa.UnOp); isLd {
							if fs, isFs := ld.X.(*ssa.FieldAddr); isFs && structOf(fs.X.Type()).Field(fs.Field).Name() == "Status" && paramOf(fa.X) >= 0 && paramOf(fs.X) >= 0 {
								dstIdx, srcIdx, status = paramOf(fa.X), paramOf(fs.X), true
							}
						}
					}
				}
			case *ssa.Call:
				if bi, isB := x.Call.Value.(*ssa.Builtin); isB && bi.Name() == "copy" {
					pd, i1 := row(x.Call.Args[0])
					ps, i2 := row(x.Call.Args[1])
					if pd < 0 || ps < 0 || i1 != i2 {
						return -1, -1, false
					}
					nCopy++
					copyBlock, idx = b, i1
					if status && (pd != dstIdx || ps != srcIdx) {
						return -1, -1, false
					}
					dstIdx, srcIdx = pd, ps
				} else if x.Call.StaticCallee() != nil && len(x.Call.StaticCallee().Blocks) > 0 {
					return -1, -1, false
				}
			}
		}
	}
	if !(status && nCopy == 1 && nIf == 1 && dstIdx != srcIdx && copyBlock != nil) {
		return -1, -1, false
	}
	// the index is the loop's counter starting at 0 (range over the rows / i := 0; i < len(rows); i++)
	zero := false
	switch x := idx.(type) {
	case *ssa.Phi:
		for _, ed := range x.Edges {
			if c, isC := ed.(*ssa.Const); isC && c.Value != nil && c.Value.ExactString() == "0" {
				zero = true
			}
		}
	case *ssa.BinOp:
		// go/ssa's range loops: k = phi [-1, k+1]; the body uses k+1
		if ph, isPhi := x.X.(*ssa.Phi); isPhi && x.Op == token.ADD {
			if one, isC := x.Y.(*ssa.Const); isC && one.Value != nil && one.Value.ExactString() == "1" {
				for _, ed := range ph.Edges {
					if c, isC := ed.(*ssa.Const); isC && c.Value != nil && c.Value.ExactString() == "-1" {
						zero = true
					}
				}
			}
		}
	}
	return dstIdx, srcIdx, zero
}

// isCopyInto: a call that copies a frame into another frame (see frameCopyOf).
func isCopyInto(callee *ssa.Function, call *ssa.Call) bool {
	_, _, ok := frameCopyOf(callee, call.Call.Args, 0)
	return ok
}

func sameFrame(arg ssa.Value, cur ssa.Value, copyCall *ssa.Call) bool {
	if arg == cur {
		return true
	}
	// the helper may return its destination
	if arg == ssa.Value(copyCall) {
		return true
	}
	return false
}

// clampOnlyUses returns an instruction that uses the raw pixel value v for anything but the clamp against the
// threshold: comparisons with the threshold, phis merging it with the threshold, pure clamp helpers (checked
// recursively on their parameter) and the debug tracker are allowed.
func clampOnlyUses(v ssa.Value, isT func(ssa.Value) bool, depth int) ssa.Instruction {
	refs := v.Referrers()
	if refs == nil || depth > 3 {
		return nil
	}
	for _, rf := range *refs {
		switch x := rf.(type) {
		case *ssa.DebugRef:
		case *ssa.BinOp:
			cmp := x.Op == token.LSS || x.Op == token.GTR || x.Op == token.LEQ || x.Op == token.GEQ
			other := x.Y
			if other == v {
				other = x.X
			}
			if !(cmp && isT(other)) {
				return x
			}
		case *ssa.Phi:
			// merged with the threshold (or with itself through the clamp): the phi is the clamped value
			okPhi := false
			for _, ed := range x.Edges {
				if isT(ed) {
					okPhi = true
				}
			}
			if !okPhi {
				return x
			}
		case *ssa.Convert:
			if !onlyFeedsDebug(x) {
				return x
			}
		case *ssa.Call:
			callee := x.Call.StaticCallee()
			if callee == nil || !isPureHelper(callee, 0) {
				if strings.Contains(calleeName(x), "debugTracker.") {
					continue
				}
				return x
			}
			// the helper must be a clamp of this argument against the threshold argument
			pi, ti := -1, -1
			for i, a := range x.Call.Args {
				if a == v {
					pi = i
				} else if isT(a) {
					ti = i
				}
			}
			if pi < 0 {
				return x
			}
			inner := isT // a closure / method reads the threshold itself (same predicate, evaluated on its own values)
			if ti >= 0 {
				inner = func(q ssa.Value) bool { return q == ssa.Value(callee.Params[ti]) }
			}
			if bad := clampOnlyUses(callee.Params[pi], inner, depth+1); bad != nil {
				return bad
			}
		case *ssa.Return:
			// returned from a clamp helper: fine, the caller's term is checked separately
		default:
			return rf
		}
	}
	return nil
}

// isRangeLoopGuard recognises the header test of "for i := range X": lt(rangeidx(X), len(X)), taken.
func isRangeLoopGuard(g Guard) bool {
	t := g.Cond
	return g.Pos && t.Op == "lt" && len(t.Args) == 2 && t.Args[0].Op == "rangeidx" && t.Args[1].Op == "len" &&
		len(t.Args[0].Args) == 1 && len(t.Args[1].Args) == 1 && t.Args[0].Args[0].String() == t.Args[1].Args[0].String()
}

// checkThresholdInit: with a fixed threshold the value every pixel is raised to is the configured temp-thresh itself:
// the constructor stores it unmodified and does not run it through the dynamic-threshold computation (whose min/max
// limits belong to dynamic thresholding only).
func checkThresholdInit(w *World, r *Report, d *detInfo, k *kernels, rule string) {
	init := "<unset>"
	fi := d.Role["tempThresh"]
	ce := newTermEnv(w)
	for _, b := range d.Ctor.Blocks {
		for _, in := range b.Instrs {
			if st, ok := in.(*ssa.Store); ok {
				if fa, ok := st.Addr.(*ssa.FieldAddr); ok && isPtrTo(fa.X.Type(), d.T) && fa.Field == fi {
					init = ce.termOf(st.Val).String()
				}
			}
			if c, ok := in.(*ssa.Call); ok && c.Call.StaticCallee() == k.calcThresh {
				init = "computed by " + k.calcThresh.Name() + "(" + ce.termOf(c.Call.Args[1]).String() + ") — subject to the dynamic min/max limits"
			}
		}
	}
	r.Check(init == "config.ThermalMotion.TempThresh"+cfgMotion, rule, "the threshold both values are raised to starts as the configured temp-thresh, unmodified", w.Pos(d.Ctor.Pos()), init)
}

// isParamOfFamily: v is a frame-typed parameter of the function it occurs in (the input frame handed down to a stage).
func isParamOfFamily(v ssa.Value) bool {
	p, ok := v.(*ssa.Parameter)
	return ok && typeIs(p.Type(), "github.com/TheCacophonyProject/go-cptv/cptvframe", "Frame")
}

// checkPixelStoredOnEveryIteration: the kernel stores its result for EVERY interior pixel - the diff frames are re-used
// ring slots, a pixel that is skipped keeps the difference of two frames ago (and with it the influence of whatever the
// skip test looked at, e.g. sub-threshold values).
func checkPixelStoredOnEveryIteration(w *World, r *Report, e *termEnv, fn *ssa.Function, a pixAccess, T string, rule string) {
	// the difference is stored for EVERY interior pixel: the diff frames are re-used ring slots, a pixel that is
	// skipped keeps the difference of two frames ago
	var dataGuards []string
	for _, g := range e.guardsOf(a.Instr.Block()) {
		gs := g.String()
		if isRangeLoopGuard(g) || g.If.Parent() != fn {
			continue
		}
		if strings.Contains(gs, "cptvframe.Frame.Pix") || strings.Contains(gs, T) {
			dataGuards = append(dataGuards, gs)
		}
	}
	// ... and no path through the loop body comes round to the next pixel without passing the store (a && b skips
	// have no single dominating guard)
	skip := ""
	if ph, ok := a.Col.(*ssa.Phi); ok {
		h := ph.Block()
		for _, body := range h.Succs {
			if !h.Dominates(body) || !reaches(body, h) {
				continue // the exit edge
			}
			if by, at := canBypass(body, a.Instr.Block(), h); by && at == h {
				skip = "the loop continues with the next pixel without storing (via block " + fmt.Sprint(at.Index) + ")"
			}
		}
	}
	r.Check(len(dataGuards) == 0 && skip == "", rule, fn.Name()+": the difference is stored for every interior pixel (no data-dependent skip)", w.InstrPos(a.Instr), strings.Join(dataGuards, " ; ")+skip)
}

// kernelFamily: the kernels given, each followed by the functions of the same receiver it hands its frames on to (a
// per-mode twin of the kernel: verbose, fast path): what is demanded of a kernel is demanded of its twins.
func kernelFamily(fns ...*ssa.Function) []*ssa.Function {
	var out []*ssa.Function
	seen := map[*ssa.Function]bool{}
	var add func(fn *ssa.Function, depth int)
	add = func(fn *ssa.Function, depth int) {
		if fn == nil || seen[fn] || depth > 2 {
			return
		}
		seen[fn] = true
		out = append(out, fn)
		for _, b := range fn.Blocks {
			for _, in := range b.Instrs {
				c, ok := in.(*ssa.Call)
				if !ok {
					continue
				}
				cl := c.Call.StaticCallee()
				if cl == nil || cl.Pkg != fn.Pkg || len(cl.Blocks) == 0 || cl.Signature.Recv() == nil || fn.Signature.Recv() == nil || !types.Identical(cl.Signature.Recv().Type(), fn.Signature.Recv().Type()) {
					continue
				}
				nFrames := 0
				for _, a := range c.Call.Args {
					if typeIs(a.Type(), "github.com/TheCacophonyProject/go-cptv/cptvframe", "Frame") {
						nFrames++
					}
				}
				if nFrames >= 2 {
					add(cl, depth+1)
				}
			}
		}
	}
	for _, fn := range fns {
		add(fn, 0)
	}
	return out
}
