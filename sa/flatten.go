package main

// E1b: source normalisation "grouped fields". A struct T of the repository that keeps some of its state in a field g of
// a plain data struct type S (declared in the same package, no methods, held BY VALUE) is the same program as T with
// S's fields g__f declared directly in T, provided every use of g is field-wise: x.g.f, the promoted form x.f of an
// embedded S, T{g: S{f: v, ...}} and x.g = S{f: v, ...} with every field given. The analyses resolve the roles of a
// component's state on the top-level fields of the component type, so such a T is rewritten (in an overlay, never on
// disk; line numbers are preserved) before the program is type-checked and turned into SSA. Anything else - g passed,
// copied, compared, its address taken, S with methods, positional literals - leaves T as it is.

import (
	"fmt"
	"go/ast"
	"go/token"
	"go/types"
	"os"
	"sort"
	"strings"

	"golang.org/x/tools/go/packages"
)

type flatCand struct {
	pkg      *packages.Package
	T        *types.Named
	g        *types.Var
	S        *types.Named
	sStruct  *types.Struct
	decl     *ast.Field
	file     *ast.File
	embedded bool
	bad      string
}

type textEdit struct {
	lo, hi int // byte offsets
	text   string
}

func flatName(g, f string) string { return g + "__" + f }

// groupedFieldOverlays computes the overlay for all flattenable (T, g) of the repository packages.
func groupedFieldOverlays(fset *token.FileSet, repo []*packages.Package, overlay map[string][]byte) (map[string][]byte, []string) {
	var cands []*flatCand
	byVar := map[*types.Var]*flatCand{}
	// declaration of every named struct type of the repository: its *ast.StructType and file
	type declInfo struct {
		st   *ast.StructType
		file *ast.File
		pkg  *packages.Package
	}
	decls := map[*types.TypeName]declInfo{}
	for _, p := range repo {
		for _, f := range p.Syntax {
			for _, d := range f.Decls {
				gd, ok := d.(*ast.GenDecl)
				if !ok || gd.Tok != token.TYPE {
					continue
				}
				for _, sp := range gd.Specs {
					ts := sp.(*ast.TypeSpec)
					if st, ok := ts.Type.(*ast.StructType); ok && ts.TypeParams == nil {
						if tn, ok := p.TypesInfo.Defs[ts.Name].(*types.TypeName); ok {
							decls[tn] = declInfo{st, f, p}
						}
					}
				}
			}
		}
	}
	hasMethods := func(n *types.Named) bool {
		return n.NumMethods() > 0
	}
	for tn, di := range decls {
		T, ok := tn.Type().(*types.Named)
		if !ok {
			continue
		}
		for _, fld := range di.st.Fields.List {
			if len(fld.Names) > 1 || fld.Tag != nil {
				continue
			}
			ft := di.pkg.TypesInfo.TypeOf(fld.Type)
			S, ok := ft.(*types.Named)
			if !ok {
				continue
			}
			ss, ok := S.Underlying().(*types.Struct)
			if !ok || S.Obj().Pkg() != di.pkg.Types || hasMethods(S) || ss.NumFields() == 0 || S.TypeParams().Len() > 0 {
				continue
			}
			if _, declared := decls[S.Obj()]; !declared {
				continue
			}
			var gv *types.Var
			if len(fld.Names) == 1 {
				gv, _ = di.pkg.TypesInfo.Defs[fld.Names[0]].(*types.Var)
			} else {
				// embedded: the implicit field object
				st := T.Underlying().(*types.Struct)
				for i := 0; i < st.NumFields(); i++ {
					if st.Field(i).Embedded() && types.Identical(st.Field(i).Type(), S) {
						gv = st.Field(i)
					}
				}
			}
			if gv == nil {
				continue
			}
			// S itself must be flat data: no field of S is again a candidate-shaped struct we would need to recurse into
			// (kept simple: nested grouping is left alone), no embedded fields, no tags
			sd := decls[S.Obj()]
			okS := true
			for _, sf := range sd.st.Fields.List {
				if len(sf.Names) == 0 || sf.Tag != nil {
					okS = false
				}
			}
			if !okS {
				continue
			}
			c := &flatCand{pkg: di.pkg, T: T, g: gv, S: S, sStruct: ss, decl: fld, file: di.file, embedded: len(fld.Names) == 0}
			cands = append(cands, c)
			byVar[gv] = c
		}
	}
	if len(cands) == 0 {
		return nil, nil
	}
	src := func(name string) []byte {
		if b, ok := overlay[name]; ok {
			return b
		}
		b, _ := os.ReadFile(name)
		return b
	}
	edits := map[string][]textEdit{}
	editsOf := map[*flatCand]map[string][]textEdit{}
	add := func(c *flatCand, pos, end token.Pos, text string) {
		p := fset.Position(pos)
		e := fset.Position(end)
		if editsOf[c] == nil {
			editsOf[c] = map[string][]textEdit{}
		}
		editsOf[c][p.Filename] = append(editsOf[c][p.Filename], textEdit{p.Offset, e.Offset, text})
	}
	fieldOfS := func(c *flatCand, v types.Object) bool {
		for i := 0; i < c.sStruct.NumFields(); i++ {
			if c.sStruct.Field(i) == v {
				return true
			}
		}
		return false
	}
	// a complete keyed literal of S: key -> value expression text range
	completeLit := func(c *flatCand, p *packages.Package, e ast.Expr) (*ast.CompositeLit, bool) {
		cl, ok := ast.Unparen(e).(*ast.CompositeLit)
		if !ok || !types.Identical(p.TypesInfo.TypeOf(cl), c.S) {
			return nil, false
		}
		seen := map[string]bool{}
		for _, el := range cl.Elts {
			kv, ok := el.(*ast.KeyValueExpr)
			if !ok {
				return nil, false
			}
			id, ok := kv.Key.(*ast.Ident)
			if !ok || seen[id.Name] {
				return nil, false
			}
			seen[id.Name] = true
		}
		return cl, true
	}
	dropTrailingComma := func(c *flatCand, cl *ast.CompositeLit) {
		fn := fset.Position(cl.Pos()).Filename
		b := src(fn)
		last := cl.Elts[len(cl.Elts)-1]
		tail := string(b[fset.Position(last.End()).Offset:fset.Position(cl.Rbrace).Offset])
		if i := strings.Index(tail, ","); i >= 0 {
			o := fset.Position(last.End()).Offset + i
			if editsOf[c] == nil {
				editsOf[c] = map[string][]textEdit{}
			}
			editsOf[c][fn] = append(editsOf[c][fn], textEdit{o, o + 1, ""})
		}
	}
	for _, p := range repo {
		for _, f := range p.Syntax {
			// parents
			var stack []ast.Node
			handled := map[ast.Node]bool{}
			ast.Inspect(f, func(n ast.Node) bool {
				if n == nil {
					stack = stack[:len(stack)-1]
					return true
				}
				parent := ast.Node(nil)
				if len(stack) > 0 {
					parent = stack[len(stack)-1]
				}
				stack = append(stack, n)
				switch x := n.(type) {
				case *ast.SelectorExpr:
					sel := p.TypesInfo.Selections[x]
					if sel == nil || sel.Kind() != types.FieldVal {
						return true
					}
					// promoted field through an embedded candidate: x.f with the implicit path [.., g, f]
					if idx := sel.Index(); len(idx) >= 2 {
						// walk the implicit path
						t := sel.Recv()
						var path []*types.Var
						for _, i := range idx {
							if pt, ok := t.Underlying().(*types.Pointer); ok {
								t = pt.Elem()
							}
							st, ok := t.Underlying().(*types.Struct)
							if !ok {
								break
							}
							path = append(path, st.Field(i))
							t = st.Field(i).Type()
						}
						for k, v := range path {
							if c := byVar[v]; c != nil {
								if k == len(path)-2 && len(path) == 2 {
									add(c, x.Sel.Pos(), x.Sel.End(), flatName(c.g.Name(), x.Sel.Name))
								} else {
									c.bad = "deep promoted access at " + fset.Position(x.Pos()).String()
								}
							}
						}
						return true
					}
					c := byVar[sel.Obj().(*types.Var)]
					if c == nil || handled[x] {
						return true
					}
					// explicit x.g: must be the operand of .f, or the target of a complete literal assignment
					if ps, ok := parent.(*ast.SelectorExpr); ok && ps.X == ast.Expr(x) {
						if s2 := p.TypesInfo.Selections[ps]; s2 != nil && s2.Kind() == types.FieldVal && len(s2.Index()) == 1 && fieldOfS(c, s2.Obj()) {
							add(c, x.Sel.Pos(), ps.Sel.End(), flatName(c.g.Name(), ps.Sel.Name))
							return true
						}
					}
					if as, ok := parent.(*ast.AssignStmt); ok && as.Tok == token.ASSIGN && len(as.Lhs) == 1 && len(as.Rhs) == 1 && as.Lhs[0] == ast.Expr(x) {
						if cl, ok := completeLit(c, p, as.Rhs[0]); ok {
							// x.g = S{a: e1, b: e2}  ->  x.g__a, x.g__b = e1, e2   (same evaluation order)
							base := string(src(fset.Position(x.Pos()).Filename)[fset.Position(x.X.Pos()).Offset:fset.Position(x.X.End()).Offset])
							if _, simple := ast.Unparen(x.X).(*ast.Ident); !simple {
								c.bad = "literal assignment through a non-trivial receiver expression at " + fset.Position(x.Pos()).String()
								return true
							}
							var lhs, zeros []string
							given := map[string]bool{}
							for _, el := range cl.Elts {
								kv := el.(*ast.KeyValueExpr)
								given[kv.Key.(*ast.Ident).Name] = true
								lhs = append(lhs, base+"."+flatName(c.g.Name(), kv.Key.(*ast.Ident).Name))
							}
							// fields the literal leaves out are set to their zero value (after the given ones: the given
							// expressions keep their evaluation order, zero values have no effects)
							okZero := true
							for i := 0; i < c.sStruct.NumFields(); i++ {
								f := c.sStruct.Field(i)
								if given[f.Name()] {
									continue
								}
								z := zeroText(f.Type())
								if z == "" {
									okZero = false
								}
								lhs = append(lhs, base+"."+flatName(c.g.Name(), f.Name()))
								zeros = append(zeros, z)
							}
							if !okZero {
								c.bad = "partial literal assignment with a field whose zero value cannot be spelled at " + fset.Position(x.Pos()).String()
								return true
							}
							add(c, x.Pos(), x.End(), strings.Join(lhs, ", "))
							if len(cl.Elts) == 0 {
								add(c, cl.Pos(), cl.End(), strings.Join(zeros, ", "))
								return true
							}
							// drop "S{" and "}" and the keys, keep the values
							add(c, cl.Pos(), cl.Lbrace+1, "")
							for _, el := range cl.Elts {
								kv := el.(*ast.KeyValueExpr)
								add(c, kv.Key.Pos(), kv.Value.Pos(), "")
							}
							dropTrailingComma(c, cl)
							tail := ""
							if len(zeros) > 0 {
								tail = ", " + strings.Join(zeros, ", ")
							}
							add(c, cl.Rbrace, cl.Rbrace+1, tail)
							return true
						}
					}
					c.bad = "whole-value use at " + fset.Position(x.Pos()).String()
				case *ast.CompositeLit:
					lt := p.TypesInfo.TypeOf(x)
					if lt == nil {
						return true
					}
					if pt, ok := lt.Underlying().(*types.Pointer); ok {
						lt = pt.Elem()
					}
					for _, c := range cands {
						if !types.Identical(lt, c.T) {
							continue
						}
						for _, el := range x.Elts {
							kv, ok := el.(*ast.KeyValueExpr)
							if !ok {
								c.bad = "positional literal of " + c.T.Obj().Name() + " at " + fset.Position(x.Pos()).String()
								continue
							}
							id, ok := kv.Key.(*ast.Ident)
							if !ok || p.TypesInfo.ObjectOf(id) != types.Object(c.g) {
								continue
							}
							// g: S{a: v, ...}  ->  g__a: v, ...   (a partial literal is fine here: omitted fields stay zero)
							cl, ok := ast.Unparen(kv.Value).(*ast.CompositeLit)
							if !ok || !types.Identical(p.TypesInfo.TypeOf(cl), c.S) || len(cl.Elts) == 0 {
								c.bad = "field initialised from a non-literal (or empty literal) at " + fset.Position(kv.Pos()).String()
								continue
							}
							okInner := true
							for _, iel := range cl.Elts {
								ikv, ok := iel.(*ast.KeyValueExpr)
								if !ok {
									okInner = false
									break
								}
								if _, ok := ikv.Key.(*ast.Ident); !ok {
									okInner = false
								}
							}
							if !okInner {
								c.bad = "positional inner literal at " + fset.Position(cl.Pos()).String()
								continue
							}
							add(c, kv.Pos(), cl.Lbrace+1, "")
							for _, iel := range cl.Elts {
								ikv := iel.(*ast.KeyValueExpr)
								add(c, ikv.Key.Pos(), ikv.Key.End(), flatName(c.g.Name(), ikv.Key.(*ast.Ident).Name))
							}
							// a trailing comma inside the inner literal would double up with the outer one: drop it
							dropTrailingComma(c, cl)
							add(c, cl.Rbrace, cl.Rbrace+1, "")
						}
					}
				}
				return true
			})
		}
	}
	var notes []string
	sort.Slice(cands, func(i, j int) bool {
		return cands[i].T.Obj().Name()+"."+cands[i].g.Name() < cands[j].T.Obj().Name()+"."+cands[j].g.Name()
	})
	for _, c := range cands {
		name := c.T.Obj().Pkg().Name() + "." + c.T.Obj().Name() + "." + c.g.Name()
		if c.bad != "" {
			notes = append(notes, "grouped field "+name+" left as it is: "+c.bad)
			continue
		}
		// the declaration: "g S" -> "g__a A; g__b B" with the type texts of S's declaration (same package; the file of T
		// must know the package qualifiers they use)
		sd := decls[c.S.Obj()]
		var parts []string
		okDecl := true
		tImports := map[string]string{}
		for _, im := range c.file.Imports {
			n := ""
			if im.Name != nil {
				n = im.Name.Name
			}
			tImports[im.Path.Value] = n
		}
		sImports := map[string]string{} // local name -> path
		for _, im := range sd.file.Imports {
			pathv := im.Path.Value
			n := ""
			if im.Name != nil {
				n = im.Name.Name
			} else {
				pp := strings.Trim(pathv, `"`)
				if pk := sd.pkg.Imports[pp]; pk != nil {
					n = pk.Name
				} else {
					n = pp[strings.LastIndex(pp, "/")+1:]
				}
			}
			sImports[n] = pathv
		}
		sb := src(fset.Position(sd.st.Pos()).Filename)
		for _, sf := range sd.st.Fields.List {
			tt := string(sb[fset.Position(sf.Type.Pos()).Offset:fset.Position(sf.Type.End()).Offset])
			if strings.Contains(tt, "\n") {
				okDecl = false
			}
			ast.Inspect(sf.Type, func(n ast.Node) bool {
				if se, ok := n.(*ast.SelectorExpr); ok {
					if id, ok := se.X.(*ast.Ident); ok {
						if pathv, isPkg := sImports[id.Name]; isPkg && sd.pkg.TypesInfo.Uses[id] != nil {
							if _, isPkgName := sd.pkg.TypesInfo.Uses[id].(*types.PkgName); isPkgName {
								if sd.file != c.file {
									if n, has := tImports[pathv]; !has || (n != "" && n != id.Name) {
										okDecl = false
									}
								}
							}
						}
					}
				}
				return true
			})
			for _, nm := range sf.Names {
				parts = append(parts, flatName(c.g.Name(), nm.Name)+" "+tt)
			}
		}
		if !okDecl {
			notes = append(notes, "grouped field "+name+" left as it is: its field types cannot be spelled in the file of "+c.T.Obj().Name())
			continue
		}
		add(c, c.decl.Pos(), c.decl.End(), strings.Join(parts, "; "))
		for fn, es := range editsOf[c] {
			edits[fn] = append(edits[fn], es...)
		}
		notes = append(notes, "grouped field "+name+" ("+c.S.Obj().Name()+") analysed as the top-level fields "+strings.Join(parts, "; "))
	}
	out := map[string][]byte{}
	for fn, es := range edits {
		sort.Slice(es, func(i, j int) bool { return es[i].lo > es[j].lo })
		b := append([]byte{}, src(fn)...)
		prevLo := len(b) + 1
		okFile := true
		for _, e := range es {
			if e.hi > prevLo || e.lo > e.hi || e.hi > len(b) {
				okFile = false
				break
			}
			b = append(b[:e.lo], append([]byte(e.text), b[e.hi:]...)...)
			prevLo = e.lo
		}
		if !okFile {
			notes = append(notes, fmt.Sprintf("grouped-field normalisation skipped: overlapping edits in %s", fn))
			return nil, notes
		}
		out[fn] = b
	}
	return out, notes
}

// zeroText: the zero value of t as an expression that needs no imports ("" when there is none).
func zeroText(t types.Type) string {
	switch u := t.Underlying().(type) {
	case *types.Basic:
		switch {
		case u.Info()&types.IsBoolean != 0:
			return "false"
		case u.Info()&types.IsString != 0:
			return `""`
		case u.Info()&types.IsNumeric != 0:
			return "0"
		}
	case *types.Pointer, *types.Slice, *types.Map, *types.Chan, *types.Signature, *types.Interface:
		return "nil"
	}
	return ""
}
