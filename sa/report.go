package main

// Obligation bookkeeping, known findings, evidence and replay files.

import (
	"crypto/sha1"
	"encoding/json"
	"fmt"
	"os"
	"path/filepath"
	"sort"
	"strings"
	"time"
)

type Status int

const (
	Discharged Status = iota
	Violated
	Undecided // obligation not established (G3): counts as a violation
)

func (s Status) String() string {
	return [...]string{"discharged", "VIOLATED", "NOT-ESTABLISHED"}[s]
}

type Obligation struct {
	Rule      string `json:"rule"`      // e.g. C12.Y1
	Construct string `json:"construct"` // semantic key: role + construct, never a line number
	Pos       string `json:"pos"`       // file:line at the time of the run (diagnostic only)
	Status    Status `json:"-"`
	Result    string `json:"result"`
	Detail    string `json:"detail,omitempty"`
	Witness   string `json:"witness,omitempty"`
}

type Report struct {
	Prop        string
	Tier        string
	Seed        int
	Start       time.Time
	Obs         []*Obligation
	Notes       []string
	Explanation string
	RuleText    string
	Assumptions []string
	Extra       map[string]interface{}
	Samples     []interface{}
	Floors      map[string]int // rule -> minimum number of obligations that must exist (G4)
	VerifDir    string
	Quiet       bool
	NoEvidence  bool
}

func NewReport(prop, tier string, seed int, verifDir string) *Report {
	return &Report{Prop: prop, Tier: tier, Seed: seed, Start: time.Now(), Extra: map[string]interface{}{}, Floors: map[string]int{}, VerifDir: verifDir}
}

func (r *Report) add(rule, construct, pos string, st Status, detail, witness string) *Obligation {
	if !strings.HasPrefix(rule, r.Prop+".") {
		rule = r.Prop + "." + rule
	}
	o := &Obligation{Rule: rule, Construct: construct, Pos: pos, Status: st, Result: st.String(), Detail: detail, Witness: witness}
	r.Obs = append(r.Obs, o)
	return o
}

func (r *Report) Pass(rule, construct, pos, detail string) {
	r.add(rule, construct, pos, Discharged, detail, "")
}

func (r *Report) Fail(rule, construct, pos, detail, witness string) {
	r.add(rule, construct, pos, Violated, detail, witness)
}

func (r *Report) Unknown(rule, construct, pos, detail string) {
	r.add(rule, construct, pos, Undecided, detail, "")
}

// Check records a pass or a failure.
func (r *Report) Check(ok bool, rule, construct, pos, detail string) bool {
	if ok {
		r.Pass(rule, construct, pos, detail)
	} else {
		r.Fail(rule, construct, pos, detail, "")
	}
	return ok
}

func (r *Report) Note(format string, a ...interface{}) {
	r.Notes = append(r.Notes, fmt.Sprintf(format, a...))
}

// Floor declares that a rule must have matched at least n constructs (G4: no vacuous pass).
func (r *Report) Floor(rule string, n int) {
	if !strings.HasPrefix(rule, r.Prop+".") {
		rule = r.Prop + "." + rule
	}
	r.Floors[rule] = n
}

type knownFinding struct {
	Property  string `json:"property"`
	Rule      string `json:"rule"`
	Construct string `json:"construct"`
	What      string `json:"what"`
}

type knownFile struct {
	Findings []knownFinding `json:"findings"`
	Fixed    []string       `json:"fixed"`
}

func loadKnown(verifDir string) (*knownFile, error) {
	b, err := os.ReadFile(filepath.Join(verifDir, "known_findings.json"))
	if err != nil {
		if os.IsNotExist(err) {
			return &knownFile{}, nil
		}
		return nil, err
	}
	var k knownFile
	if err := json.Unmarshal(b, &k); err != nil {
		return nil, fmt.Errorf("known_findings.json: %v", err)
	}
	return &k, nil
}

// Finish prints the report, writes the evidence file and returns the exit code.
func (r *Report) Finish() int {
	// floors
	count := map[string]int{}
	for _, o := range r.Obs {
		count[o.Rule]++
	}
	var frules []string
	for rule := range r.Floors {
		frules = append(frules, rule)
	}
	sort.Strings(frules)
	for _, rule := range frules {
		if count[rule] < r.Floors[rule] {
			r.add(rule, "instance-floor", "-", Undecided,
				fmt.Sprintf("rule matched %d construct(s), at least %d expected: the rule's anchors were not found (G4, no vacuous pass)", count[rule], r.Floors[rule]), "")
		}
	}
	sort.SliceStable(r.Obs, func(i, j int) bool {
		a, b := r.Obs[i], r.Obs[j]
		if a.Rule != b.Rule {
			return a.Rule < b.Rule
		}
		if a.Construct != b.Construct {
			return a.Construct < b.Construct
		}
		return a.Pos < b.Pos
	})
	known, err := loadKnown(r.VerifDir)
	if err != nil {
		fmt.Printf("BROKEN: %v\n", err)
		return 2
	}
	isKnown := func(o *Obligation) *knownFinding {
		for i := range known.Findings {
			k := &known.Findings[i]
			if k.Property == r.Prop && k.Rule == o.Rule && k.Construct == o.Construct {
				return k
			}
		}
		return nil
	}
	discharged, violations, knownHits := 0, 0, 0
	distinct := map[string]bool{}
	var lines []string
	for _, o := range r.Obs {
		distinct[o.Rule+"|"+o.Construct] = true
		switch o.Status {
		case Discharged:
			discharged++
		default:
			if k := isKnown(o); k != nil && o.Status == Violated {
				knownHits++
				o.Result = "known-finding"
				lines = append(lines, fmt.Sprintf("KNOWN-FINDING: property=%s %s [%s %s at %s]", r.Prop, k.What, o.Rule, o.Construct, o.Pos))
				continue
			}
			violations++
			replay := r.writeReplay(o)
			lines = append(lines, fmt.Sprintf("%s %s %s at %s: %s", o.Status, o.Rule, o.Construct, o.Pos, o.Detail))
			if o.Witness != "" {
				lines = append(lines, "    witness: "+o.Witness)
			}
			lines = append(lines, fmt.Sprintf("VIOLATION property=%s replay=%s", r.Prop, replay))
		}
	}
	if os.Getenv("VERIF_LIST") != "" {
		for _, o := range r.Obs {
			fmt.Printf("OBL %s %s | %s | %s | %v\n", r.Prop, o.Rule, o.Construct, o.Pos, o.Status)
		}
	}
	if !r.Quiet {
		fmt.Printf("== %s (%s): %d obligations, %d discharged, %d violations, %d known findings, %d distinct constructs\n",
			r.Prop, r.Tier, len(r.Obs), discharged, violations, knownHits, len(distinct))
		perRule := map[string][2]int{}
		for _, o := range r.Obs {
			c := perRule[o.Rule]
			c[0]++
			if o.Status == Discharged {
				c[1]++
			}
			perRule[o.Rule] = c
		}
		var rules []string
		for k := range perRule {
			rules = append(rules, k)
		}
		sort.Strings(rules)
		for _, k := range rules {
			fmt.Printf("   %-10s %d/%d\n", k, perRule[k][1], perRule[k][0])
		}
		for _, n := range r.Notes {
			fmt.Println("   note:", n)
		}
	}
	for _, l := range lines {
		fmt.Println(l)
	}
	if !r.NoEvidence {
		r.writeEvidence(discharged, violations, knownHits, len(distinct))
	}
	if violations > 0 {
		return 1
	}
	return 0
}

func (r *Report) writeReplay(o *Obligation) string {
	h := sha1.Sum([]byte(o.Rule + "|" + o.Construct))
	dir := filepath.Join(r.VerifDir, "replays")
	os.MkdirAll(dir, 0o755)
	name := filepath.Join(dir, fmt.Sprintf("%s-%s-%x.json", r.Prop, strings.TrimPrefix(o.Rule, r.Prop+"."), h[:4]))
	kind := "violation"
	if o.Status == Undecided {
		kind = "obligation-not-established"
	}
	b, _ := json.MarshalIndent(map[string]interface{}{
		"property": r.Prop, "kind": kind, "rule": o.Rule, "construct": o.Construct, "pos": o.Pos,
		"detail": o.Detail, "witness": o.Witness,
		"replay": fmt.Sprintf("./run.sh %s replay %s", r.Prop, name),
	}, "", " ")
	os.WriteFile(name, b, 0o644)
	return name
}

func (r *Report) writeEvidence(discharged, violations, knownHits, distinct int) {
	samples := r.Samples
	// a few discharged obligations written out, spread over the rules
	seenRule := map[string]int{}
	for _, o := range r.Obs {
		if seenRule[o.Rule] >= 2 || len(samples) >= 40 {
			continue
		}
		seenRule[o.Rule]++
		samples = append(samples, o)
	}
	cov := map[string]interface{}{
		"explanation":         r.Explanation,
		"rule":                r.RuleText,
		"evaluations":         len(r.Obs),
		"distinct_nontrivial": distinct,
		"obligations":         len(r.Obs),
		"discharged":          discharged,
		"known_findings":      knownHits,
		"samples":             samples,
		"notes":               r.Notes,
	}
	// every rule that was applied, with the number of obligations it produced and the first constructs it was applied
	// to (rules added after the explanation above was written appear here as well)
	type ruleSum struct {
		Obligations int      `json:"obligations"`
		Constructs  []string `json:"constructs"`
	}
	byRule := map[string]*ruleSum{}
	for _, o := range r.Obs {
		rs := byRule[o.Rule]
		if rs == nil {
			rs = &ruleSum{}
			byRule[o.Rule] = rs
		}
		rs.Obligations++
		if len(rs.Constructs) < 6 {
			c := o.Construct
			if len(c) > 220 {
				c = c[:220] + "…"
			}
			dup := false
			for _, x := range rs.Constructs {
				if x == c {
					dup = true
				}
			}
			if !dup {
				rs.Constructs = append(rs.Constructs, c)
			}
		}
	}
	cov["rules_applied"] = byRule
	for k, v := range r.Extra {
		cov[k] = v
	}
	ev := map[string]interface{}{
		"property_id": r.Prop,
		"tier":        r.Tier,
		"seed":        r.Seed,
		"level":       "other",
		"coverage":    cov,
		"assumptions": r.Assumptions,
		"wall_s":      time.Since(r.Start).Seconds(),
		"violations":  violations,
	}
	dir := filepath.Join(r.VerifDir, "evidence")
	os.MkdirAll(dir, 0o755)
	b, _ := json.MarshalIndent(ev, "", " ")
	if err := os.WriteFile(filepath.Join(dir, r.Prop+".json"), b, 0o644); err != nil {
		fmt.Println("BROKEN: cannot write evidence:", err)
	}
}

// linkObligations evaluates another property's rules on the same program and files those obligations that match under
// a rule of this report: the linked rule is a necessary condition of both properties.
var linking = map[string]bool{}

func linkObligations(w *World, r *Report, from func(*World, *Report), fromProp string, match func(*Obligation) bool, toRule string) {
	if linking[fromProp] {
		return // the property is being evaluated further up the chain of links: its obligations are reported there
	}
	linking[fromProp] = true
	defer delete(linking, fromProp)
	sub := NewReport(fromProp, r.Tier, r.Seed, r.VerifDir)
	sub.NoEvidence = true
	from(w, sub)
	n := 0
	for _, o := range sub.Obs {
		if match(o) {
			n++
			r.add(toRule, o.Construct, o.Pos, o.Status, o.Detail, o.Witness)
		}
	}
	if n == 0 && !linkOptional {
		r.Unknown(toRule, "linked obligations of "+fromProp, "-", "none found")
	}
}

var linkOptional bool

// linkObligationsOpt: as linkObligations, for obligations that exist only when something is wrong (e.g. a location that
// became shared between goroutines): finding none is the good case.
func linkObligationsOpt(w *World, r *Report, from func(*World, *Report), fromProp string, match func(*Obligation) bool, toRule string) {
	linkOptional = true
	defer func() { linkOptional = false }()
	linkObligations(w, r, from, fromProp, match, toRule)
}
