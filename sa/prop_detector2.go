package main

import (
	"fmt"
	"go/ast"
	"go/constant"
	"go/token"
	"go/types"
	"strings"

	"golang.org/x/tools/go/ssa"
)

// ---------------------------------------------------------------------------------------
// C09

func propC09(w *World, r *Report) {
	r.Explanation = "Decided clause: (F1) every return of Detect that may be true is produced on a path with the first-comparison flag armed and the FFC predicate false for both the current frame and the previous frame (the value stored on the previous call, loaded before this call's store); (F2) the predicate is TimeOn - LastFFCTime < 10 s, strict; (F3) on the FFC edge the comparison ring is re-marked (SetAsOldest) and the flag cleared so the next partner is a post-FFC frame, the partner always being Oldest(); (F4) the background is re-seeded per pixel when the previous frame was FFC-affected and is not updated while the current one is; (F5) reset chain: on the 'clear' marker handleConn calls MotionProcessor.Reset and processes no frame, Reset closes the motion recording and resets the detector, which resets both rings and zeroes the background frame count. Rule: exhaustive path enumeration of the loop-free selection logic with normalised guards + dominator guards + typestate fix-point for Reset."
	r.RuleText = "obligation per (rule, path / construct)"
	r.Assumptions = []string{"that stale diff contents after Reset are harmless is a value argument (first post-reset diff is identically zero) and not decided",
		"triggers/extensions happen only on frames with a true Detect verdict: C03.L2 and C04.S1"}
	d := detSetup(w, r)
	if d == nil {
		return
	}
	k, err := findKernels(d)
	if err != nil {
		r.Unknown("roles", "detector kernels", "-", err.Error())
		return
	}
	_ = newTermEnv
	checkPixelsChanged(w, r, d, k, "K")
	// F2
	checkFFCPredicate(w, r, k, "F2")
	// F1b (path form; loop-free stage methods split off Detect are unfolded): on every path Detect calls the selection
	// logic once, with the current frame and the FFC state of the PREVIOUS frame (every load of the state field comes
	// before the one store of isAffectedByFFC(current frame), which comes before the call), and returns its verdict
	de := newTermEnv(w)
	stage := sameReceiverHelperOf(d.Detect)
	paths, complete := enumPathsInl(de, d.Detect, 512, func(c *ssa.Function) bool {
		// only stage methods split off Detect: the detector's kernels stay calls
		for _, kf := range []*ssa.Function{k.pixelsChanged, k.updateBg, k.calcThresh, k.hasMotion, k.diffAbs, k.diffWarm, k.countOne, k.countTwo, k.reset} {
			if c == kf {
				return false
			}
		}
		return stage(c) && isPtrTo(c.Signature.Recv().Type(), d.T)
	})
	paths = framesNonNil(paths)
	prevField := -1
	if !complete || len(paths) == 0 {
		r.Unknown("F1", "Detect paths", w.Pos(d.Detect.Pos()), "Detect (with its loop-free stage methods unfolded) is not loop-free")
		return
	}
	okCall, okPrev, okCur, okRet := true, true, true, true
	var firstCall *ssa.Call
	detail := ""
	frameT := de.termOf(d.Detect.Params[1]).String()
	for _, p := range paths {
		var pc *ssa.Call
		pcIdx, npc := -1, 0
		for i, in := range p.Seq {
			if c, ok := in.(*ssa.Call); ok && c.Call.StaticCallee() == k.pixelsChanged {
				pc, pcIdx = c, i
				npc++
			}
		}
		if pc == nil || npc != 1 {
			okCall = false
			continue
		}
		if firstCall == nil {
			firstCall = pc
		}
		if p.Term(de, pc.Call.Args[1]).String() != frameT {
			okCur = false
		}
		if ex := p.Term(de, p.Ret.Results[0]).String(); ex != "#0("+p.Term(de, pc).String()+")" {
			okRet = false
		}
		// which field is the previous-FFC state: the bool field whose value is handed over
		at := p.Term(de, pc.Call.Args[2]).String()
		detail = at
		fi := -1
		for i := 0; i < d.St.NumFields(); i++ {
			if at == "motion.motionDetector."+d.St.Field(i).Name()+"@recv:motion.motionDetector" {
				fi = i
			}
		}
		if fi < 0 {
			okPrev = false
			continue
		}
		prevField = fi
		// the value handed over is a load of the field that executes before the store
		passed := p.Origin(pc.Call.Args[2])
		lastLoad, storeIdx, nStores := -1, -1, 0
		for i, in := range p.Seq[:pcIdx] {
			switch x := in.(type) {
			case *ssa.UnOp:
				if ssa.Value(x) == passed {
					if fa, ok := x.X.(*ssa.FieldAddr); ok && x.Op == token.MUL && fa.Field == fi && isPtrTo(fa.X.Type(), d.T) {
						lastLoad = i
					}
				}
			case *ssa.Store:
				if fa, ok := x.Addr.(*ssa.FieldAddr); ok && fa.Field == fi && isPtrTo(fa.X.Type(), d.T) {
					storeIdx = i
					nStores++
					c, isCall := x.Val.(*ssa.Call)
					if !isCall || c.Call.StaticCallee() != k.ffcPred || p.Term(de, c.Call.Args[0]).String() != frameT {
						okPrev = false
					}
				}
			}
		}
		if !(nStores == 1 && lastLoad >= 0 && lastLoad < storeIdx) {
			okPrev = false
		}
	}
	if !okCall || firstCall == nil {
		r.Fail("F1", "Detect calls the selection logic", w.Pos(d.Detect.Pos()), "not exactly one call on every path", "")
		return
	}
	r.Check(okPrev, "F1", "Detect passes the FFC state of the previous frame (loaded before storing the current frame's)", w.InstrPos(firstCall), detail+" ; stored: "+k.ffcPred.Name()+"(frame)")
	r.Check(okCur, "F1", "Detect evaluates the current frame", w.InstrPos(firstCall), "")
	r.Check(okRet, "F1", "every return of Detect is the selection logic's verdict", w.Pos(d.Detect.Pos()), fmt.Sprintf("%d paths", len(paths)))
	// F4
	checkReseed(w, r, d, k, prevField, "F4")
	// F5
	checkResetChain(w, r, d, k)
}

// checkFFCPredicate: a frame is FFC-affected exactly while TimeOn - LastFFCTime < 10 s (strict): the frame 10 s after the
// calibration is an ordinary frame again (it is differenced, and the background is re-seeded from it).
func checkFFCPredicate(w *World, r *Report, k *kernels, rule string) {
	e := newTermEnv(w)
	t := e.inline(k.ffcPred, []ssa.Value{k.ffcPred.Params[0]})
	got := "<not inlinable>"
	if t != nil {
		got = t.String()
	}
	root := "cptvframe.Frame.Status@param:cptvframe.Frame"
	want := "lt((-1*cptvframe.Telemetry.LastFFCTime@" + root + " + cptvframe.Telemetry.TimeOn@" + root + "), 10000000000)"
	r.Check(got == want, rule, "FFC predicate is TimeOn - LastFFCTime < 10 s (strict)", w.Pos(k.ffcPred.Pos()), got)
}

// checkReseed: F4 / A4
func checkReseed(w *World, r *Report, d *detInfo, k *kernels, curFFCField int, rule string) {
	e := newTermEnv(w)
	bg := d.leaf("background")
	// the interior store bg[y][x] = new[y][x] in the non-seed loop: reachable on the true edge of prevFFC
	n := 0
	for _, a := range elemAccesses(k.updateBg) {
		if !a.IsStore || e.termOf(a.Frame).String() != bg {
			continue
		}
		ld, ok := a.Val.(*ssa.UnOp)
		if !ok {
			continue
		}
		f, rr, cc, ok := pixAddr(ld.X)
		if !ok || f != ssa.Value(k.updateBg.Params[1]) || rr != a.Row || cc != a.Col {
			continue
		}
		// same-index interior store from the input frame
		n++
		blk := a.Instr.Block()
		viaPrev := false
		var conds []string
		for _, p := range blk.Preds {
			if iff, ok := p.Instrs[len(p.Instrs)-1].(*ssa.If); ok {
				c := e.termOf(iff.Cond).String()
				pol := p.Succs[0] == blk
				if !pol {
					c = "not(" + c + ")"
				}
				conds = append(conds, c)
				if pol && iff.Cond == ssa.Value(k.updateBg.Params[2]) {
					viaPrev = true
				}
			}
		}
		r.Check(viaPrev, rule, "background pixel re-seeded from the input whenever the previous frame was FFC-affected", w.InstrPos(a.Instr), "store reached on: "+strings.Join(conds, " ∨ "))
	}
	r.Check(n == 1, rule, "exactly one per-pixel background update store", "-", fmt.Sprint(n))
	// Detect: updateBackground only when the current frame is not FFC-affected, with the previous state passed
	for _, b := range detectBlocks(w, d, k) {
		for _, in := range b.Instrs {
			call, ok := in.(*ssa.Call)
			if !ok || call.Call.StaticCallee() != k.updateBg {
				continue
			}
			gs := e.guardsOf(b)
			okG := false
			if curFFCField >= 0 {
				leaf := "motion.motionDetector." + d.St.Field(curFFCField).Name() + "@recv:motion.motionDetector"
				okG = hasGuard(gs, "not("+leaf+")")
			}
			r.Check(okG, rule, "the background is not updated while the current frame is FFC-affected", w.InstrPos(call), strings.Join(guardStrings(gs), " ; "))
			// ... and nothing else keeps a frame out of it: in particular not the previous frame's FFC state - the first
			// frame after the calibration is the one that re-seeds the background
			var extra []string
			nCur := 0
			for _, g := range gs {
				gstr := g.String()
				if gstr == d.leaf("dynamicThresh") {
					continue
				}
				if curFFCField >= 0 && gstr == "not(motion.motionDetector."+d.St.Field(curFFCField).Name()+"@recv:motion.motionDetector)" {
					// the CURRENT frame's state: the field read after this call's store to it (a read from before the
					// store is the previous frame's state, whose term looks the same)
					if g.If != nil && (loadsFieldAfterItsStore(g.If.Cond, d.T, curFFCField) || stageRunsAfterStore(w, d, g.If, curFFCField)) {
						nCur++
						if nCur == 1 {
							continue
						}
					}
					gstr += " [the previous frame's state]"
				}
				extra = append(extra, gstr)
			}
			r.Check(len(extra) == 0, rule, "every frame outside an FFC period reaches the background update (only dynamic-thresh and the current frame's FFC state gate it)", w.InstrPos(call), strings.Join(extra, " ; "))
			// prevFFC argument is the previous state
			pa := call.Call.Args[2]
			// handed down through a stage method split off Detect: the value its single caller passes
			for hop := 0; hop < 2; hop++ {
				prm, isParam := pa.(*ssa.Parameter)
				if !isParam || prm.Parent() == d.Detect {
					break
				}
				idx := -1
				for i, q := range prm.Parent().Params {
					if q == prm {
						idx = i
					}
				}
				var sites []*ssa.Call
				for _, cf := range w.callersOf(prm.Parent()) {
					for _, cb := range cf.Blocks {
						for _, cin := range cb.Instrs {
							if cc, ok := cin.(*ssa.Call); ok && cc.Call.StaticCallee() == prm.Parent() {
								sites = append(sites, cc)
							}
						}
					}
				}
				if len(sites) != 1 || idx < 0 || idx >= len(sites[0].Call.Args) {
					break
				}
				pa = sites[0].Call.Args[idx]
			}
			okP := false
			if u, ok := pa.(*ssa.UnOp); ok {
				if fa, ok := u.X.(*ssa.FieldAddr); ok && fa.Field == curFFCField {
					// loaded before the field is overwritten with the current frame's state: the load precedes every store of
					// the field (same block: earlier instruction; otherwise its block dominates the store's - the selection
					// logic is loop-free)
					okP = true
					nSt := 0
					for _, sb := range u.Parent().Blocks {
						for si, x := range sb.Instrs {
							st, ok := x.(*ssa.Store)
							if !ok {
								continue
							}
							fa2, ok := st.Addr.(*ssa.FieldAddr)
							if !ok || fa2.Field != curFFCField || !isPtrTo(fa2.X.Type(), d.T) {
								continue
							}
							nSt++
							if sb == u.Block() {
								if instrIndex(u) > si {
									okP = false
								}
							} else if !u.Block().Dominates(sb) {
								okP = false
							}
						}
					}
					if nSt == 0 {
						okP = false
					}
				}
			}
			r.Check(okP, rule, "the background update receives the previous frame's FFC state", w.InstrPos(call), e.termOf(pa).String())
		}
	}
	checkUpdateBeforeDifferencing(w, r, d, k, rule)
	checkDetectorSeesEveryFrame(w, r, rule) // the FFC hand-shake and the re-seed need the detector to see the FFC frames
	if rule != "F4" {
		checkFFCPredicate(w, r, k, rule) // which frames are kept out of the background and which one re-seeds it
	}
}

// forwardReaches: b is executed after a without taking a back edge (same loop iteration, or later straight-line code).
func forwardReaches(a, b ssa.Instruction) bool {
	if a.Block() == b.Block() {
		return instrIndex(a) < instrIndex(b)
	}
	seen := map[*ssa.BasicBlock]bool{}
	var walk func(x *ssa.BasicBlock) bool
	walk = func(x *ssa.BasicBlock) bool {
		if x == b.Block() {
			return true
		}
		if seen[x] {
			return false
		}
		seen[x] = true
		for _, s := range x.Succs {
			if s.Dominates(x) {
				continue // back edge
			}
			if walk(s) {
				return true
			}
		}
		return false
	}
	for _, s := range a.Block().Succs {
		if !s.Dominates(a.Block()) && walk(s) {
			return true
		}
	}
	return false
}

// instrReaches: execution can continue from instruction a to instruction b of the same function.
func instrReaches(a, b ssa.Instruction) bool {
	if a.Block() == b.Block() && instrIndex(a) < instrIndex(b) {
		return true
	}
	for _, s := range a.Block().Succs {
		if reaches(s, b.Block()) {
			return true
		}
	}
	return false
}

// liftTo: the instruction of root through which execution reaches `in` (in itself, or the call in root to the helper,
// two levels deep, that contains it); nil when there is none or more than one.
func liftTo(w *World, root *ssa.Function, in ssa.Instruction, depth int) ssa.Instruction {
	if in.Parent() == root {
		return in
	}
	if depth > 2 {
		return nil
	}
	var found ssa.Instruction
	n := 0
	for _, c := range w.callersOf(in.Parent()) {
		for _, b := range c.Blocks {
			for _, x := range b.Instrs {
				if ci, ok := x.(ssa.CallInstruction); ok && ci.Common().StaticCallee() == in.Parent() {
					if l := liftTo(w, root, x, depth+1); l != nil {
						found = l
						n++
					}
				}
			}
		}
	}
	if n == 1 {
		return found
	}
	return nil
}

// checkUpdateBeforeDifferencing: within one Detect call the background (and with it the threshold) is brought up to date
// BEFORE the frame is differenced: no background/threshold update is reachable from the selection logic's call.
func checkUpdateBeforeDifferencing(w *World, r *Report, d *detInfo, k *kernels, rule string) {
	var ups, sels []ssa.Instruction
	for _, b := range detectBlocks(w, d, k) {
		for _, in := range b.Instrs {
			if call, ok := in.(*ssa.Call); ok {
				switch call.Call.StaticCallee() {
				case k.updateBg, k.calcThresh:
					ups = append(ups, in)
				case k.pixelsChanged:
					sels = append(sels, in)
				}
			}
		}
	}
	n := 0
	for _, u := range ups {
		lu := liftTo(w, d.Detect, u, 0)
		for _, s := range sels {
			ls := liftTo(w, d.Detect, s, 0)
			n++
			if lu == nil || ls == nil {
				r.Unknown(rule, "order of "+calleeNameCI(u.(ssa.CallInstruction))+" and the selection logic", w.InstrPos(u), "call sites not attributable to one instruction of Detect")
				continue
			}
			bad := lu == ls && u.Parent() == s.Parent() && instrReaches(s, u) || lu != ls && instrReaches(ls, lu)
			r.Check(!bad, rule, calleeNameCI(u.(ssa.CallInstruction))+" runs before the frame is differenced (the threshold in force for a frame is the one derived from the background including that frame)", w.InstrPos(u), "selection logic called at "+w.InstrPos(s))
		}
	}
	r.Check(n >= 2, rule, "update / differencing call pairs in Detect", "-", fmt.Sprint(n))
}

// checkDetectorResetRings: the detector's Reset resets the comparison ring and the diff ring THEMSELVES (the receiver's
// fields, not copies); returns the set of receiver fields Reset stores the constant 0 into.
func checkDetectorResetRings(w *World, r *Report, d *detInfo, k *kernels, rule string) map[int]bool {
	cmp, dif := d.Role["compareRing"], d.Role["diffRing"]
	resetRings := map[int]bool{}
	zeroed := map[int]bool{}
	e := newTermEnv(w)
	ringAddr := map[string]int{}
	for _, fi := range []int{cmp, dif} {
		ringAddr["addr(motion.motionDetector."+d.St.Field(fi).Name()+"@recv:motion.motionDetector)"] = fi
	}
	for _, b := range k.reset.Blocks {
		for _, in := range b.Instrs {
			switch x := in.(type) {
			case *ssa.Call:
				callee := x.Call.StaticCallee()
				if callee == nil || callee.Name() != "Reset" || len(x.Call.Args) == 0 {
					continue
				}
				t := e.termOf(x.Call.Args[0])
				gs := guardStrings(e.guardsOf(b))
				// the ring itself, unconditionally
				if fi, ok := ringAddr[t.String()]; ok && len(gs) == 0 {
					resetRings[fi] = true
					continue
				}
				// every element of a literal list of ring addresses, in a full range loop over that list
				if t.Op == "index" && len(t.Args) == 2 && t.Args[0].Op == "list" && t.Args[1].Op == "rangeidx" && t.Args[1].Args[0].String() == t.Args[0].String() {
					loopGuard := "lt(" + t.Args[1].String() + ", len(" + t.Args[0].String() + "))"
					if len(gs) == 1 && gs[0] == loopGuard {
						for _, el := range t.Args[0].Args {
							if fi, ok := ringAddr[el.String()]; ok {
								resetRings[fi] = true
							}
						}
					}
				}
			}
		}
	}
	zeroed = zeroStoresOf(k.reset, d.T, 0)
	r.Check(resetRings[cmp] && resetRings[dif], rule, "detector Reset resets the comparison ring and the diff ring", w.Pos(k.reset.Pos()), fmt.Sprint(resetRings))
	return zeroed
}

// checkResetChain: F5
func checkResetChain(w *World, r *Report, d *detInfo, k *kernels) {
	zeroed := checkDetectorResetRings(w, r, d, k, "F5")
	checkRingResetAndOldest(w, r, "F5")
	checkRingMove(w, r, "F3")
	// background frame counter: the int field incremented in updateBackground
	bgCount := -1
	for _, b := range k.updateBg.Blocks {
		for _, in := range b.Instrs {
			if st, ok := in.(*ssa.Store); ok {
				if fa, ok := st.Addr.(*ssa.FieldAddr); ok && isPtrTo(fa.X.Type(), d.T) && isInteger(d.St.Field(fa.Field).Type()) {
					bgCount = fa.Field
				}
			}
		}
	}
	r.Check(bgCount >= 0 && zeroed[bgCount], "F5", "detector Reset zeroes the background frame count (so the background is re-seeded)", w.Pos(k.reset.Pos()), fmt.Sprint(zeroed))
	// MotionProcessor.Reset: closes the motion recording and resets the detector (fix-point)
	runs, err := getMotionRuns(w)
	if err != nil {
		r.Unknown("F5", "MotionProcessor.Reset", "-", err.Error())
		return
	}
	var bad *Ctx
	n := 0
	for _, cx := range exitCtxs(runs.fault, "Reset") {
		n++
		if cx.Sinks[roleMotion] != 0 && bad == nil {
			bad = cx
		}
	}
	if bad != nil {
		r.Fail("F5", "MotionProcessor.Reset closes the motion recording", "-", describeCtx(bad), bad.Trace)
	} else {
		r.Check(n > 0, "F5", "MotionProcessor.Reset closes the motion recording", "-", fmt.Sprintf("%d exit contexts", n))
	}
	checkProcessorResetResetsDetector(w, r, runs, "F5")
	checkHandleConnMarker(w, r, "F5")
}

// checkProcessorResetResetsDetector: every return of MotionProcessor.Reset is preceded by the detector's reset
// (also when stopping the recording in progress fails).
func checkProcessorResetResetsDetector(w *World, r *Report, runs *motionRuns, rule string) {
	okDet := false
	for _, ev := range runs.fault.sortedEvents() {
		if ev.Kind == "obj:detector.Reset" && ev.Entry == "Reset" {
			okDet = true
			// every exit of Reset passed through it: Reset is straight-line after stopRecording; check domination
			fn := ev.Instr.Parent()
			blk := ev.Instr.Block()
			for _, b := range fn.Blocks {
				if _, isRet := b.Instrs[len(b.Instrs)-1].(*ssa.Return); isRet && !blk.Dominates(b) {
					okDet = false
				}
			}
		}
	}
	r.Check(okDet, rule, "MotionProcessor.Reset always resets the detector (and with it the background frame count), whatever stopping the recording returns", "-", "")
}

// ---------------------------------------------------------------------------------------
// C15

func propC15(w *World, r *Report) {
	r.Explanation = "Decided clause: (A1) the threshold computation, partitioned by which of temp-thresh-min / temp-thresh-max are set (four classes, paths enumerated exhaustively), stores mean limited by every bound that is set: max(mean,Min) and/or min(.,Max) in either nesting order; (A2) the value handed to it is the accumulator sum of background[y][x]/numPixels over exactly the interior with numPixels=(H-2E)(W-2E), on every return of the background update including the seed frame; (A3) background stores: interior <- same-index input pixel, border columns <- nearest interior column of the same row, border rows <- nearest interior row; (A4) re-seed on previous-frame FFC and when the background frame count is 1, the count being zeroed by Reset; (A5) envelope: the only interior store is bg <- input and it is skipped only when input - weight >= bg with weights in {0, w+0.1 capped}; (A6) the motion start passes the detector's background frame and current threshold to the sink. Rule: path enumeration + min/max normal forms + accumulator recogniser + index intervals."
	r.RuleText = "obligation per (rule, class / store / return)"
	r.Assumptions = []string{"float rounding of the mean and the uint16 truncation are not decided", "Min <= Max when both are set (then both nesting orders mean 'limited to the range')"}
	d := detSetup(w, r)
	if d == nil {
		return
	}
	k, err := findKernels(d)
	if err != nil {
		r.Unknown("roles", "detector kernels", "-", err.Error())
		return
	}
	e := newTermEnv(w)
	// A1
	checkDetectorParamsImmutable(w, r, d, "A1", "tempThreshMin", "tempThreshMax", "dynamicThresh", "previewFrames", "start", "rowStop", "columnStop")
	paths, complete := enumPaths(e, k.calcThresh, 64)
	if !complete {
		r.Unknown("A1", k.calcThresh.Name(), w.Pos(k.calcThresh.Pos()), "threshold computation is not loop-free")
		return
	}
	minL, maxL := d.leaf("tempThreshMin"), d.leaf("tempThreshMax")
	avg := e.termOf(k.calcThresh.Params[1]).String()
	classes := map[string]bool{}
	for _, p := range paths {
		minSet := hasGuard(p.Conds, "ne(0, "+minL+")")
		maxSet := hasGuard(p.Conds, "ne(0, "+maxL+")")
		minUnset := hasGuard(p.Conds, "eq(0, "+minL+")")
		maxUnset := hasGuard(p.Conds, "eq(0, "+maxL+")")
		cls := fmt.Sprintf("min %s, max %s", map[bool]string{true: "set", false: "unset"}[minSet], map[bool]string{true: "set", false: "unset"}[maxSet])
		if !(minSet != minUnset && maxSet != maxUnset) {
			r.Fail("A1", "threshold class decided by (min set?, max set?)", w.InstrPos(p.Ret), "a path of the threshold computation does not test both bounds against 0: "+strings.Join(guardStrings(p.Conds), " ∧ "), "")
			continue
		}
		classes[cls] = true
		// the last store to tempThresh on this path
		var last *ssa.Store
		for _, in := range p.Instrs {
			if st, ok := in.(*ssa.Store); ok {
				if fa, ok := st.Addr.(*ssa.FieldAddr); ok && isPtrTo(fa.X.Type(), d.T) && fa.Field == d.Role["tempThresh"] {
					last = st
				}
			}
		}
		if last == nil {
			r.Fail("A1", "class ["+cls+"]: threshold stored", w.InstrPos(p.Ret), "no store to the threshold on this path", "")
			continue
		}
		got := p.Term(e, last.Val).String()
		A, MN, MX := tleaf(avg), tleaf(minL), tleaf(maxL)
		var wants []string
		switch {
		case minSet && maxSet:
			wants = []string{mk("trunc", "", tminmax("min", tminmax("max", A, MN), MX)).String(), mk("trunc", "", tminmax("max", tminmax("min", A, MX), MN)).String()}
		case minSet:
			wants = []string{mk("trunc", "", tminmax("max", A, MN)).String()}
		case maxSet:
			wants = []string{mk("trunc", "", tminmax("min", A, MX)).String()}
		default:
			wants = []string{mk("trunc", "", A).String()}
		}
		okf := false
		for _, wv := range wants {
			if got == wv {
				okf = true
			}
		}
		r.Check(okf, "A1", "class ["+cls+"]: threshold = mean limited by every bound that is set", w.InstrPos(last), got+"  (want "+strings.Join(wants, " or ")+")")
	}
	r.Check(len(classes) == 4, "A1", "all four bound combinations are distinguished", w.Pos(k.calcThresh.Pos()), fmt.Sprint(len(classes)))
	// A2: mean provenance
	var ubCall *ssa.Call
	for _, b := range detectBlocks(w, d, k) {
		for _, in := range b.Instrs {
			if c, ok := in.(*ssa.Call); ok {
				switch c.Call.StaticCallee() {
				case k.updateBg:
					ubCall = c
				case k.calcThresh:
					arg := c.Call.Args[1]
					ex, ok := arg.(*ssa.Extract)
					r.Check(ok && ubCall != nil && ex.Tuple == ssa.Value(ubCall) && ex.Index == 0, "A2", "the threshold is computed from the mean returned by the background update of this frame", w.InstrPos(c), e.termOf(arg).String())
				}
			}
		}
	}
	np := ""
	for key := range d.Role {
		if strings.HasPrefix(key, "numPixelsTerm:") {
			np = strings.TrimPrefix(key, "numPixelsTerm:")
		}
	}
	S, R, C := d.CI.Stores[d.Role["start"]], d.CI.Stores[d.Role["rowStop"]], d.CI.Stores[d.Role["columnStop"]]
	wantNP := tmul(tsub(R, S), tsub(C, S)).String()
	r.Check(np == wantNP, "A2", "numPixels = (rowStop-start)*(columnStop-start) = (H-2E)(W-2E)", w.Pos(d.Ctor.Pos()), np)
	nRet := 0
	for _, b := range k.updateBg.Blocks {
		ret, ok := b.Instrs[len(b.Instrs)-1].(*ssa.Return)
		if !ok || e.inNilFrameBranch(b) {
			continue
		}
		nRet++
		okAcc, detail := d.isInteriorMeanAccumulator(e, ret.Results[0])
		r.Check(okAcc, "A2", fmt.Sprintf("background update return #%d yields Σ background[y][x]/numPixels over the interior", nRet), w.InstrPos(ret), detail)
	}
	r.Check(nRet >= 2, "G4", "returns of the background update", "-", fmt.Sprint(nRet))
	// A3: stores
	bg := d.leaf("background")
	n := 0
	for _, a := range elemAccesses(k.updateBg) {
		n++
		if !a.IsStore || e.termOf(a.Frame).String() != bg {
			continue
		}
		row, col := d.rangeOf(e, a.Row), d.colRange(e, a)
		ld, _ := a.Val.(*ssa.UnOp)
		var f, rr, cc ssa.Value
		okA := false
		if ld != nil {
			f, rr, cc, okA = pixAddr(ld.X)
		}
		if !okA || cc == nil {
			r.Fail("A3", accessName(w, e, a, n), w.InstrPos(a.Instr), "value stored into the background is not a pixel", "")
			continue
		}
		srcCol := d.rangeOf(e, cc)
		srcIsInput := f == ssa.Value(k.updateBg.Params[1])
		srcIsBg := e.termOf(f).String() == bg
		name := accessName(w, e, a, n)
		switch {
		case row.within(linS, linR1) && col.within(linS, linC1):
			r.Check(srcIsInput && rr == a.Row && cc == a.Col, "A3", name+": interior <- same-index input pixel", w.InstrPos(a.Instr), frameName(e, f))
		case row.within(linS, linR1) && col.ok && col.lo == (lin{}) && col.hi == (lin{s: 1, k: -1}):
			r.Check((srcIsInput || srcIsBg) && rr == a.Row && srcCol.ok && srcCol.lo == linS && srcCol.hi == linS, "A3", name+": left border <- first interior column of the same row", w.InstrPos(a.Instr), fmt.Sprintf("src col [%s,%s]", srcCol.lo, srcCol.hi))
		case row.within(linS, linR1) && col.ok && col.lo == (lin{c: 1}) && col.hi == (lin{c: 1, s: 1, k: -1}):
			r.Check((srcIsInput || srcIsBg) && rr == a.Row && srcCol.ok && srcCol.lo == linC1 && srcCol.hi == linC1, "A3", name+": right border <- last interior column of the same row", w.InstrPos(a.Instr), fmt.Sprintf("src col [%s,%s]", srcCol.lo, srcCol.hi))
		default:
			r.Fail("A3", name, w.InstrPos(a.Instr), fmt.Sprintf("background store at row [%s,%s] col [%s,%s] is neither interior nor border replication", row.lo, row.hi, col.lo, col.hi), "")
		}
	}
	nc := 0
	kinds := map[string]bool{}
	// the background update and the methods of the detector it calls (an extracted border-replication helper)
	bgFuncs := []*ssa.Function{k.updateBg}
	for _, b := range k.updateBg.Blocks {
		for _, in := range b.Instrs {
			if c, ok := in.(*ssa.Call); ok {
				if callee := c.Call.StaticCallee(); callee != nil && callee.Signature.Recv() != nil && isPtrTo(callee.Signature.Recv().Type(), d.T) && len(callee.Blocks) > 0 && callee != k.calcThresh {
					dup := false
					for _, f := range bgFuncs {
						if f == callee {
							dup = true
						}
					}
					if !dup {
						bgFuncs = append(bgFuncs, callee)
					}
				}
			}
		}
	}
	var bgBlocks []*ssa.BasicBlock
	for _, f := range bgFuncs {
		bgBlocks = append(bgBlocks, f.Blocks...)
	}
	for _, b := range bgBlocks {
		for _, in := range b.Instrs {
			call, ok := in.(*ssa.Call)
			if !ok {
				continue
			}
			bi, isB := call.Call.Value.(*ssa.Builtin)
			if !isB || bi.Name() != "copy" {
				continue
			}
			nc++
			dst, ok1 := rowSlice(call.Call.Args[0])
			src, ok2 := rowSlice(call.Call.Args[1])
			if !ok1 || !ok2 {
				r.Unknown("A3", fmt.Sprintf("copy #%d", nc), w.InstrPos(call), "operands not understood")
				continue
			}
			drow, srow := d.rangeOf(e, dst.row), d.rangeOf(e, src.row)
			name := fmt.Sprintf("background copy #%d", nc)
			switch {
			case dst.lo != nil:
				kinds["seed"] = true
				inputFrame := src.frame == ssa.Value(k.updateBg.Params[1])
				if p, isP := src.frame.(*ssa.Parameter); isP && p.Parent() != k.updateBg && len(p.Parent().Params) > 1 && p != p.Parent().Params[0] {
					// in a method split off the update: its frame parameter must be handed the update's input frame
					for _, ub := range k.updateBg.Blocks {
						for _, ui := range ub.Instrs {
							if uc, ok := ui.(*ssa.Call); ok && uc.Call.StaticCallee() == p.Parent() {
								for ai, a := range uc.Call.Args {
									if ai < len(p.Parent().Params) && p.Parent().Params[ai] == p && a == ssa.Value(k.updateBg.Params[1]) {
										inputFrame = true
									}
								}
							}
						}
					}
				}
				r.Check(inputFrame && dst.row == src.row, "A3", name+": seed copies the interior columns of the same input row", w.InstrPos(call), "")
			case drow.ok && drow.lo == (lin{}) && drow.hi == (lin{s: 1, k: -1}):
				kinds["top"] = true
				r.Check(srow.ok && srow.lo == linS && srow.hi == linS, "A3", name+": top border rows <- first interior row", w.InstrPos(call), fmt.Sprintf("src row [%s,%s]", srow.lo, srow.hi))
			case drow.ok && drow.lo == (lin{r: 1}) && drow.hi == (lin{r: 1, s: 1, k: -1}):
				kinds["bottom"] = true
				r.Check(srow.ok && srow.lo == linR1 && srow.hi == linR1, "A3", name+": bottom border rows <- last interior row", w.InstrPos(call), fmt.Sprintf("src row [%s,%s]", srow.lo, srow.hi))
			default:
				r.Fail("A3", name, w.InstrPos(call), fmt.Sprintf("destination rows [%s,%s] not understood", drow.lo, drow.hi), "")
			}
		}
	}
	r.Check(kinds["seed"] && kinds["top"] && kinds["bottom"], "G4", "border replication copies found (seed, top rows, bottom rows)", "-", fmt.Sprintf("%d copies, kinds %v", nc, kinds))
	// A4
	curField := -1
	for _, b := range detectBlocks(w, d, k) {
		for _, in := range b.Instrs {
			if st, ok := in.(*ssa.Store); ok {
				if c, ok := st.Val.(*ssa.Call); ok && c.Call.StaticCallee() == k.ffcPred {
					if fa, ok := st.Addr.(*ssa.FieldAddr); ok {
						curField = fa.Field
					}
				}
			}
		}
	}
	checkReseed(w, r, d, k, curField, "A4")
	// seed branch on count == 1
	bgCount := -1
	for _, b := range k.updateBg.Blocks {
		for _, in := range b.Instrs {
			if st, ok := in.(*ssa.Store); ok {
				if fa, ok := st.Addr.(*ssa.FieldAddr); ok && isPtrTo(fa.X.Type(), d.T) && isInteger(d.St.Field(fa.Field).Type()) {
					bgCount = fa.Field
				}
			}
		}
	}
	if bgCount >= 0 {
		leaf := "motion.motionDetector." + d.St.Field(bgCount).Name() + "@recv:motion.motionDetector"
		seedGuard := "eq(1, " + leaf + ")"
		okSeed := false
		for _, f := range bgFuncs {
			for _, b := range f.Blocks {
				for _, in := range b.Instrs {
					call, ok := in.(*ssa.Call)
					if !ok {
						continue
					}
					if bi, isB := call.Call.Value.(*ssa.Builtin); isB && bi.Name() == "copy" {
						if dst, ok := rowSlice(call.Call.Args[0]); ok && dst.lo != nil {
							if f == k.updateBg {
								okSeed = hasGuard(e.guardsOf(b), seedGuard)
							} else {
								// seeding moved into a method: it is called from the background update under the guard
								for _, ub := range k.updateBg.Blocks {
									for _, ui := range ub.Instrs {
										if uc, ok := ui.(*ssa.Call); ok && uc.Call.StaticCallee() == f {
											okSeed = hasGuard(e.guardsOf(ub), seedGuard)
										}
									}
								}
							}
						}
					}
				}
			}
		}
		r.Check(okSeed, "A4", "the whole interior is seeded from the input when the background frame count is 1", w.Pos(k.updateBg.Pos()), seedGuard)
		zero := zeroStoresOf(k.reset, d.T, 0)[bgCount]
		r.Check(zero, "A4", "Reset zeroes the background frame count", w.Pos(k.reset.Pos()), "")
	}
	if mruns, err := getMotionRuns(w); err == nil {
		checkProcessorResetResetsDetector(w, r, mruns, "A4")
	}
	// A5: envelope
	for _, a := range elemAccesses(k.updateBg) {
		if !a.IsStore {
			continue
		}
		ld, ok := a.Val.(*ssa.UnOp)
		if !ok {
			continue
		}
		f, rr, cc, ok := pixAddr(ld.X)
		if !ok || f != ssa.Value(k.updateBg.Params[1]) || rr != a.Row || cc != a.Col {
			continue
		}
		row := d.rangeOf(e, a.Row)
		if !row.within(linS, linR1) || !hasLoopGuard(e, a.Instr.Block()) {
			continue
		}
		// the lowering condition: float(new) - weight < float(bg)
		blk := a.Instr.Block()
		okEnv := false
		var got []string
		for _, p := range blk.Preds {
			iff, ok := p.Instrs[len(p.Instrs)-1].(*ssa.If)
			if !ok {
				continue
			}
			// the condition under which this edge is taken (the negation when the store sits on the else side)
			c := e.termOf(iff.Cond)
			if p.Succs[0] != blk {
				c = tnot(c)
			}
			got = append(got, c.String())
			if c.Op == "lt" && strings.Contains(c.Args[0].String(), "cptvframe.Frame.Pix@param:cptvframe.Frame") && strings.Contains(c.Args[0].String(), "-1*index(index("+d.leaf("weights")) &&
				strings.Contains(c.Args[1].String(), "cptvframe.Frame.Pix@"+bg) {
				okEnv = true
			}
		}
		if len(got) > 0 {
			r.Check(okEnv, "A5", "the background pixel is lowered to the input whenever input - weight < background (so it is never warmer than a non-FFC frame minus its weight)", w.InstrPos(a.Instr), strings.Join(got, " ∨ "))
		}
	}
	// weights only 0 or w+0.1 (capped) — in the background update or in a method split off it
	var wBlocks []*ssa.BasicBlock
	for _, f := range bgFuncs {
		wBlocks = append(wBlocks, f.Blocks...)
	}
	for _, b := range wBlocks {
		for _, in := range b.Instrs {
			st, ok := in.(*ssa.Store)
			if !ok {
				continue
			}
			ia, ok := st.Addr.(*ssa.IndexAddr)
			if !ok || !strings.Contains(e.termOf(ia.X).String(), d.leaf("weights")) {
				continue
			}
			t := e.termOf(st.Val).String()
			okW := t == "0" || strings.HasPrefix(t, "min(") || strings.Contains(t, "+ 0.1")
			r.Check(okW, "A5", "weight store is 0 or weight+0.1 (capped): "+t[:minInt(len(t), 40)], w.InstrPos(st), t)
		}
	}
	r.Floor("A5", 3)
	// A6
	checkProcessorStartArgs(w, r, d, "A6")
	r.Floor("A6", 1)
	// with throttling active the motion sink is the ThrottledRecorder: it must hand the trigger's background
	// and threshold to the file recorder, also when it re-opens a file in the middle of a trigger
	if tr, err := getThrottleRuns(w); err == nil {
		checkThrottlePassThrough(w, r, tr, "A6")
	} else {
		r.Unknown("A6", "throttle pass-through", "-", err.Error())
	}
	checkSettingsImmutable(w, r, "A1", "ThermalMotion:DynamicThreshold|TempThresh|TempThreshMin|TempThreshMax", "Config:Motion") // dynamic-thresh, temp-thresh limits as configured
	// what reaches the file: the header written at the start carries the threshold and the background it was handed (C11.H1)
	linkObligations(w, r, propC11, "C11", func(o *Obligation) bool {
		return strings.HasPrefix(o.Construct, "header.MotionConfig at start") || strings.HasPrefix(o.Construct, "header.BackgroundFrame at start")
	}, "A6")
}

func minInt(a, b int) int {
	if a < b {
		return a
	}
	return b
}

func hasLoopGuard(e *termEnv, b *ssa.BasicBlock) bool {
	for _, g := range e.guardsOf(b) {
		if strings.Contains(g.String(), "iv(") {
			return true
		}
	}
	return false
}

// isInteriorMeanAccumulator: v is computed by phis whose only non-trivial source is
// acc + float(background[y][x])/numPixels with y, x ranging over exactly the interior, starting from 0.
func (d *detInfo) isInteriorMeanAccumulator(e *termEnv, v ssa.Value) (bool, string) {
	bg := d.leaf("background")
	np := d.leaf("numPixels")
	seen := map[ssa.Value]bool{}
	adds := 0
	var why string
	var walk func(x ssa.Value) bool
	walk = func(x ssa.Value) bool {
		if seen[x] {
			return true
		}
		seen[x] = true
		switch y := x.(type) {
		case *ssa.Const:
			if y.Value != nil && e.termOf(y).String() == "0" {
				return true
			}
			why = "accumulator starts from " + e.termOf(y).String()
			return false
		case *ssa.Phi:
			for _, ed := range y.Edges {
				if !walk(ed) {
					return false
				}
			}
			return true
		case *ssa.BinOp:
			if y.Op != token.ADD {
				why = "not a sum: " + y.String()
				return false
			}
			adds++
			// one side continues the accumulator, the other is the addend
			var accSide, addend ssa.Value
			if _, isPhi := y.X.(*ssa.Phi); isPhi {
				accSide, addend = y.X, y.Y
			} else {
				accSide, addend = y.Y, y.X
			}
			div, ok := addend.(*ssa.BinOp)
			if !ok || div.Op != token.QUO || e.termOf(div.Y).String() != np {
				why = "addend is not pixel/numPixels: " + e.termOf(addend).String()
				return false
			}
			px := div.X
			if cv, ok := px.(*ssa.Convert); ok {
				px = cv.X
			}
			ld, ok := px.(*ssa.UnOp)
			if !ok {
				why = "addend numerator is not a pixel"
				return false
			}
			f, rr, cc, ok := pixAddr(ld.X)
			if !ok || cc == nil || e.termOf(f).String() != bg {
				why = "addend is not a background pixel: " + e.termOf(px).String()
				return false
			}
			row, col := d.rangeOf(e, rr), d.rangeOf(e, cc)
			if !(row.ok && col.ok && row.lo == linS && row.hi == linR1 && col.lo == linS && col.hi == linC1) {
				why = fmt.Sprintf("summation range rows [%s,%s] cols [%s,%s] is not exactly the interior", row.lo, row.hi, col.lo, col.hi)
				return false
			}
			// the pixel that is summed is the pixel AFTER this frame's update: no store to the same background element
			// follows the load within the iteration (back edges ignored)
			for _, a := range elemAccesses(ld.Parent()) {
				if a.IsStore && a.Row == rr && a.Col == cc && e.termOf(a.Frame).String() == bg && forwardReaches(ld, a.Instr) {
					why = "the background pixel is summed before it is updated (store at line " + fmt.Sprint(e.w.Prog.Fset.Position(a.Instr.Pos()).Line) + " follows the load)"
					return false
				}
			}
			return walk(accSide)
		}
		if c, isCall := x.(*ssa.Call); isCall {
			// the mean computed in a method of the detector split off the background update: every return of it
			callee := c.Call.StaticCallee()
			if callee != nil && callee.Signature.Recv() != nil && isPtrTo(callee.Signature.Recv().Type(), d.T) && len(callee.Blocks) > 0 && callee.Signature.Results().Len() == 1 {
				n := 0
				before := adds
				for _, b := range callee.Blocks {
					if ret, ok := b.Instrs[len(b.Instrs)-1].(*ssa.Return); ok {
						n++
						adds = before
						if !walk(ret.Results[0]) {
							return false
						}
					}
				}
				return n > 0
			}
		}
		why = fmt.Sprintf("unexpected %T in the accumulator", x)
		return false
	}
	ok := walk(v)
	if ok && adds != 1 {
		return false, fmt.Sprintf("%d summation sites (constant result?)", adds)
	}
	if ok {
		return true, "Σ background/numPixels over rows [S,R-1] × cols [S,C-1], from 0"
	}
	return false, why
}

var _ = types.Typ

// checkProcessorStartArgs: what the processor hands to StartRecording. Motion sink: the detector's background frame
// and its current threshold, both read from the detector at the call; continuous and test sinks: that background and
// threshold 0. (A cached pointer or value would go stale when the detector re-seeds or replaces them.)
func checkProcessorStartArgs(w *World, r *Report, d *detInfo, rule string) {
	runs, err := getMotionRuns(w)
	if err != nil {
		r.Unknown(rule, "processor start arguments", "-", err.Error())
		return
	}
	me := newTermEnv(w)
	bg := "motion.motionDetector." + d.fname("background") + "@"
	th := "motion.motionDetector." + d.fname("tempThresh") + "@"
	for role, rn := range runs.model.C.RoleNames {
		for _, ev := range eventsOfKind(runs.fault, "sink:StartRecording", role) {
			call := ev.Instr.(*ssa.Call)
			a0, a1 := me.termOf(call.Call.Args[0]).String(), me.termOf(call.Call.Args[1]).String()
			if role == roleMotion {
				r.Check(strings.HasPrefix(a0, bg) && strings.HasPrefix(a1, th), rule, "motion StartRecording receives the detector's background and current threshold", w.InstrPos(call), a0+" ; "+a1)
			} else {
				r.Check(strings.HasPrefix(a0, bg) && a1 == "0", rule, rn+" StartRecording receives the detector's background and threshold 0", w.InstrPos(call), a0+" ; "+a1)
			}
		}
	}
}

// zeroStoresOf: the receiver fields (of type T) that fn - or a method of T it calls unconditionally on the same
// receiver, up to two levels deep - stores the constant 0 into on a block that executes on every call.
func zeroStoresOf(fn *ssa.Function, T *types.Named, depth int) map[int]bool {
	out := map[int]bool{}
	if fn == nil || len(fn.Blocks) == 0 || depth > 2 {
		return out
	}
	for _, b := range fn.Blocks {
		// only blocks that every execution passes through: they dominate every returning block
		always := true
		for _, rb := range fn.Blocks {
			if _, isRet := rb.Instrs[len(rb.Instrs)-1].(*ssa.Return); isRet && !b.Dominates(rb) {
				always = false
			}
		}
		if !always {
			continue
		}
		for _, in := range b.Instrs {
			switch x := in.(type) {
			case *ssa.Store:
				if fa, ok := x.Addr.(*ssa.FieldAddr); ok && isPtrTo(fa.X.Type(), T) && fa.X == ssa.Value(fn.Params[0]) {
					if c, ok := x.Val.(*ssa.Const); ok && c.Value != nil && c.Value.Kind() == constant.Int && c.Int64() == 0 {
						out[fa.Field] = true
					}
				}
			case *ssa.Call:
				callee := x.Call.StaticCallee()
				if callee != nil && callee.Signature.Recv() != nil && isPtrTo(callee.Signature.Recv().Type(), T) && len(x.Call.Args) > 0 && x.Call.Args[0] == ssa.Value(fn.Params[0]) {
					for fi := range zeroStoresOf(callee, T, depth+1) {
						out[fi] = true
					}
				}
			}
		}
	}
	return out
}

// detectBlocks: the blocks of Detect and of the stage methods split off it (unexported methods of the detector that
// Detect reaches and that are none of the identified kernels).
func detectBlocks(w *World, d *detInfo, k *kernels) []*ssa.BasicBlock {
	kernel := map[*ssa.Function]bool{}
	for _, kf := range []*ssa.Function{k.pixelsChanged, k.updateBg, k.calcThresh, k.hasMotion, k.diffAbs, k.diffWarm, k.countOne, k.countTwo, k.reset, k.ffcPred} {
		if kf != nil {
			kernel[kf] = true
		}
	}
	var out []*ssa.BasicBlock
	seen := map[*ssa.Function]bool{}
	var walk func(fn *ssa.Function, depth int)
	walk = func(fn *ssa.Function, depth int) {
		if seen[fn] || depth > 2 {
			return
		}
		seen[fn] = true
		out = append(out, fn.Blocks...)
		for _, b := range fn.Blocks {
			for _, in := range b.Instrs {
				if c, ok := in.(*ssa.Call); ok {
					callee := c.Call.StaticCallee()
					if callee != nil && !kernel[callee] && callee.Signature.Recv() != nil && isPtrTo(callee.Signature.Recv().Type(), d.T) && len(callee.Blocks) > 0 && !ast.IsExported(callee.Name()) {
						walk(callee, depth+1)
					}
				}
			}
		}
	}
	walk(d.Detect, 0)
	return out
}

// loadsFieldAfterItsStore: v is (the negation of) a load of receiver field fi that comes after a store to that field in
// the same function (so it observes this call's value, not the one left by the previous call).
func loadsFieldAfterItsStore(v ssa.Value, T *types.Named, fi int) bool {
	if u, ok := v.(*ssa.UnOp); ok && u.Op == token.NOT {
		v = u.X
	}
	ld, ok := v.(*ssa.UnOp)
	if !ok || ld.Op != token.MUL {
		return false
	}
	fa, ok := ld.X.(*ssa.FieldAddr)
	if !ok || fa.Field != fi || !isPtrTo(fa.X.Type(), T) {
		return false
	}
	for _, b := range ld.Parent().Blocks {
		for _, in := range b.Instrs {
			st, ok := in.(*ssa.Store)
			if !ok {
				continue
			}
			if fa2, ok := st.Addr.(*ssa.FieldAddr); ok && fa2.Field == fi && isPtrTo(fa2.X.Type(), T) {
				if b == ld.Block() && instrIndex(st) < instrIndex(ld) || b != ld.Block() && b.Dominates(ld.Block()) {
					return true
				}
			}
		}
	}
	return false
}

// stageRunsAfterStore: the test sits in a stage method split off Detect, whose (single) call in Detect comes after
// Detect's store to the field - a load in the stage observes the current frame's value.
func stageRunsAfterStore(w *World, d *detInfo, iff *ssa.If, fi int) bool {
	if iff.Parent() == d.Detect {
		return false
	}
	site := liftTo(w, d.Detect, iff, 0)
	if site == nil {
		return false
	}
	for _, b := range d.Detect.Blocks {
		for _, in := range b.Instrs {
			st, ok := in.(*ssa.Store)
			if !ok {
				continue
			}
			if fa, ok := st.Addr.(*ssa.FieldAddr); ok && fa.Field == fi && isPtrTo(fa.X.Type(), d.T) {
				if b == site.Block() && instrIndex(st) < instrIndex(site) || b != site.Block() && b.Dominates(site.Block()) {
					return true
				}
			}
		}
	}
	return false
}
