package main

// E1c: source normalisation "function-variable seams". A package-level variable `var now = time.Now` (one name, one
// value, the value naming a function - not a method value, not a closure) that no production code ever assigns again or
// takes the address of is a test seam: production calls through it are calls of that function. Every call `now(...)`
// is rewritten to `time.Now(...)` in an overlay (never on disk; offsets on other lines are unchanged) before the program
// is type-checked and turned into SSA, so that the rules - which recognise library calls by their resolved callee - see
// the call the program makes. A call in a file that does not import the function's package under the same name is
// left as it is. Test files are not loaded: what a test substitutes is not the production program.

import (
	"fmt"
	"go/ast"
	"go/token"
	"go/types"
	"os"
	"sort"
	"strings"

	"golang.org/x/tools/go/packages"
)

func funcVarSeamOverlays(fset *token.FileSet, repo []*packages.Package, overlay map[string][]byte) (map[string][]byte, []string) {
	src := func(fn string) []byte {
		if b, ok := overlay[fn]; ok {
			return b
		}
		b, _ := os.ReadFile(fn)
		return b
	}
	type seam struct {
		v      *types.Var
		fn     *types.Func
		text   string // source text of the function expression
		pkgRef string // import path the text refers to through a package name ("" for a function of the same package)
		pkgNm  string
		fname  string
		declP  *packages.Package
	}
	seams := map[*types.Var]*seam{}
	for _, p := range repo {
		for _, f := range p.Syntax {
			for _, d := range f.Decls {
				gd, ok := d.(*ast.GenDecl)
				if !ok || gd.Tok != token.VAR {
					continue
				}
				for _, sp := range gd.Specs {
					vs := sp.(*ast.ValueSpec)
					if len(vs.Names) != 1 || len(vs.Values) != 1 {
						continue
					}
					v, ok := p.TypesInfo.Defs[vs.Names[0]].(*types.Var)
					if !ok {
						continue
					}
					if _, isSig := v.Type().Underlying().(*types.Signature); !isSig {
						continue
					}
					var fobj *types.Func
					s := &seam{v: v, declP: p}
					val := vs.Values[0]
					if fl, ok := val.(*ast.FuncLit); ok {
						// a literal that only forwards its parameters, in order, to one function and returns its result
						if fl.Body != nil && len(fl.Body.List) == 1 {
							if rs, ok := fl.Body.List[0].(*ast.ReturnStmt); ok && len(rs.Results) == 1 {
								if ce, ok := rs.Results[0].(*ast.CallExpr); ok && ce.Ellipsis == token.NoPos {
									var pnames []string
									for _, fld := range fl.Type.Params.List {
										for _, nm := range fld.Names {
											pnames = append(pnames, nm.Name)
										}
									}
									same := len(pnames) == len(ce.Args)
									for i, a := range ce.Args {
										if id, ok := a.(*ast.Ident); !ok || !same || id.Name != pnames[i] {
											same = false
										}
									}
									if same {
										val = ce.Fun
									}
								}
							}
						}
					}
					switch x := val.(type) {
					case *ast.Ident:
						fobj, _ = p.TypesInfo.Uses[x].(*types.Func)
					case *ast.SelectorExpr:
						if id, ok := x.X.(*ast.Ident); ok {
							if pn, ok := p.TypesInfo.Uses[id].(*types.PkgName); ok {
								fobj, _ = p.TypesInfo.Uses[x.Sel].(*types.Func)
								s.pkgRef, s.pkgNm = pn.Imported().Path(), id.Name
							}
						}
					}
					if fobj == nil || fobj.Type().(*types.Signature).Recv() != nil {
						continue
					}
					b := src(fset.Position(vs.Pos()).Filename)
					s.fn = fobj
					s.text = string(b[fset.Position(val.Pos()).Offset:fset.Position(val.End()).Offset])
					s.fname = fobj.Name()
					seams[v] = s
				}
			}
		}
	}
	if len(seams) == 0 {
		return nil, nil
	}
	// disqualify: assigned, address taken, or used other than as the function of a call
	calls := map[*types.Var][]*ast.CallExpr{}
	callFile := map[*ast.CallExpr]*ast.File{}
	callPkg := map[*ast.CallExpr]*packages.Package{}
	for _, p := range repo {
		for _, f := range p.Syntax {
			isCallFun := map[ast.Expr]bool{}
			ast.Inspect(f, func(n ast.Node) bool {
				if c, ok := n.(*ast.CallExpr); ok {
					isCallFun[c.Fun] = true
					var id *ast.Ident
					switch x := c.Fun.(type) {
					case *ast.Ident:
						id = x
					case *ast.SelectorExpr:
						id = x.Sel
					}
					if id != nil {
						if v, ok := p.TypesInfo.Uses[id].(*types.Var); ok && seams[v] != nil {
							calls[v] = append(calls[v], c)
							callFile[c], callPkg[c] = f, p
						}
					}
				}
				return true
			})
			ast.Inspect(f, func(n ast.Node) bool {
				var id *ast.Ident
				var whole ast.Expr
				switch x := n.(type) {
				case *ast.Ident:
					id, whole = x, x
				case *ast.SelectorExpr:
					id, whole = x.Sel, x
				default:
					return true
				}
				v, ok := p.TypesInfo.Uses[id].(*types.Var)
				if !ok || seams[v] == nil {
					return true
				}
				if !isCallFun[whole] {
					// the selector's Sel ident is visited again on its own: ignore that second visit
					if _, isSel := n.(*ast.Ident); isSel {
						return true
					}
					delete(seams, v)
				}
				return true
			})
			// plain identifiers used as values (not call functions): second pass with parent knowledge
			ast.Inspect(f, func(n ast.Node) bool {
				switch x := n.(type) {
				case *ast.AssignStmt:
					for _, l := range x.Lhs {
						if id, ok := l.(*ast.Ident); ok {
							if v, ok := p.TypesInfo.Uses[id].(*types.Var); ok {
								delete(seams, v)
							}
						}
					}
				case *ast.UnaryExpr:
					if x.Op == token.AND {
						if id, ok := x.X.(*ast.Ident); ok {
							if v, ok := p.TypesInfo.Uses[id].(*types.Var); ok {
								delete(seams, v)
							}
						}
					}
				}
				return true
			})
		}
	}
	// identifiers used as values outside call position
	for _, p := range repo {
		for _, f := range p.Syntax {
			var stack []ast.Node
			ast.Inspect(f, func(n ast.Node) bool {
				if n == nil {
					stack = stack[:len(stack)-1]
					return true
				}
				if id, ok := n.(*ast.Ident); ok {
					if v, ok := p.TypesInfo.Uses[id].(*types.Var); ok && seams[v] != nil {
						okUse := false
						if len(stack) > 0 {
							switch par := stack[len(stack)-1].(type) {
							case *ast.CallExpr:
								okUse = par.Fun == ast.Expr(id)
							case *ast.SelectorExpr:
								if par.Sel == id && len(stack) > 1 {
									if gp, ok := stack[len(stack)-2].(*ast.CallExpr); ok {
										okUse = gp.Fun == ast.Expr(par)
									}
								}
							}
						}
						if !okUse {
							delete(seams, v)
						}
					}
				}
				stack = append(stack, n)
				return true
			})
		}
	}
	edits := map[string][]textEdit{}
	addedImport := map[string]bool{}
	var notes []string
	var vs []*types.Var
	for v := range seams {
		vs = append(vs, v)
	}
	sort.Slice(vs, func(i, j int) bool { return vs[i].Pkg().Path()+"."+vs[i].Name() < vs[j].Pkg().Path()+"."+vs[j].Name() })
	for _, v := range vs {
		s := seams[v]
		n := 0
		for _, c := range calls[v] {
			f, p := callFile[c], callPkg[c]
			text := s.text
			if s.pkgRef == "" {
				if p != s.declP {
					continue // a function of the declaring package called from another one: left as it is
				}
			} else {
				okImp := false
				for _, im := range f.Imports {
					if strings.Trim(im.Path.Value, `"`) != s.pkgRef {
						continue
					}
					nm := ""
					if im.Name != nil {
						nm = im.Name.Name
					} else if pk := p.Imports[s.pkgRef]; pk != nil {
						nm = pk.Name
					}
					okImp = nm == s.pkgNm
				}
				if !okImp {
					// the file does not import the function's package (under that name): the import is added on the line
					// of the package clause (line numbers stay as they are)
					alias := "seam__" + strings.NewReplacer("-", "_", ".", "_").Replace(s.pkgRef[strings.LastIndex(s.pkgRef, "/")+1:])
					fname := fset.Position(f.Pos()).Filename
					key := fname + "|" + s.pkgRef
					if !addedImport[key] {
						addedImport[key] = true
						off := fset.Position(f.Name.End()).Offset
						edits[fname] = append(edits[fname], textEdit{off, off, "; import " + alias + " \"" + s.pkgRef + "\""})
					}
					text = alias + "." + s.fname
				}
			}
			fn := fset.Position(c.Fun.Pos()).Filename
			edits[fn] = append(edits[fn], textEdit{fset.Position(c.Fun.Pos()).Offset, fset.Position(c.Fun.End()).Offset, text})
			n++
		}
		if n > 0 {
			notes = append(notes, fmt.Sprintf("function variable %s.%s (= %s, never reassigned in production code) analysed as direct calls of %s at %d call site(s)", v.Pkg().Name(), v.Name(), s.text, s.fn.FullName(), n))
		}
	}
	out := map[string][]byte{}
	for fn, es := range edits {
		sort.Slice(es, func(i, j int) bool { return es[i].lo > es[j].lo })
		b := append([]byte{}, src(fn)...)
		for _, e := range es {
			if e.lo > e.hi || e.hi > len(b) {
				return nil, append(notes, "function-variable normalisation skipped: bad edit in "+fn)
			}
			b = append(b[:e.lo], append([]byte(e.text), b[e.hi:]...)...)
		}
		out[fn] = b
	}
	return out, notes
}
