package main

// trsa — thermal-recorder static analyser. One binary decides the properties of
// /verif/properties.jsonl from the type-checked source and SSA form of /repo's
// current working tree. See /verif/DESIGN.md.

import (
	"flag"
	"fmt"
	"os"
	"runtime/debug"
	"sort"
	"strconv"
	"strings"
)

type propFunc func(w *World, r *Report)

var props = map[string]propFunc{}

func register(id string, f propFunc) { props[id] = f }

type overlayFlag []string

func (o *overlayFlag) String() string     { return strings.Join(*o, ",") }
func (o *overlayFlag) Set(s string) error { *o = append(*o, s); return nil }

func main() {
	var (
		prop     = flag.String("prop", "", "property id (C01..C20) or 'all'")
		tier     = flag.String("tier", "quick", "quick | thorough")
		repo     = flag.String("repo", "/repo", "repository working tree")
		verif    = flag.String("verif", "/verif", "verification directory (evidence, known findings, replays)")
		arch     = flag.String("arch", "", "GOARCH to analyse for (default: host)")
		noEv     = flag.Bool("no-evidence", false, "do not write evidence (used by the sensitivity battery)")
		dump     = flag.String("dump", "", "debug: print normal forms of <pkg-rel>:<func>")
		overlays overlayFlag
	)
	flag.Var(&overlays, "overlay", "abs-file=replacement-file: analyse with this file replaced in memory")
	flag.Parse()
	seed := 0
	if s := os.Getenv("VERIF_SEED"); s != "" {
		seed, _ = strconv.Atoi(s)
	}
	ov := map[string][]byte{}
	for _, o := range overlays {
		i := strings.Index(o, "=")
		if i < 0 {
			fmt.Println("bad -overlay", o)
			os.Exit(2)
		}
		b, err := os.ReadFile(o[i+1:])
		if err != nil {
			fmt.Println("BROKEN:", err)
			os.Exit(2)
		}
		ov[o[:i]] = b
	}
	if *dump != "" {
		w, err := LoadWorld(*repo, ov, *arch)
		if err != nil {
			fmt.Println(err)
			os.Exit(2)
		}
		dumpFunc(w, *dump)
		return
	}
	if *prop == "" {
		fmt.Println("usage: trsa -prop <id> [-tier quick|thorough]")
		os.Exit(2)
	}
	ids := []string{*prop}
	if *prop == "all" {
		ids = nil
		for k := range props {
			ids = append(ids, k)
		}
		sort.Strings(ids)
	}
	w, err := LoadWorld(*repo, ov, *arch)
	if err == nil {
		for _, n := range w.Notes {
			fmt.Println("NOTE " + n)
		}
	}
	exit := 0
	for _, id := range ids {
		f, ok := props[id]
		if !ok {
			fmt.Printf("unknown property %s\n", id)
			os.Exit(2)
		}
		r := NewReport(id, *tier, seed, *verif)
		r.NoEvidence = *noEv
		if err != nil {
			// G3: a tree that does not load / type-check cannot be shown to satisfy anything
			r.Unknown("load", "repository", "-", "the repository could not be loaded and type-checked: "+err.Error())
		} else {
			func() {
				defer func() {
					if p := recover(); p != nil {
						r.Unknown("analyser", "panic", "-", fmt.Sprintf("analyser panic: %v\n%s", p, debug.Stack()))
					}
				}()
				r.Extra["packages_analysed"] = len(w.Repo)
				if len(w.Notes) > 0 {
					r.Extra["normalisations"] = w.Notes
				}
				r.Extra["goarch"] = archName(w)
				linking[id] = true
				f(w, r)
				delete(linking, id)
			}()
		}
		if c := r.Finish(); c > exit {
			exit = c
		}
	}
	os.Exit(exit)
}

func archName(w *World) string {
	if w.Arch == "" {
		return "host(amd64)"
	}
	return w.Arch
}
