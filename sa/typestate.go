package main

// E2: finite relational typestate interpreter ("component fix-point").
//
// An abstract interpreter over go/ssa for one component (a struct type and its
// methods). The abstract state is a valuation of the component's tracked fields
// (bools, sign / enum abstraction of ints, nil-ness), one open/closed bit per sink,
// ghosts, and the abstract values of SSA registers of the inlining stack. The domain
// is the powerset of such states: the worklist visits (block, state) pairs, forks on
// unknown conditions, and terminates because the state space is finite. It is a
// dataflow analysis over the program text; no code of the repository is executed.

import (
	"fmt"
	"go/constant"
	"go/token"
	"go/types"
	"sort"
	"strings"

	"golang.org/x/tools/go/ssa"
)

type kind uint8

const (
	kUnknown   kind = iota
	kBool           // n: 0/1
	kNil            // n: 0 nil, 1 non-nil
	kSign           // n: -1,0,1
	kConst          // n: exact integer
	kRecv           // the component instance
	kFieldAddr      // n: field index of the receiver
	kObj            // n: field index; opaque object held in that field
	kSink           // n: role
	kTok            // n: token id (component specific, e.g. the ring's current slot)
	kTuple
	kAlloc // n: index of a local cell
	kCmp   // an undecided comparison of interest; tag: its decision label, n: 1 when negated
)

type val struct {
	k   kind
	n   int64
	t   []val
	tag string // provenance label carried along (e.g. "parse-err")
}

func (v val) String() string {
	switch v.k {
	case kUnknown:
		return "?"
	case kTuple:
		s := []string{}
		for _, e := range v.t {
			s = append(s, e.String())
		}
		return "(" + strings.Join(s, ",") + ")"
	}
	if v.tag != "" {
		return fmt.Sprintf("%d:%d#%s", v.k, v.n, v.tag)
	}
	return fmt.Sprintf("%d:%d", v.k, v.n)
}

var unknown = val{}

func vbool(b bool) val {
	if b {
		return val{k: kBool, n: 1}
	}
	return val{k: kBool}
}
func vnil(nonnil bool) val {
	if nonnil {
		return val{k: kNil, n: 1}
	}
	return val{k: kNil}
}

type trackKind uint8

const (
	tNone trackKind = iota
	tBool
	tSign
	tEnum // every store in the program is a constant: exact values
	tNilness
)

type frame struct {
	fn   *ssa.Function
	blk  int
	pc   int
	pred int
	regs map[ssa.Value]val
	call ssa.Instruction // call instruction in the caller to bind on return
}

type tsState struct {
	fields  map[int]val
	sinks   []int8          // 0 closed, 1 open
	present []int8          // sink value present (non-nil) 1 / absent 0
	pers    map[string]int8 // persistent ghosts (part of the quiescent state)
	ghosts  map[string]int8 // per entry call ghosts
	dec     map[string]int8 // decisions taken in this entry call (label -> outcome)
	stack   []*frame
	choices []string
}

func (s *tsState) clone() *tsState {
	n := &tsState{fields: make(map[int]val, len(s.fields)), pers: make(map[string]int8, len(s.pers)),
		ghosts: make(map[string]int8, len(s.ghosts)), dec: make(map[string]int8, len(s.dec))}
	n.sinks = append([]int8{}, s.sinks...)
	n.present = append([]int8{}, s.present...)
	for k, v := range s.fields {
		n.fields[k] = v
	}
	for k, v := range s.pers {
		n.pers[k] = v
	}
	for k, v := range s.ghosts {
		n.ghosts[k] = v
	}
	for k, v := range s.dec {
		n.dec[k] = v
	}
	for _, f := range s.stack {
		nf := &frame{fn: f.fn, blk: f.blk, pc: f.pc, pred: f.pred, call: f.call, regs: make(map[ssa.Value]val, len(f.regs))}
		for k, v := range f.regs {
			nf.regs[k] = v
		}
		n.stack = append(n.stack, nf)
	}
	n.choices = append([]string{}, s.choices...)
	return n
}

func kvString(m map[string]int8) string {
	ks := make([]string, 0, len(m))
	for k := range m {
		ks = append(ks, k)
	}
	sort.Strings(ks)
	var b strings.Builder
	for _, k := range ks {
		fmt.Fprintf(&b, "%s=%d,", k, m[k])
	}
	return b.String()
}

// qkey identifies a quiescent state.
func (s *tsState) qkey() string {
	var b strings.Builder
	ks := make([]int, 0, len(s.fields))
	for k := range s.fields {
		ks = append(ks, k)
	}
	sort.Ints(ks)
	for _, k := range ks {
		fmt.Fprintf(&b, "f%d=%s;", k, s.fields[k])
	}
	fmt.Fprintf(&b, "S%v;P%v;", s.sinks, s.present)
	b.WriteString(kvString(s.pers))
	return b.String()
}

func (s *tsState) ctxKey() string {
	return s.qkey() + "|" + kvString(s.ghosts) + "|" + kvString(s.dec)
}

func (s *tsState) key() string {
	var b strings.Builder
	b.WriteString(s.ctxKey())
	for _, f := range s.stack {
		fmt.Fprintf(&b, "|%p@%d.%d<%d:", f.fn, f.blk, f.pc, f.pred)
		rs := make([]string, 0, len(f.regs))
		for k, v := range f.regs {
			if v.k != kUnknown {
				rs = append(rs, k.Name()+"="+v.String())
			}
		}
		sort.Strings(rs)
		b.WriteString(strings.Join(rs, ","))
	}
	return b.String()
}

// Ctx is the abstract context in which an event / store / exit was observed.
type Ctx struct {
	Fields  map[string]string
	Sinks   []int8
	Present []int8
	Pers    map[string]int8
	Ghosts  map[string]int8
	Dec     map[string]int8
	Trace   string
}

type Event struct {
	Kind   string // sink:<Method>, obs:<name>, store, exit, call:<name>
	Role   int    // sink role or -1
	Field  int    // for stores
	Arg    string // component specific description of the main argument
	Instr  ssa.Instruction
	Entry  string
	Ctxs   []*Ctx
	ctxSet map[string]bool
	// all entry calls from which the event was reached
	Entries map[string]bool
}

type Violation struct {
	Rule, Construct, Pos, Detail, Witness string
}

type Entry struct {
	Name string
	Fn   *ssa.Function
	// foreign constant store to a field (an event rather than a method)
	SetField int
	SetVal   val
}

// Component describes what is analysed; hooks make it specific.
type Component struct {
	W         *World
	Pkg       *ssa.Package
	T         *types.Named
	St        *types.Struct
	Name      string
	RoleNames []string
	SinkField map[int]int // field index -> role
	Tracked   map[int]trackKind
	EnumVals  map[int][]int64
	ObjField  map[int]bool
	Ctor      *ssa.Function
	CtorSink  map[int]int // ctor param index -> role
	Entries   []Entry
	Fault     bool // sink calls may fail

	// hooks
	// OnObjCall handles a call whose receiver / function value is the object in field fi.
	// It returns (handled, forked): forked means the continuation was taken over.
	OnObjCall func(a *tsRun, s *tsState, f *frame, in ssa.CallInstruction, fi int, method string) (bool, bool)
	// OnSinkEvent lets the component update ghosts before the generic protocol handling.
	OnSinkEvent func(a *tsRun, s *tsState, f *frame, in ssa.CallInstruction, role int, method string)
	// OnEntry initialises per-call ghosts.
	OnEntry func(s *tsState, e *Entry)
	// OnExit checks component assertions at the end of an entry call.
	OnExit   func(a *tsRun, s *tsState, e *Entry)
	InitPers map[string]int8
	Counter  map[int]bool // resettable counters (see resolveTracking)
	// BindParams gives abstract values (provenance tokens) to the parameters of an entry call.
	BindParams func(s *tsState, fr *frame, e *Entry)
	// OnDecision is told about every labelled branch decision.
	OnDecision func(s *tsState, label string, outcome int8)
	// EntryEnabled restricts the most general client (e.g. to a protocol-conforming one).
	EntryEnabled func(s *tsState, e *Entry) bool
}

type tsRun struct {
	C         *Component
	seen      map[string]bool
	exits     []*tsState
	Viol      map[string]*Violation
	Steps     int
	Events    map[string]*Event
	curTrace  string
	curEntry  *Entry
	Reach     map[string]*tsState
	parent    map[string]string
	how       map[string]string
	Undecided map[string]string // G3 reasons
	maxDepth  int
}

func (c *Component) fieldName(i int) string { return c.St.Field(i).Name() }

// resolveTracking determines which fields are tracked and how, from the program text.
func (c *Component) resolveTracking() {
	c.Tracked = map[int]trackKind{}
	c.EnumVals = map[int][]int64{}
	c.ObjField = map[int]bool{}
	cmpConst := map[int]bool{}
	nonConstStore := map[int]bool{}
	constStores := map[int]map[int64]bool{}
	nilCmp := map[int]bool{}
	incStore := map[int]bool{}
	c.Counter = map[int]bool{}
	addConst := func(fi int, v ssa.Value) {
		if cv, ok := v.(*ssa.Const); ok && cv.Value != nil && cv.Value.Kind() == constant.Int {
			n, _ := constant.Int64Val(cv.Value)
			if constStores[fi] == nil {
				constStores[fi] = map[int64]bool{}
			}
			constStores[fi][n] = true
			return
		}
		nonConstStore[fi] = true
	}
	for fn := range c.W.AllFuncs {
		if len(fn.Blocks) == 0 {
			continue
		}
		for _, b := range fn.Blocks {
			for _, in := range b.Instrs {
				switch in := in.(type) {
				case *ssa.BinOp:
					switch in.Op {
					case token.EQL, token.NEQ, token.LSS, token.GTR, token.LEQ, token.GEQ:
					default:
						continue
					}
					for _, pair := range [][2]ssa.Value{{in.X, in.Y}, {in.Y, in.X}} {
						fi := c.loadedField(pair[0])
						if fi < 0 {
							continue
						}
						if cv, isC := pair[1].(*ssa.Const); isC {
							if cv.Value == nil {
								nilCmp[fi] = true
							} else {
								cmpConst[fi] = true
							}
						}
					}
				case *ssa.Store:
					if fa, ok := in.Addr.(*ssa.FieldAddr); ok && isPtrTo(fa.X.Type(), c.T) {
						addConst(fa.Field, in.Val)
						if c.isIncrement(in, fa.Field) {
							incStore[fa.Field] = true
						}
					}
				case ssa.CallInstruction:
					cc := in.Common()
					callee := cc.StaticCallee()
					if callee == nil || callee.Pkg == nil || callee.Pkg.Pkg.Path() != "sync/atomic" || len(cc.Args) == 0 {
						continue
					}
					fa, ok := cc.Args[0].(*ssa.FieldAddr)
					if !ok || !isPtrTo(fa.X.Type(), c.T) {
						continue
					}
					n := callee.Name()
					switch {
					case strings.HasPrefix(n, "Store"):
						addConst(fa.Field, cc.Args[1])
					case strings.HasPrefix(n, "CompareAndSwap"):
						addConst(fa.Field, cc.Args[2])
						if _, isC := cc.Args[1].(*ssa.Const); isC {
							cmpConst[fa.Field] = true
						}
					case strings.HasPrefix(n, "Load"):
					default:
						nonConstStore[fa.Field] = true
					}
				}
			}
		}
	}
	for i := 0; i < c.St.NumFields(); i++ {
		ft := c.St.Field(i).Type()
		if _, isSink := c.SinkField[i]; isSink {
			continue
		}
		switch u := ft.Underlying().(type) {
		case *types.Basic:
			switch {
			case u.Kind() == types.Bool:
				c.Tracked[i] = tBool
			case u.Info()&types.IsInteger != 0 && cmpConst[i]:
				if !nonConstStore[i] {
					c.Tracked[i] = tEnum
					vals := []int64{0}
					for n := range constStores[i] {
						if n != 0 {
							vals = append(vals, n)
						}
					}
					sort.Slice(vals, func(a, b int) bool { return vals[a] < vals[b] })
					c.EnumVals[i] = vals
				} else {
					c.Tracked[i] = tSign
				}
			}
		case *types.Pointer, *types.Interface, *types.Signature:
			if nilCmp[i] {
				c.Tracked[i] = tNilness
			}
			c.ObjField[i] = true
		case *types.Struct:
			c.ObjField[i] = true
		}
		// a resettable counter: an untracked integer that is incremented somewhere and zeroed somewhere.
		// Its zero / maybe-non-zero status is kept as the persistent ghost "nz:<field>".
		if c.Tracked[i] == tNone && incStore[i] && constStores[i][0] {
			c.Counter[i] = true
		}
	}
}

// loadedField returns the receiver field index if v is a (possibly converted) load of a receiver field.
func (c *Component) loadedField(v ssa.Value) int {
	for {
		switch x := v.(type) {
		case *ssa.Convert:
			v = x.X
			continue
		case *ssa.ChangeType:
			v = x.X
			continue
		case *ssa.UnOp:
			if x.Op == token.MUL {
				if fa, ok := x.X.(*ssa.FieldAddr); ok && isPtrTo(fa.X.Type(), c.T) {
					return fa.Field
				}
			}
			return -1
		case *ssa.Call:
			// atomic.LoadXxx(&recv.f)
			if callee := x.Call.StaticCallee(); callee != nil && callee.Pkg != nil && callee.Pkg.Pkg.Path() == "sync/atomic" && strings.HasPrefix(callee.Name(), "Load") {
				if fa, ok := x.Call.Args[0].(*ssa.FieldAddr); ok && isPtrTo(fa.X.Type(), c.T) {
					return fa.Field
				}
			}
			return -1
		default:
			return -1
		}
	}
}

func (c *Component) domain(i int) []val {
	switch c.Tracked[i] {
	case tBool:
		return []val{vbool(false), vbool(true)}
	case tSign:
		return []val{{k: kSign, n: -1}, {k: kSign, n: 0}, {k: kSign, n: 1}}
	case tEnum:
		var out []val
		for _, n := range c.EnumVals[i] {
			out = append(out, val{k: kConst, n: n})
		}
		return out
	case tNilness:
		return []val{vnil(false), vnil(true)}
	}
	return nil
}

func (c *Component) zero(i int) val {
	switch c.Tracked[i] {
	case tBool:
		return vbool(false)
	case tSign:
		return val{k: kSign}
	case tEnum:
		return val{k: kConst}
	case tNilness:
		return vnil(false)
	}
	return unknown
}

// normalise a value to the field's tracking domain; ok=false when it has to be forked.
func (c *Component) toDomain(i int, v val) (val, bool) {
	switch c.Tracked[i] {
	case tBool:
		if v.k == kBool {
			return v, true
		}
	case tSign:
		if v.k == kSign {
			return v, true
		}
		if v.k == kConst {
			return val{k: kSign, n: sign(v.n)}, true
		}
	case tEnum:
		if v.k == kConst {
			return v, true
		}
	case tNilness:
		switch v.k {
		case kNil:
			return v, true
		case kSink, kObj, kRecv:
			return vnil(true), true
		}
	}
	return unknown, false
}

func newRun(c *Component) *tsRun {
	return &tsRun{C: c, Viol: map[string]*Violation{}, Events: map[string]*Event{}, Reach: map[string]*tsState{},
		parent: map[string]string{}, how: map[string]string{}, Undecided: map[string]string{}}
}

func (a *tsRun) traceOf(k string) string {
	var parts []string
	for k != "" {
		if h, ok := a.how[k]; ok {
			parts = append([]string{h}, parts...)
		}
		k = a.parent[k]
	}
	return strings.Join(parts, " ; ")
}

func (a *tsRun) witness(s *tsState) string {
	w := a.curTrace
	if len(s.choices) > 0 {
		w += "(" + strings.Join(s.choices, ",") + ")"
	}
	return w
}

func (a *tsRun) violation(s *tsState, in ssa.Instruction, rule, construct, detail string) {
	k := rule + "|" + construct
	if _, ok := a.Viol[k]; ok {
		return
	}
	pos := "-"
	if in != nil {
		pos = a.C.W.InstrPos(in)
	}
	a.Viol[k] = &Violation{Rule: rule, Construct: construct, Pos: pos, Detail: detail, Witness: a.witness(s)}
}

func (a *tsRun) undecided(in ssa.Instruction, why string) {
	pos := "-"
	fn := ""
	if in != nil {
		pos = a.C.W.InstrPos(in)
		if in.Parent() != nil {
			fn = in.Parent().Name()
		}
	}
	k := why + " in " + fn
	if _, ok := a.Undecided[k]; !ok {
		a.Undecided[k] = pos
	}
}

func (a *tsRun) ctxOf(s *tsState) *Ctx {
	c := &Ctx{Fields: map[string]string{}, Pers: map[string]int8{}, Ghosts: map[string]int8{}, Dec: map[string]int8{}}
	for i, v := range s.fields {
		c.Fields[a.C.fieldName(i)] = a.C.fieldValString(i, v)
	}
	c.Sinks = append([]int8{}, s.sinks...)
	c.Present = append([]int8{}, s.present...)
	for k, v := range s.pers {
		c.Pers[k] = v
	}
	for k, v := range s.ghosts {
		c.Ghosts[k] = v
	}
	for k, v := range s.dec {
		c.Dec[k] = v
	}
	c.Trace = a.witness(s)
	return c
}

func (c *Component) fieldValString(i int, v val) string {
	switch v.k {
	case kBool:
		if v.n == 1 {
			return "true"
		}
		return "false"
	case kSign:
		return [...]string{"<0", "0", ">0"}[v.n+1]
	case kConst:
		return fmt.Sprint(v.n)
	case kNil:
		if v.n == 1 {
			return "non-nil"
		}
		return "nil"
	case kTok:
		return "tok:" + v.tag
	}
	return "?"
}

func (a *tsRun) record(s *tsState, kind string, role, field int, arg string, in ssa.Instruction) {
	id := fmt.Sprintf("%s|%d|%d|%s|%p", kind, role, field, arg, in)
	if kind == "exit" {
		id = "exit|" + a.curEntry.Name
	}
	ev := a.Events[id]
	if ev == nil {
		ev = &Event{Kind: kind, Role: role, Field: field, Arg: arg, Instr: in, Entry: a.curEntry.Name, ctxSet: map[string]bool{}, Entries: map[string]bool{}}
		a.Events[id] = ev
	}
	ev.Entries[a.curEntry.Name] = true
	ck := s.ctxKey()
	if ev.ctxSet[ck] {
		return
	}
	ev.ctxSet[ck] = true
	ev.Ctxs = append(ev.Ctxs, a.ctxOf(s))
}

func (a *tsRun) get(f *frame, v ssa.Value) val {
	switch c := v.(type) {
	case *ssa.Const:
		if c.Value == nil {
			return vnil(false)
		}
		switch c.Value.Kind() {
		case constant.Bool:
			return vbool(constant.BoolVal(c.Value))
		case constant.Int:
			n, ok := constant.Int64Val(c.Value)
			if ok {
				return val{k: kConst, n: n}
			}
		}
		return unknown
	case *ssa.Function:
		return vnil(true)
	}
	if r, ok := f.regs[v]; ok {
		return r
	}
	return unknown
}

func bump(m map[string]int8, k string) {
	if m[k] < 2 {
		m[k]++
	}
}

func sign(n int64) int64 {
	if n < 0 {
		return -1
	}
	if n > 0 {
		return 1
	}
	return 0
}

// run executes the top frame until the entry call returns; forks recursively.
func (a *tsRun) run(s *tsState) {
	c := a.C
	for {
		if len(s.stack) == 0 {
			a.exits = append(a.exits, s)
			return
		}
		if len(s.stack) > 24 {
			a.undecided(nil, "inlining depth exceeded (recursion?)")
			return
		}
		f := s.stack[len(s.stack)-1]
		if f.pc == 0 {
			k := s.key()
			if a.seen[k] {
				return
			}
			a.seen[k] = true
		}
		b := f.fn.Blocks[f.blk]
		in := b.Instrs[f.pc]
		a.Steps++
		f.pc++
		switch in := in.(type) {
		case *ssa.Phi:
			for i, p := range b.Preds {
				if p.Index == f.pred {
					f.regs[in] = a.get(f, in.Edges[i])
				}
			}
		case *ssa.FieldAddr:
			x := a.get(f, in.X)
			if x.k == kRecv {
				f.regs[in] = val{k: kFieldAddr, n: int64(in.Field)}
			}
		case *ssa.Field:
			// a field of a struct value held in a register (a small argument bundle passed by value)
			if x := a.get(f, in.X); x.k == kTuple && in.Field < len(x.t) {
				f.regs[in] = x.t[in.Field]
			}
		case *ssa.Alloc:
			if types.Identical(in.Type().(*types.Pointer).Elem(), c.T) && f.fn == c.Ctor {
				f.regs[in] = val{k: kRecv}
			} else {
				f.regs[in] = val{k: kAlloc}
			}
		case *ssa.UnOp:
			x := a.get(f, in.X)
			switch in.Op {
			case token.MUL:
				if x.k == kFieldAddr {
					i := int(x.n)
					if r, ok := c.SinkField[i]; ok {
						f.regs[in] = val{k: kSink, n: int64(r)}
					} else if tv, ok := s.fields[i]; ok && tv.k == kTok && c.Tracked[i] == tNone {
						f.regs[in] = tv // a field remembering a provenance token
					} else if c.Tracked[i] != tNone && c.Tracked[i] != tNilness {
						f.regs[in] = s.fields[i]
					} else if c.ObjField[i] {
						f.regs[in] = val{k: kObj, n: int64(i)}
					}
				} else if _, ok := in.X.(*ssa.Alloc); ok {
					if cv, ok := f.regs[cellKey{in.X}]; ok {
						f.regs[in] = cv
					}
				} else if lfa, ok := in.X.(*ssa.FieldAddr); ok {
					// a field of a local struct (an argument bundle built field by field, or a by-value parameter)
					if al, ok := lfa.X.(*ssa.Alloc); ok {
						if cv, ok := f.regs[cellKey{al}]; ok && cv.k == kTuple && lfa.Field < len(cv.t) {
							f.regs[in] = cv.t[lfa.Field]
						}
					}
				} else if g, ok := in.X.(*ssa.Global); ok && sentinelError(g) {
					f.regs[in] = vnil(true) // a named error: the same as errors.New at the use site
				}
			case token.NOT:
				if x.k == kBool {
					f.regs[in] = vbool(x.n == 0)
				} else if x.k == kCmp {
					f.regs[in] = val{k: kCmp, tag: x.tag, n: 1 - x.n}
				}
			case token.SUB:
				if x.k == kConst {
					f.regs[in] = val{k: kConst, n: -x.n}
				}
			}
		case *ssa.Store:
			ad := a.get(f, in.Addr)
			v := a.get(f, in.Val)
			if ad.k == kFieldAddr {
				fi := int(ad.n)
				if c.isIncrement(in, fi) {
					bump(s.ghosts, "inc:"+c.fieldName(fi))
				}
				if bt, ok := c.St.Field(fi).Type().Underlying().(*types.Basic); ok && bt.Info()&types.IsInteger != 0 {
					bump(s.ghosts, "st:"+c.fieldName(fi))
				}
				if r, isSink := c.SinkField[fi]; isSink {
					// only the constructor may set a sink
					if f.fn != c.Ctor {
						a.undecided(in, "sink field "+c.fieldName(fi)+" reassigned outside the constructor")
					} else if v.k == kSink && int(v.n) == r {
						// ok: wired from its parameter
					} else {
						a.undecided(in, "sink field "+c.fieldName(fi)+" not initialised from its constructor parameter")
					}
				} else if c.Tracked[fi] != tNone {
					a.record(s, "store", -1, fi, a.storeArg(f, in), in)
					dv, ok := c.toDomain(fi, v)
					if !ok {
						for _, alt := range c.domain(fi) {
							n := s.clone()
							n.fields[fi] = alt
							a.run(n)
						}
						return
					}
					s.fields[fi] = dv
				} else {
					a.record(s, "store", -1, fi, a.storeArg(f, in), in)
					if v.k == kRecv {
						a.undecided(in, "receiver stored into its own field")
					}
					if c.Counter[fi] {
						if v.k == kConst && v.n == 0 {
							s.pers["nz:"+c.fieldName(fi)] = 0
						} else {
							s.pers["nz:"+c.fieldName(fi)] = 1
						}
					}
					if v.k == kTok && v.tag != "" {
						s.fields[fi] = v
					} else if old, ok := s.fields[fi]; ok && old.k == kTok {
						delete(s.fields, fi) // overwritten by something that is not a token
					}
				}
			} else if lfa, isLF := in.Addr.(*ssa.FieldAddr); isLF && isLocalStructAlloc(lfa.X) {
				// field-wise fill of a local struct: the cell holds one abstract value per field (copied on write)
				al := lfa.X.(*ssa.Alloc)
				nf := structOf(al.Type()).NumFields()
				old := f.regs[cellKey{al}]
				nt := make([]val, nf)
				if old.k == kTuple && len(old.t) == nf {
					copy(nt, old.t)
				}
				nt[lfa.Field] = v
				f.regs[cellKey{al}] = val{k: kTuple, t: nt}
			} else if _, ok := in.Addr.(*ssa.Alloc); ok {
				f.regs[cellKey{in.Addr}] = v
			} else if v.k == kRecv {
				a.undecided(in, "receiver escapes via store")
			}
		case *ssa.BinOp:
			x, y := a.get(f, in.X), a.get(f, in.Y)
			// a sink that is absent may be a nil interface or a typed nil pointer
			if x.k == kSink && s.present[x.n] == 0 && y.k == kNil {
				f.regs[in] = unknown
			} else if y.k == kSink && s.present[y.n] == 0 && x.k == kNil {
				f.regs[in] = unknown
			} else {
				rv := binop(in.Op, x, y)
				if rv.k == kUnknown {
					// remember which decision this undecided comparison is, so that it keeps its label when it is
					// returned from a small helper and branched on by the caller
					if label := c.condLabel(in); label != "" {
						rv = val{k: kCmp, tag: label}
					}
				}
				f.regs[in] = rv
			}
		case *ssa.MakeInterface:
			f.regs[in] = a.get(f, in.X)
		case *ssa.ChangeInterface:
			f.regs[in] = a.get(f, in.X)
		case *ssa.ChangeType:
			f.regs[in] = a.get(f, in.X)
		case *ssa.Convert:
			f.regs[in] = a.get(f, in.X)
		case *ssa.Extract:
			t := a.get(f, in.Tuple)
			if t.k == kTuple && in.Index < len(t.t) {
				f.regs[in] = t.t[in.Index]
			}
		case *ssa.Call:
			if a.call(s, f, in) {
				return
			}
		case *ssa.Defer, *ssa.Go:
			ci := in.(ssa.CallInstruction)
			for _, x := range ci.Common().Args {
				if a.get(f, x).k == kRecv {
					a.undecided(in, "defer/go with the receiver is not modelled")
				}
			}
		case *ssa.RunDefers:
		case *ssa.MakeClosure:
			for _, x := range in.Bindings {
				if k := a.get(f, x).k; k == kRecv || k == kFieldAddr {
					a.undecided(in, "closure captures the receiver")
				}
			}
		case *ssa.If:
			cv := a.get(f, in.Cond)
			if cv.k == kBool {
				a.jump(f, b, b.Succs[boolIdx(cv.n == 0)])
				continue
			}
			label := c.condLabel(in.Cond)
			neg := false
			if cv.k == kCmp {
				label, neg = cv.tag, cv.n == 1
			}
			if label != "" {
				a.record(s, "dec:"+label, -1, -1, "", in)
			}
			for i := 0; i < 2; i++ {
				n := s.clone()
				nf := n.stack[len(n.stack)-1]
				nf.regs[in.Cond] = vbool(i == 0)
				if label != "" {
					outcome := int8(1 - i) // the labelled comparison holds on the true edge ...
					if neg {
						outcome = int8(i) // ... unless the branch is on its negation
					}
					n.dec[label] = outcome
					if c.OnDecision != nil {
						c.OnDecision(n, label, outcome)
					}
				}
				a.refine(n, nf, in.Cond, i == 0)
				a.jump(nf, b, b.Succs[i])
				a.run(n)
			}
			return
		case *ssa.Jump:
			a.jump(f, b, b.Succs[0])
		case *ssa.Return:
			var rv val
			if len(in.Results) == 1 {
				rv = a.get(f, in.Results[0])
			} else if len(in.Results) > 1 {
				rv = val{k: kTuple}
				for _, r := range in.Results {
					rv.t = append(rv.t, a.get(f, r))
				}
			}
			s.stack = s.stack[:len(s.stack)-1]
			if len(s.stack) == 0 {
				for i, r := range in.Results {
					tv := a.get(f, r)
					if tv.tag != "" {
						s.ghosts["ret:"+tv.tag] = 1
					}
					if tv.k == kNil {
						s.ghosts[fmt.Sprintf("ret%d:nonnil", i)] = int8(tv.n)
					} else if _, isIface := r.Type().Underlying().(*types.Interface); isIface {
						s.ghosts[fmt.Sprintf("ret%d:unknown", i)] = 1
					}
				}
			}
			if len(s.stack) > 0 {
				cf := s.stack[len(s.stack)-1]
				if cv, ok := f.call.(ssa.Value); ok {
					cf.regs[cv] = rv
				}
			} else if f.fn == c.Ctor {
				// keep nothing
			}
		case *ssa.Panic:
			return
		default:
			// IndexAddr, Slice, MakeSlice, Lookup, TypeAssert, DebugRef ...: result unknown
		}
	}
}

type cellKey struct{ v ssa.Value }

func (cellKey) Name() string                  { return "cell" }
func (cellKey) String() string                { return "cell" }
func (cellKey) Type() types.Type              { return nil }
func (cellKey) Parent() *ssa.Function         { return nil }
func (cellKey) Referrers() *[]ssa.Instruction { return nil }
func (cellKey) Pos() token.Pos                { return token.NoPos }

// isIncrement: the store writes field+1 back to the same field.
func (c *Component) isIncrement(st *ssa.Store, fi int) bool {
	bo, ok := st.Val.(*ssa.BinOp)
	if !ok || bo.Op != token.ADD {
		return false
	}
	for _, pair := range [][2]ssa.Value{{bo.X, bo.Y}, {bo.Y, bo.X}} {
		if c.loadedField(pair[0]) == fi {
			if cv, ok := pair[1].(*ssa.Const); ok && cv.Value != nil && cv.Value.Kind() == constant.Int {
				if n, _ := constant.Int64Val(cv.Value); n == 1 {
					return true
				}
			}
		}
	}
	return false
}

// storeArg describes the stored value syntactically (used by census rules).
func (a *tsRun) storeArg(f *frame, in *ssa.Store) string {
	if fa, ok := in.Addr.(*ssa.FieldAddr); ok && a.C.isIncrement(in, fa.Field) {
		return "+1"
	}
	v := a.get(f, in.Val)
	if v.k != kUnknown && v.k != kCmp {
		return a.C.fieldValString(-1, v)
	}
	return "?"
}

// refine narrows a sign-tracked field after a comparison with a constant decided by a fork.
func (a *tsRun) refine(s *tsState, f *frame, cond ssa.Value, truth bool) {
	bo, ok := cond.(*ssa.BinOp)
	if !ok {
		return
	}
	c := a.C
	for _, pair := range [][2]ssa.Value{{bo.X, bo.Y}, {bo.Y, bo.X}} {
		fi := c.loadedField(pair[0])
		cv, isC := pair[1].(*ssa.Const)
		if fi < 0 || !isC || cv.Value == nil || cv.Value.Kind() != constant.Int {
			continue
		}
		op := bo.Op
		if pair[0] == bo.Y {
			op = flip(op)
		}
		n, _ := constant.Int64Val(cv.Value)
		cur := s.fields[fi]
		// pick the domain values consistent with the outcome
		var keep []val
		for _, d := range c.domain(fi) {
			if cur.k != kUnknown && (cur.k != d.k || cur.n != d.n) {
				continue
			}
			r := binop(op, d, val{k: kConst, n: n})
			if r.k == kBool && (r.n == 1) != truth {
				continue
			}
			keep = append(keep, d)
		}
		if len(keep) == 1 {
			s.fields[fi] = keep[0]
		}
	}
}

func boolIdx(b bool) int {
	if b {
		return 1
	}
	return 0
}

func (a *tsRun) jump(f *frame, from, to *ssa.BasicBlock) {
	f.pred = from.Index
	f.blk = to.Index
	f.pc = 0
}

func binop(op token.Token, x, y val) val {
	if (op == token.EQL || op == token.NEQ) && x.k == kNil && y.k == kNil {
		// nil == nil is true; non-nil == nil is false; non-nil == non-nil is unknown
		if x.n == 1 && y.n == 1 {
			return unknown
		}
		return vbool((x.n == y.n) == (op == token.EQL))
	}
	if (op == token.EQL || op == token.NEQ) && (x.k == kSink || x.k == kObj || x.k == kRecv) && y.k == kNil && y.n == 0 {
		return vbool(op == token.NEQ)
	}
	if (op == token.EQL || op == token.NEQ) && (y.k == kSink || y.k == kObj || y.k == kRecv) && x.k == kNil && x.n == 0 {
		return vbool(op == token.NEQ)
	}
	if x.k == kBool && y.k == kBool {
		switch op {
		case token.EQL:
			return vbool(x.n == y.n)
		case token.NEQ:
			return vbool(x.n != y.n)
		case token.AND, token.LAND:
			return vbool(x.n == 1 && y.n == 1)
		case token.OR, token.LOR:
			return vbool(x.n == 1 || y.n == 1)
		}
	}
	if x.k == kConst && y.k == kConst {
		// arithmetic on constants is widened to unknown beyond a small range so that
		// local loop counters cannot generate an unbounded chain of states
		small := func(n int64) val {
			if n < -2 || n > 2 {
				return unknown
			}
			return val{k: kConst, n: n}
		}
		switch op {
		case token.ADD:
			return small(x.n + y.n)
		case token.SUB:
			return small(x.n - y.n)
		case token.MUL:
			return small(x.n * y.n)
		case token.EQL:
			return vbool(x.n == y.n)
		case token.NEQ:
			return vbool(x.n != y.n)
		case token.LSS:
			return vbool(x.n < y.n)
		case token.LEQ:
			return vbool(x.n <= y.n)
		case token.GTR:
			return vbool(x.n > y.n)
		case token.GEQ:
			return vbool(x.n >= y.n)
		}
		return unknown
	}
	if x.k == kSign && y.k == kConst {
		switch op {
		case token.ADD:
			return signAdd(x.n, y.n)
		case token.SUB:
			return signAdd(x.n, -y.n)
		}
		return cmpSignConst(op, x.n, y.n)
	}
	if x.k == kConst && y.k == kSign {
		if op == token.ADD {
			return signAdd(y.n, x.n)
		}
		return cmpSignConst(flip(op), y.n, x.n)
	}
	return unknown
}

func signAdd(s, c int64) val {
	switch {
	case c == 0:
		return val{k: kSign, n: s}
	case c > 0:
		if s >= 0 {
			return val{k: kSign, n: 1}
		}
	case c < 0:
		if s <= 0 {
			return val{k: kSign, n: -1}
		}
	}
	return unknown
}

func flip(op token.Token) token.Token {
	switch op {
	case token.LSS:
		return token.GTR
	case token.GTR:
		return token.LSS
	case token.LEQ:
		return token.GEQ
	case token.GEQ:
		return token.LEQ
	}
	return op
}

func negate(op token.Token) token.Token {
	switch op {
	case token.LSS:
		return token.GEQ
	case token.GTR:
		return token.LEQ
	case token.LEQ:
		return token.GTR
	case token.GEQ:
		return token.LSS
	case token.EQL:
		return token.NEQ
	case token.NEQ:
		return token.EQL
	}
	return op
}

// cmpSignConst decides (x op c) when the sign s of x settles it.
func cmpSignConst(op token.Token, s, c int64) val {
	lo, hi := int64(-1<<62), int64(1<<62)
	switch {
	case s < 0:
		hi = -1
	case s == 0:
		lo, hi = 0, 0
	default:
		lo = 1
	}
	switch op {
	case token.EQL:
		if c < lo || c > hi {
			return vbool(false)
		}
		if lo == hi {
			return vbool(true)
		}
	case token.NEQ:
		if c < lo || c > hi {
			return vbool(true)
		}
		if lo == hi {
			return vbool(false)
		}
	case token.GTR:
		if lo > c {
			return vbool(true)
		}
		if hi <= c {
			return vbool(false)
		}
	case token.GEQ:
		if lo >= c {
			return vbool(true)
		}
		if hi < c {
			return vbool(false)
		}
	case token.LSS:
		if hi < c {
			return vbool(true)
		}
		if lo >= c {
			return vbool(false)
		}
	case token.LEQ:
		if hi <= c {
			return vbool(true)
		}
		if lo > c {
			return vbool(false)
		}
	}
	return unknown
}

// condLabel names a branch condition by its content when it compares receiver fields
// and/or call results (so that rules can refer to the decision); "" = not tracked.
func (c *Component) condLabel(cond ssa.Value) string {
	bo, ok := cond.(*ssa.BinOp)
	if !ok {
		return ""
	}
	switch bo.Op {
	case token.EQL, token.NEQ, token.LSS, token.GTR, token.LEQ, token.GEQ:
	default:
		return ""
	}
	x, y := c.operandLabel(bo.X), c.operandLabel(bo.Y)
	if x == "" || y == "" {
		return ""
	}
	if !strings.HasPrefix(x, "f:") && !strings.HasPrefix(x, "call:") && !strings.HasPrefix(y, "f:") && !strings.HasPrefix(y, "call:") {
		return ""
	}
	if strings.HasPrefix(x, "c:") && strings.HasPrefix(y, "c:") {
		return ""
	}
	// error-result checks are not decisions of interest
	if x == "nil" || y == "nil" {
		return ""
	}
	return "cmp " + x + " " + bo.Op.String() + " " + y
}

func (c *Component) operandLabel(v ssa.Value) string {
	for {
		switch x := v.(type) {
		case *ssa.Convert:
			v = x.X
			continue
		case *ssa.ChangeType:
			v = x.X
			continue
		case *ssa.Const:
			if x.Value == nil {
				return "nil"
			}
			return "c:" + x.Value.ExactString()
		case *ssa.UnOp:
			if fi := c.loadedField(x); fi >= 0 {
				return "f:" + c.fieldName(fi)
			}
			return ""
		case *ssa.Call:
			if fi := c.loadedField(x); fi >= 0 {
				return "f:" + c.fieldName(fi)
			}
			cc := x.Common()
			if cc.IsInvoke() {
				return "call:" + cc.Method.Name()
			}
			if callee := cc.StaticCallee(); callee != nil {
				return "call:" + callee.Name()
			}
			return ""
		case *ssa.BinOp:
			return ""
		default:
			return ""
		}
	}
}

// call handles a call instruction; returns true if the continuation was taken over.
func (a *tsRun) call(s *tsState, f *frame, in *ssa.Call) bool {
	c := a.C
	cc := in.Common()
	if cc.IsInvoke() {
		rv := a.get(f, cc.Value)
		switch rv.k {
		case kSink:
			return a.sinkEvent(s, f, in, int(rv.n), cc.Method.Name())
		case kObj:
			if c.OnObjCall != nil {
				if handled, forked := c.OnObjCall(a, s, f, in, int(rv.n), cc.Method.Name()); handled {
					return forked
				}
			}
		}
		a.checkEscape(s, f, in, cc.Args)
		return false
	}
	callee := cc.StaticCallee()
	if callee == nil {
		fv := a.get(f, cc.Value)
		if fv.k == kObj && c.OnObjCall != nil {
			if handled, forked := c.OnObjCall(a, s, f, in, int(fv.n), "()"); handled {
				return forked
			}
		}
		a.checkEscape(s, f, in, cc.Args)
		return false
	}
	var arg0 val
	if len(cc.Args) > 0 {
		arg0 = a.get(f, cc.Args[0])
	}
	// sync/atomic on receiver fields
	if callee.Pkg != nil && callee.Pkg.Pkg.Path() == "sync/atomic" && arg0.k == kFieldAddr {
		return a.atomicCall(s, f, in, callee.Name(), int(arg0.n))
	}
	// methods of objects held in fields (pointer receiver: the loaded pointer; value field: its address)
	if callee.Signature.Recv() != nil && len(cc.Args) > 0 {
		fi := -1
		if arg0.k == kObj {
			fi = int(arg0.n)
		} else if arg0.k == kFieldAddr && c.ObjField[int(arg0.n)] {
			fi = int(arg0.n)
		}
		if fi >= 0 {
			if c.OnObjCall != nil {
				if handled, forked := c.OnObjCall(a, s, f, in, fi, callee.Name()); handled {
					return forked
				}
			}
			a.checkEscape(s, f, in, cc.Args[1:])
			return false
		}
	}
	switch callee.String() {
	case "errors.New", "fmt.Errorf":
		f.regs[in] = vnil(true)
		return false
	case "reflect.ValueOf":
		f.regs[in] = arg0
		return false
	case "(reflect.Value).IsNil":
		if arg0.k == kSink {
			f.regs[in] = vbool(s.present[arg0.n] == 0)
		}
		return false
	}
	interesting := false
	for _, x := range cc.Args {
		if a.get(f, x).k != kUnknown {
			interesting = true
		}
	}
	if callee.Pkg == c.Pkg && len(callee.Blocks) > 0 && interesting && (callee.Signature.Recv() == nil || arg0.k == kRecv) {
		nf := &frame{fn: callee, regs: make(map[ssa.Value]val), pred: -1, call: in}
		for i, p := range callee.Params {
			nf.regs[p] = a.get(f, cc.Args[i])
		}
		s.stack = append(s.stack, nf)
		return false
	}
	a.checkEscape(s, f, in, cc.Args)
	return false
}

func (a *tsRun) atomicCall(s *tsState, f *frame, in *ssa.Call, name string, fi int) bool {
	c := a.C
	cc := in.Common()
	tracked := c.Tracked[fi] != tNone
	switch {
	case strings.HasPrefix(name, "Load"):
		if tracked {
			f.regs[in] = s.fields[fi]
		}
	case strings.HasPrefix(name, "Store"):
		if tracked {
			a.record(s, "store", -1, fi, "atomic", in)
			dv, ok := c.toDomain(fi, a.get(f, cc.Args[1]))
			if !ok {
				for _, alt := range c.domain(fi) {
					n := s.clone()
					n.fields[fi] = alt
					a.run(n)
				}
				return true
			}
			s.fields[fi] = dv
		}
	case strings.HasPrefix(name, "CompareAndSwap"):
		if tracked {
			old := a.get(f, cc.Args[1])
			eq := binop(token.EQL, s.fields[fi], old)
			if eq.k == kBool {
				if eq.n == 1 {
					a.record(s, "store", -1, fi, "atomic-cas", in)
					s.ghosts["cas:"+c.fieldName(fi)] = 1
					if old.k == kConst {
						s.ghosts["casfrom:"+c.fieldName(fi)] = int8(old.n)
					}
					if nv := a.get(f, cc.Args[2]); nv.k == kConst {
						s.ghosts["casto:"+c.fieldName(fi)] = int8(nv.n)
					}
					dv, ok := c.toDomain(fi, a.get(f, cc.Args[2]))
					if !ok {
						a.undecided(in, "CompareAndSwap with a non-constant new value on tracked field "+c.fieldName(fi))
					} else {
						s.fields[fi] = dv
					}
				}
				f.regs[in] = eq
			} else {
				// outcome unknown: fork
				for i := 0; i < 2; i++ {
					n := s.clone()
					nf := n.stack[len(n.stack)-1]
					nf.regs[in] = vbool(i == 0)
					if i == 0 {
						if dv, ok := c.toDomain(fi, a.get(f, cc.Args[2])); ok {
							n.fields[fi] = dv
						} else {
							a.undecided(in, "CompareAndSwap with a non-constant new value on tracked field "+c.fieldName(fi))
						}
					}
					a.run(n)
				}
				return true
			}
		}
	case strings.HasPrefix(name, "Add"):
		if tracked {
			a.record(s, "store", -1, fi, "atomic-add", in)
			r := binop(token.ADD, s.fields[fi], a.get(f, cc.Args[1]))
			dv, ok := c.toDomain(fi, r)
			if !ok {
				for _, alt := range c.domain(fi) {
					n := s.clone()
					n.fields[fi] = alt
					nf := n.stack[len(n.stack)-1]
					nf.regs[in] = alt
					a.run(n)
				}
				return true
			}
			s.fields[fi] = dv
			f.regs[in] = dv
		}
	default:
		if tracked {
			a.undecided(in, "unmodelled sync/atomic."+name+" on tracked field "+c.fieldName(fi))
		}
	}
	return false
}

func (a *tsRun) checkEscape(s *tsState, f *frame, in ssa.Instruction, args []ssa.Value) {
	for _, x := range args {
		v := a.get(f, x)
		if v.k == kRecv {
			a.undecided(in, "receiver escapes into an opaque call")
		}
		if v.k == kFieldAddr && a.C.Tracked[int(v.n)] != tNone {
			a.undecided(in, "address of tracked field "+a.C.fieldName(int(v.n))+" escapes into an opaque call")
		}
	}
}

// forkResult continues execution once per alternative, binding the call result.
func (a *tsRun) forkResult(s *tsState, in ssa.Instruction, alts []val, labels []string, mut func(n *tsState, i int)) {
	for i, alt := range alts {
		n := s.clone()
		nf := n.stack[len(n.stack)-1]
		if v, ok := in.(ssa.Value); ok {
			nf.regs[v] = alt
		}
		if labels != nil && labels[i] != "" {
			n.choices = append(n.choices, labels[i])
		}
		if mut != nil {
			mut(n, i)
		}
		a.run(n)
	}
}

func (a *tsRun) sinkEvent(s *tsState, f *frame, in *ssa.Call, role int, m string) bool {
	c := a.C
	rn := c.RoleNames[role]
	if s.present[role] == 0 {
		a.violation(s, in, "nil-sink", fmt.Sprintf("sink=%s/%s", rn, m), "method called on a sink that may be nil (panic)")
		return true // the path ends in a panic
	}
	if c.OnSinkEvent != nil {
		c.OnSinkEvent(a, s, f, in, role, m)
	}
	var tags []string
	for _, x := range in.Common().Args {
		v := a.get(f, x)
		if v.k == kTok && v.tag != "" {
			tags = append(tags, v.tag)
		} else {
			tags = append(tags, "?")
		}
	}
	argDescr := ""
	if c.BindParams != nil {
		argDescr = strings.Join(tags, ",")
	}
	if m == "WriteFrame" {
		bump(s.ghosts, "wn:"+rn) // frames handed to this sink in the current entry call (saturates at 2)
	}
	a.record(s, "sink:"+m, role, -1, argDescr, in)
	errAlts := []val{vnil(false)}
	if c.Fault {
		errAlts = append(errAlts, vnil(true))
	}
	switch m {
	case "CheckCanRecord":
		a.forkResult(s, in, []val{vnil(false), vnil(true)}, []string{"canrec(" + rn + ")=ok", "canrec(" + rn + ")=refused"}, func(n *tsState, i int) {
			n.dec["canrec:"+rn] = int8(1 - i)
		})
		return true
	case "WriteFrame":
		if s.sinks[role] != 1 {
			a.violation(s, in, "Y1", fmt.Sprintf("sink=%s/WriteFrame-while-closed", rn), "WriteFrame on the "+rn+" sink while no recording is open")
		}
		labels := []string{"", "Write(" + rn + ")=err"}
		a.forkResult(s, in, errAlts, labels[:len(errAlts)], func(n *tsState, i int) {
			if i == 1 {
				n.ghosts["wfail:"+rn] = 1
			}
		})
		return true
	case "StartRecording":
		if s.sinks[role] != 0 {
			a.violation(s, in, "Y2", fmt.Sprintf("sink=%s/StartRecording-while-open", rn), "StartRecording on the "+rn+" sink while a recording is open")
		}
		labels := []string{"Start(" + rn + ")=ok", "Start(" + rn + ")=err"}
		a.forkResult(s, in, errAlts, labels[:len(errAlts)], func(n *tsState, i int) {
			if i == 0 {
				n.sinks[role] = 1
				n.ghosts["opened:"+rn] = 1
			} else {
				n.ghosts["startfail:"+rn] = 1
			}
		})
		return true
	case "StopRecording":
		labels := []string{"Stop(" + rn + ")", "Stop(" + rn + ")=err"}
		if s.sinks[role] == 0 {
			labels[0] = ""
		}
		a.forkResult(s, in, errAlts, labels[:len(errAlts)], func(n *tsState, i int) {
			n.sinks[role] = 0
		})
		return true
	}
	a.undecided(in, "unknown sink method "+m)
	return false
}

// initialStates runs the constructor abstractly.
func (a *tsRun) initialStates() []*tsState {
	c := a.C
	nroles := len(c.RoleNames)
	var out []*tsState
	// enumerate presence of the sinks
	for mask := 0; mask < 1<<nroles; mask++ {
		s := &tsState{fields: map[int]val{}, pers: map[string]int8{}, ghosts: map[string]int8{}, dec: map[string]int8{}}
		for k, v := range c.InitPers {
			s.pers[k] = v
		}
		for fi := range c.Counter {
			s.pers["nz:"+c.fieldName(fi)] = 0
		}
		s.sinks = make([]int8, nroles)
		s.present = make([]int8, nroles)
		for r := 0; r < nroles; r++ {
			if mask&(1<<r) != 0 {
				s.present[r] = 1
			}
		}
		for i := range c.Tracked {
			if c.Tracked[i] != tNone {
				s.fields[i] = c.zero(i)
			}
		}
		fr := &frame{fn: c.Ctor, regs: map[ssa.Value]val{}, pred: -1}
		for pi, role := range c.CtorSink {
			fr.regs[c.Ctor.Params[pi]] = val{k: kSink, n: int64(role)}
		}
		s.stack = []*frame{fr}
		a.exits = nil
		a.seen = map[string]bool{}
		a.curEntry = &Entry{Name: "new"}
		a.curTrace = "new"
		a.run(s)
		for _, e := range a.exits {
			e.ghosts = map[string]int8{}
			e.dec = map[string]int8{}
			e.choices = nil
			out = append(out, e)
		}
	}
	return out
}

// Explore computes the reachable quiescent states under the most general client.
func (a *tsRun) Explore(keepInit func(s *tsState) bool) {
	c := a.C
	var work []*tsState
	for _, q := range a.initialStates() {
		if keepInit != nil && !keepInit(q) {
			continue
		}
		k := q.qkey()
		if _, ok := a.Reach[k]; !ok {
			a.Reach[k] = q
			a.how[k] = "new(" + a.presence(q) + ")"
			work = append(work, q)
		}
	}
	for len(work) > 0 {
		q := work[0]
		work = work[1:]
		for ei := range c.Entries {
			ev := &c.Entries[ei]
			if c.EntryEnabled != nil && !c.EntryEnabled(q, ev) {
				continue
			}
			a.exits = nil
			a.seen = map[string]bool{}
			a.curEntry = ev
			s := q.clone()
			s.choices = nil
			s.ghosts = map[string]int8{}
			s.dec = map[string]int8{}
			a.curTrace = a.traceOf(q.qkey()) + " ; " + ev.Name
			if c.OnEntry != nil {
				c.OnEntry(s, ev)
			}
			if ev.Fn == nil {
				s.fields[ev.SetField] = ev.SetVal
				a.exits = append(a.exits, s)
			} else {
				fr := &frame{fn: ev.Fn, regs: map[ssa.Value]val{}, pred: -1}
				fr.regs[ev.Fn.Params[0]] = val{k: kRecv}
				for _, p := range ev.Fn.Params[1:] {
					// the properties quantify over the frames / buffers the daemon is handed: a pointer argument of an entry
					// call is a value (a guard against nil in front of its first use cannot trigger)
					if _, isPtr := p.Type().Underlying().(*types.Pointer); isPtr {
						fr.regs[p] = vnil(true)
					}
				}
				if c.BindParams != nil {
					c.BindParams(s, fr, ev)
				}
				s.stack = []*frame{fr}
				a.run(s)
			}
			for _, e := range a.exits {
				a.record(e, "exit", -1, -1, "", nil)
				if c.OnExit != nil {
					c.OnExit(a, e, ev)
				}
				k := e.qkey()
				if _, ok := a.Reach[k]; !ok {
					a.Reach[k] = e
					a.parent[k] = q.qkey()
					a.how[k] = ev.Name + "(" + strings.Join(e.choices, ",") + ")"
					work = append(work, e)
				}
			}
		}
	}
}

func (a *tsRun) presence(s *tsState) string {
	var p []string
	for r, n := range a.C.RoleNames {
		if s.present[r] == 1 {
			p = append(p, n)
		}
	}
	return "sinks present: " + strings.Join(p, "+")
}

func (a *tsRun) prettyQ(s *tsState) string {
	c := a.C
	parts := []string{}
	ks := []int{}
	for k := range s.fields {
		ks = append(ks, k)
	}
	sort.Ints(ks)
	for _, k := range ks {
		parts = append(parts, fmt.Sprintf("%s=%s", c.fieldName(k), c.fieldValString(k, s.fields[k])))
	}
	for r, n := range c.RoleNames {
		st := "closed"
		if s.sinks[r] == 1 {
			st = "OPEN"
		}
		if s.present[r] == 0 {
			st = "absent"
		}
		parts = append(parts, n+":"+st)
	}
	if len(s.pers) > 0 {
		parts = append(parts, kvString(s.pers))
	}
	return strings.Join(parts, " ")
}

// sortedEvents returns events in a deterministic order.
func (a *tsRun) sortedEvents() []*Event {
	var evs []*Event
	for _, e := range a.Events {
		evs = append(evs, e)
	}
	sort.Slice(evs, func(i, j int) bool {
		pi, pj := "", ""
		if evs[i].Instr != nil {
			pi = a.C.W.InstrPos(evs[i].Instr)
		}
		if evs[j].Instr != nil {
			pj = a.C.W.InstrPos(evs[j].Instr)
		}
		if evs[i].Kind != evs[j].Kind {
			return evs[i].Kind < evs[j].Kind
		}
		if pi != pj {
			return pi < pj
		}
		return evs[i].Entry < evs[j].Entry
	})
	return evs
}

// ---- sentinel errors ---------------------------------------------------------------------

var sentinelCache = map[*ssa.Global]bool{}

// sentinelError: g is a package variable of type error that is assigned exactly once in the whole program - in its
// package initialiser, from errors.New / fmt.Errorf - and whose address is never taken otherwise. Loading it yields a
// non-nil error, exactly like calling errors.New at the use site (a named error keeps text and control flow).
func sentinelError(g *ssa.Global) bool {
	if v, ok := sentinelCache[g]; ok {
		return v
	}
	res := false
	defer func() { sentinelCache[g] = res }()
	pt, ok := g.Type().(*types.Pointer)
	if !ok || !types.Identical(pt.Elem(), types.Universe.Lookup("error").Type()) || g.Pkg == nil {
		return false
	}
	stores, other := 0, 0
	var scan func(fn *ssa.Function, isInit bool)
	seen := map[*ssa.Function]bool{}
	scan = func(fn *ssa.Function, isInit bool) {
		if fn == nil || seen[fn] {
			return
		}
		seen[fn] = true
		for _, b := range fn.Blocks {
			for _, in := range b.Instrs {
				switch x := in.(type) {
				case *ssa.Store:
					if x.Addr == ssa.Value(g) {
						c, isCall := x.Val.(*ssa.Call)
						if isInit && isCall && (calleeNameOf(c) == "errors.New" || calleeNameOf(c) == "fmt.Errorf") {
							stores++
						} else {
							other++
						}
						continue
					}
				case *ssa.UnOp:
					if x.X == ssa.Value(g) {
						continue // a load
					}
				}
				for _, op := range in.Operands(nil) {
					if *op == ssa.Value(g) {
						other++ // address escapes
					}
				}
			}
		}
		for _, af := range fn.AnonFuncs {
			scan(af, false)
		}
	}
	for _, p := range g.Pkg.Prog.AllPackages() {
		if p != g.Pkg && !importsPkg(p, g.Pkg) {
			continue
		}
		for _, m := range p.Members {
			switch x := m.(type) {
			case *ssa.Function:
				scan(x, p == g.Pkg && x.Name() == "init")
			case *ssa.Type:
				for _, t := range []types.Type{x.Type(), types.NewPointer(x.Type())} {
					ms := p.Prog.MethodSets.MethodSet(t)
					for i := 0; i < ms.Len(); i++ {
						scan(p.Prog.MethodValue(ms.At(i)), false)
					}
				}
			}
		}
	}
	res = stores == 1 && other == 0
	return res
}

func importsPkg(p, q *ssa.Package) bool {
	for _, im := range p.Pkg.Imports() {
		if im == q.Pkg {
			return true
		}
	}
	return false
}

func calleeNameOf(c *ssa.Call) string {
	if f := c.Call.StaticCallee(); f != nil {
		return f.String()
	}
	return ""
}

func isLocalStructAlloc(v ssa.Value) bool {
	al, ok := v.(*ssa.Alloc)
	return ok && structOf(al.Type()) != nil
}
