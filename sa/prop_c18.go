package main

import (
	"fmt"
	"go/token"
	"go/types"
	"sort"
	"strings"

	"golang.org/x/tools/go/ssa"
)

func init() { register("C18", propC18) }

// usesValue: instruction has v among its operands.
func usesValue(in ssa.Instruction, v ssa.Value) bool {
	for _, op := range in.Operands(nil) {
		if *op == v {
			return true
		}
	}
	return false
}

// usesAfter returns instructions that use v and are reachable after `from` without first
// re-executing v's definition.
func usesAfter(from ssa.Instruction, v ssa.Value) []ssa.Instruction {
	var out []ssa.Instruction
	def, _ := v.(ssa.Instruction)
	var defBlock *ssa.BasicBlock
	if def != nil {
		defBlock = def.Block()
	}
	b := from.Block()
	after := false
	for _, in := range b.Instrs {
		if after && usesValue(in, v) {
			out = append(out, in)
		}
		if in == from {
			after = true
		}
	}
	seen := map[*ssa.BasicBlock]bool{}
	work := append([]*ssa.BasicBlock{}, b.Succs...)
	for len(work) > 0 {
		x := work[len(work)-1]
		work = work[:len(work)-1]
		if seen[x] {
			continue
		}
		seen[x] = true
		redefined := false
		for _, in := range x.Instrs {
			if x == defBlock && in == def {
				redefined = true
				break
			}
			if usesValue(in, v) {
				out = append(out, in)
			}
		}
		if redefined {
			continue
		}
		// the value of an Extract is redefined when its tuple is
		if ex, ok := v.(*ssa.Extract); ok {
			if tin, ok := ex.Tuple.(ssa.Instruction); ok && tin.Block() == x {
				continue
			}
		}
		work = append(work, x.Succs...)
	}
	return out
}

// chanOf strips channel direction conversions.
func chanOf(v ssa.Value) ssa.Value {
	for {
		if ct, ok := v.(*ssa.ChangeType); ok {
			v = ct.X
			continue
		}
		return v
	}
}

func propC18(w *World, r *Report) {
	r.Explanation = "Decided clause: (W1) linearity of frame buffers: in the reader (handleConn) and the writer goroutine a buffer received from a channel is never used after it has been sent on; buffers enter circulation only through the initial fill of the 'spent' channel and travel reader -> write channel -> writer -> spent channel; (W2) between receiving a frame and handing it back the writer calls the frame-section writer exactly once with that buffer, and no repo function on that call chain retains the slice; (W3) topology: one writer goroutine started once per connection (not in a loop), two channels of equal constant capacity, and exactly capacity-many distinct allocations are injected, so the hand-back never blocks and no two in-flight buffers alias; (W4) every return of handleConn after the goroutine started closes the write channel and never the buffer-pool channel; on the closed edge the writer closes the builder before returning; Close flushes before closing the file and returns the flush error on its non-nil edge; (W5) framing: header = magic ‖ version ‖ 'H' ‖ field count ‖ fields, frame = 'F' ‖ field count ‖ fields ‖ data, with the FrameSize field = len of the very slice written, each section write followed by the next on its nil-error edge. Rule: SSA value linearity via CFG reachability, must-pass dataflow, escape scan, constant/normal-form comparison."
	r.RuleText = "obligation per (rule, channel operation / call site)"
	r.Assumptions = []string{"bufio.Writer.Write copies its argument (standard library contract)", "Go channel semantics: FIFO, a buffered send of capacity-many items never blocks",
		"file name collisions within one second across reconnects and disk errors (panic by design) are not decided"}
	pkgRel := "cmd/thermal-writer"
	// the connection handler: the function of the package that creates channels and starts a goroutine
	var hc *ssa.Function
	for _, fn := range w.funcsInPkg(pkgRel) {
		mk, gos := 0, 0
		for _, b := range fn.Blocks {
			for _, in := range b.Instrs {
				switch in.(type) {
				case *ssa.MakeChan:
					mk++
				case *ssa.Go:
					gos++
				}
			}
		}
		if mk >= 1 && gos >= 1 {
			hc = fn
		}
	}
	if hc == nil {
		r.Unknown("roles", "thermal-writer handleConn", "-", "function not found")
		return
	}
	e := newTermEnv(w)
	// channels of the connection: made in the handler, or returned by a pool constructor of the package
	type chanInfo struct {
		val   ssa.Value // the channel value in the handler
		mk    *ssa.MakeChan
		owner *ssa.Function
		env   *termEnv
	}
	var chans []*chanInfo
	var goStmts []*ssa.Go
	for _, b := range hc.Blocks {
		for _, in := range b.Instrs {
			switch x := in.(type) {
			case *ssa.MakeChan:
				chans = append(chans, &chanInfo{val: x, mk: x, owner: hc, env: e})
			case *ssa.Go:
				goStmts = append(goStmts, x)
			case *ssa.Call:
				callee := x.Call.StaticCallee()
				if callee == nil || !w.IsRepoFunc(callee) || callee.Signature.Results().Len() != 1 {
					continue
				}
				if _, isChan := callee.Signature.Results().At(0).Type().Underlying().(*types.Chan); !isChan {
					continue
				}
				var mk *ssa.MakeChan
				for _, cb := range callee.Blocks {
					for _, ci := range cb.Instrs {
						if m, ok := ci.(*ssa.MakeChan); ok {
							mk = m
						}
					}
				}
				if mk != nil {
					ce := e.child()
					for pi, p := range callee.Params {
						ce.bind[p] = e.termOf(x.Call.Args[pi])
					}
					chans = append(chans, &chanInfo{val: x, mk: mk, owner: callee, env: ce})
				}
			}
		}
	}
	if !r.Check(len(chans) == 2, "W3", "two channels connect reader and writer", w.Pos(hc.Pos()), fmt.Sprint(len(chans))) {
		return
	}
	cap0, cap1 := chans[0].env.termOf(chans[0].mk.Size).String(), chans[1].env.termOf(chans[1].mk.Size).String()
	_, errNum := fmt.Sscan(cap0, new(int64))
	r.Check(cap0 == cap1 && errNum == nil, "W3", "both channels have the same constant capacity", w.InstrPos(chans[0].mk), cap0+" / "+cap1)
	if !r.Check(len(goStmts) == 1 && !inLoop(goStmts[0].Block()), "W3", "exactly one writer goroutine is started per connection, outside any loop", w.Pos(hc.Pos()), fmt.Sprint(len(goStmts))) {
		return
	}
	wr := goStmts[0].Call.StaticCallee()
	if wr == nil {
		r.Unknown("W3", "writer goroutine", w.InstrPos(goStmts[0]), "callee not resolved")
		return
	}
	// which channel is which: the one the handler receives from = spent; sends received buffers to = write
	var spentI, writeI *chanInfo
	var recvs []*ssa.UnOp
	type sendSite struct {
		s   *ssa.Send
		ch  ssa.Value // channel value in the handler's terms
		env *termEnv
	}
	var sends []sendSite
	for _, b := range hc.Blocks {
		for _, in := range b.Instrs {
			switch x := in.(type) {
			case *ssa.UnOp:
				if x.Op == token.ARROW {
					recvs = append(recvs, x)
				}
			case *ssa.Send:
				sends = append(sends, sendSite{x, chanOf(x.Chan), e})
			}
		}
	}
	// sends inside a pool constructor go to the channel it returns
	for _, c := range chans {
		if c.owner == hc {
			continue
		}
		for _, b := range c.owner.Blocks {
			for _, in := range b.Instrs {
				if x, ok := in.(*ssa.Send); ok && chanOf(x.Chan) == ssa.Value(c.mk) {
					sends = append(sends, sendSite{x, c.val, c.env})
				}
			}
		}
	}
	for _, rc := range recvs {
		for _, c := range chans {
			if chanOf(rc.X) == c.val {
				spentI = c
			}
		}
	}
	for _, c := range chans {
		if c != spentI {
			writeI = c
		}
	}
	if spentI == nil || writeI == nil || len(recvs) != 1 {
		// a receive inside a select: with a default branch the reader no longer waits for a pool buffer
		for _, b := range hc.Blocks {
			for _, in := range b.Instrs {
				sel, ok := in.(*ssa.Select)
				if !ok {
					continue
				}
				for _, st := range sel.States {
					isPool := false
					for _, c := range chans {
						if chanOf(st.Chan) == c.val {
							isPool = true
						}
					}
					if st.Dir == types.RecvOnly && isPool && !sel.Blocking {
						r.Fail("W3", "the reader obtains every buffer by a blocking receive from the pool of capacity-many buffers", w.InstrPos(sel),
							"non-blocking receive (select with default) on the buffer pool: when the pool is empty the reader goes on with a buffer that is not one of the capacity-many pool buffers; the writer's hand-back can then block for ever (frames never flushed, file never closed) ", "")
						return
					}
				}
			}
		}
		r.Unknown("W1", "channel roles", w.Pos(hc.Pos()), "could not identify the spent / write channels")
		return
	}
	spent, write := spentI.val, writeI.val
	frame := recvs[0]
	// sends in handleConn
	nInit, nFwd := 0, 0
	for _, ss := range sends {
		s := ss.s
		switch {
		case ss.ch == spent:
			ms, isMake := s.X.(*ssa.MakeSlice)
			nInit++
			r.Check(isMake && ms.Block() == s.Block(), "W1", "reader: only buffers freshly allocated for this connection are injected into the spent channel", w.InstrPos(s), ss.env.termOf(s.X).String())
			// loop count == capacity
			okLoop := false
			detail := ""
			for _, g := range ss.env.guardsOf(s.Block()) {
				detail += g.String() + " "
				if g.Pos && g.Cond.Op == "lt" && g.Cond.Args[0].String() == "iv(0, 1)" && g.Cond.Args[1].String() == cap0 {
					okLoop = true
				}
			}
			r.Check(okLoop, "W3", "exactly capacity-many distinct buffers are injected (loop i = 0 .. capacity-1)", w.InstrPos(s), detail)
			if isMake {
				r.Check(strings.HasPrefix(ss.env.termOf(ms.Len).String(), "headers.HeaderInfo.FrameSize("), "W5", "buffers have the frame size announced in the header", w.InstrPos(ms), ss.env.termOf(ms.Len).String())
			}
		case ss.ch == write:
			nFwd++
			r.Check(s.X == ssa.Value(frame), "W1", "reader: the buffer sent to the writer is the one received from the spent channel", w.InstrPos(s), e.termOf(s.X).String())
			late := usesAfter(s, frame)
			pos := w.InstrPos(s)
			if len(late) > 0 {
				pos = w.InstrPos(late[0])
			}
			r.Check(len(late) == 0, "W1", "reader: no use of the buffer after it was sent to the writer", pos, fmt.Sprintf("%d later use(s)", len(late)))
			// every frame read in full is forwarded: inside the frame loop nothing but the read error decides
			var extra []string
			for _, g := range e.guardsOf(s.Block()) {
				if !(frame.Block() == g.If.Block() || frame.Block().Dominates(g.If.Block())) {
					continue // decided before the buffer was taken (outside the loop body)
				}
				if gs := g.String(); (strings.HasPrefix(gs, "eq(") || strings.HasPrefix(gs, "ne(")) && strings.Contains(gs, "#1(io.Read") && strings.Contains(gs, "nil") {
					continue
				}
				extra = append(extra, g.String())
			}
			r.Check(len(extra) == 0, "W2", "reader: every frame that was read in full is forwarded to the writer (only a read error ends the loop)", w.InstrPos(s), "other conditions on the forwarding path: "+strings.Join(extra, " ; "))
			for _, rf := range *frame.Referrers() {
				if c, ok := rf.(*ssa.Call); ok && calleeName(c) == "io.ReadFull" {
					if from := successEdge(c.Block()); from != nil {
						by, _ := canBypass(from, s.Block(), frame.Block())
						r.Check(!by, "W2", "reader: no path from a completed read comes round to the next buffer without forwarding the frame", w.InstrPos(c), "")
					} else {
						r.Unknown("W2", "reader: no path from a completed read comes round to the next buffer without forwarding the frame", w.InstrPos(c), "the read is not followed by an error check")
					}
				}
			}
		default:
			r.Fail("W1", "reader: send on an unknown channel", w.InstrPos(s), "", "")
		}
	}
	r.Check(nInit == 1 && nFwd == 1, "W1", "reader: one injection site and one forwarding site", w.Pos(hc.Pos()), fmt.Sprintf("%d/%d", nInit, nFwd))
	// the frame is filled by exactly one ReadFull between receive and send
	nFill := 0
	if refs := frame.Referrers(); refs != nil {
		for _, rf := range *refs {
			if c, ok := rf.(*ssa.Call); ok && calleeName(c) == "io.ReadFull" {
				nFill++
			}
		}
	}
	r.Check(nFill == 1, "W2", "reader: the buffer is filled by exactly one io.ReadFull of the whole buffer", w.InstrPos(frame), fmt.Sprint(nFill))
	// W2 (stream framing): header and frames are consumed through one buffered reader, so that frame boundaries do not
	// depend on how the stream is segmented
	{
		var hdrCall *ssa.Call
		var fills []*ssa.Call
		for _, b := range hc.Blocks {
			for _, in := range b.Instrs {
				c, ok := in.(*ssa.Call)
				if !ok {
					continue
				}
				switch {
				case strings.HasSuffix(calleeName(c), "headers.ReadHeaderInfo"):
					hdrCall = c
				case calleeName(c) == "io.ReadFull" || calleeName(c) == "io.ReadAtLeast":
					fills = append(fills, c)
				}
			}
		}
		if hdrCall == nil {
			r.Unknown("W2", "header read of the connection handler", w.Pos(hc.Pos()), "no call to headers.ReadHeaderInfo found")
		} else {
			checkSingleBufferedReader(w, r, e, "W2", "reader: the header and every frame are read through the same bufio.Reader", []*ssa.Function{hc}, hdrCall, fills, unwrapIface)
			// ... and nothing else takes bytes off that reader: between frames the stream is consumed only by the
			// full-frame read (a Peek/Discard, a ReadByte or a second header read would swallow frame bytes and shift
			// every later frame)
			if rd, ok := unwrapIface(hdrCall.Call.Args[hdrArgOf(hdrCall)]).(*ssa.Call); ok {
				var extra []string
				var scan func(v ssa.Value)
				scan = func(v ssa.Value) {
					if v.Referrers() == nil {
						return
					}
					for _, rf := range *v.Referrers() {
						switch x := rf.(type) {
						case *ssa.MakeInterface:
							scan(x)
						case *ssa.ChangeInterface:
							scan(x)
						case *ssa.DebugRef:
						case *ssa.Call:
							cn := calleeName(x)
							if x == hdrCall || cn == "io.ReadFull" || cn == "io.ReadAtLeast" {
								continue
							}
							extra = append(extra, cn+" at "+w.InstrPos(x))
						default:
							extra = append(extra, fmt.Sprintf("%T at %s", x, w.InstrPos(rf)))
						}
					}
				}
				scan(rd)
				sort.Strings(extra)
				r.Check(len(extra) == 0, "W2", "reader: bytes are taken off the buffered reader only by the header read and the full-frame read", w.InstrPos(rd), strings.Join(extra, " ; "))
			}
		}
	}
	// the camera description is read line by line from that reader and nothing beyond its terminating line is taken (a
	// reader with a buffer of its own - a Scanner - would swallow the head of the first frame)
	linkObligations(w, r, propC14, "C14", func(o *Obligation) bool {
		return o.Rule == "C14.M4" && strings.Contains(o.Construct, "read only through ReadString")
	}, "W2")
	// W4: close on every exit after the goroutine started
	closed := mustPassBeforeReturn(hc, goStmts[0], func(in ssa.Instruction) bool {
		c, ok := in.(*ssa.Call)
		if !ok {
			return false
		}
		bi, ok := c.Call.Value.(*ssa.Builtin)
		return ok && bi.Name() == "close" && chanOf(c.Call.Args[0]) == write
	})
	for ret, ok := range closed {
		r.Check(ok, "W4", "reader: the write channel is closed on this exit after the writer was started", w.InstrPos(ret), "")
	}
	r.Check(len(closed) >= 1, "G4", "reader has an exit after the goroutine start", "-", fmt.Sprint(len(closed)))
	// ... once: no block closes the write channel twice and no close is followed by another on the way to the exit (a
	// second close panics while the writer is still draining the queue)
	{
		var closes []*ssa.Call
		for _, b := range hc.Blocks {
			for _, in := range b.Instrs {
				if c, ok := in.(*ssa.Call); ok {
					if bi, ok := c.Call.Value.(*ssa.Builtin); ok && bi.Name() == "close" && chanOf(c.Call.Args[0]) == write {
						closes = append(closes, c)
					}
				}
			}
		}
		twice := false
		for i, c1 := range closes {
			for j, c2 := range closes {
				if i != j && (c1.Block() == c2.Block() && i < j || c1.Block() != c2.Block() && reaches(c1.Block(), c2.Block())) {
					twice = true
				}
			}
		}
		r.Check(!twice, "W4", "reader: the write channel is closed at most once on any path", w.Pos(hc.Pos()), fmt.Sprintf("%d close sites", len(closes)))
	}
	// the pool channel stays open: the writer hands a buffer back after every frame it writes, also the frames still
	// queued when the connection ends; a send on a closed channel panics and the queued frames are never flushed
	{
		var poolClose ssa.Instruction
		for _, b := range hc.Blocks {
			for _, in := range b.Instrs {
				if c, ok := in.(*ssa.Call); ok {
					if bi, ok := c.Call.Value.(*ssa.Builtin); ok && bi.Name() == "close" && chanOf(c.Call.Args[0]) == spent {
						poolClose = in
					}
				}
			}
		}
		if poolClose != nil {
			r.Fail("W4", "reader: the buffer pool channel is never closed (the writer still hands buffers back while it drains the queue)", w.InstrPos(poolClose), "the reader closes the channel the writer sends spent buffers on: with frames still queued the writer's next hand-back panics (send on closed channel) and the queued frames are never flushed", "")
		} else {
			r.Pass("W4", "reader: the buffer pool channel is never closed (the writer still hands buffers back while it drains the queue)", w.Pos(hc.Pos()), "")
		}
	}
	// goroutine arguments: (write channel, ..., spent channel)
	var inParam, outParam *ssa.Parameter
	for i, a := range goStmts[0].Call.Args {
		switch chanOf(a) {
		case write:
			inParam = wr.Params[i]
		case spent:
			outParam = wr.Params[i]
		}
	}
	if inParam == nil || outParam == nil {
		r.Fail("W3", "writer goroutine receives both channels", w.InstrPos(goStmts[0]), "the writer is not handed the write and spent channels", "")
		return
	}
	r.Pass("W3", "writer goroutine receives both channels", w.InstrPos(goStmts[0]), "in="+inParam.Name()+" out="+outParam.Name())
	// ---- writer
	var wframe ssa.Value
	var okFlag ssa.Value
	for _, b := range wr.Blocks {
		for _, in := range b.Instrs {
			switch x := in.(type) {
			case *ssa.Select:
				for si, st := range x.States {
					if st.Dir == types.RecvOnly && chanOf(st.Chan) == ssa.Value(inParam) {
						// extract index: 2 + number of recv states before it
						idx := 2
						for j := 0; j < si; j++ {
							if x.States[j].Dir == types.RecvOnly {
								idx++
							}
						}
						if refs := x.Referrers(); refs != nil {
							for _, rf := range *refs {
								if ex, ok := rf.(*ssa.Extract); ok {
									if ex.Index == idx {
										wframe = ex
									}
									if ex.Index == 1 {
										okFlag = ex
									}
								}
							}
						}
					}
				}
			case *ssa.UnOp:
				if x.Op == token.ARROW && chanOf(x.X) == ssa.Value(inParam) {
					if x.CommaOk {
						if refs := x.Referrers(); refs != nil {
							for _, rf := range *refs {
								if ex, ok := rf.(*ssa.Extract); ok {
									if ex.Index == 0 {
										wframe = ex
									} else {
										okFlag = ex
									}
								}
							}
						}
					} else {
						wframe = x
					}
				}
			}
		}
	}
	if wframe == nil {
		r.Unknown("W1", "writer: receive from the write channel", w.Pos(wr.Pos()), "receive not found")
		return
	}
	var wsends []*ssa.Send
	var wcalls []*ssa.Call
	for _, b := range wr.Blocks {
		for _, in := range b.Instrs {
			switch x := in.(type) {
			case *ssa.Send:
				wsends = append(wsends, x)
			case *ssa.Call:
				if usesValue(x, wframe) {
					wcalls = append(wcalls, x)
				}
			}
		}
	}
	r.Check(len(wsends) == 1 && chanOf(wsends[0].Chan) == ssa.Value(outParam) && wsends[0].X == wframe, "W1", "writer: hands back exactly the received buffer on the spent channel", w.Pos(wr.Pos()), fmt.Sprint(len(wsends)))
	if len(wsends) == 1 {
		late := usesAfter(wsends[0], wframe)
		r.Check(len(late) == 0, "W1", "writer: no use of the buffer after it was handed back", w.InstrPos(wsends[0]), fmt.Sprintf("%d later use(s)", len(late)))
		// W2: exactly one frame-section write, dominating the hand-back
		r.Check(len(wcalls) == 1 && wcalls[0].Block().Dominates(wsends[0].Block()), "W2", "writer: exactly one frame write with the buffer, before it is handed back", w.InstrPos(wsends[0]), fmt.Sprint(len(wcalls)))
	}
	if len(wcalls) == 1 {
		callee := wcalls[0].Call.StaticCallee()
		idx := -1
		for i, a := range wcalls[0].Call.Args {
			if a == wframe {
				idx = i
			}
		}
		if callee != nil && idx >= 0 {
			ok, why := doesNotRetain(w, callee, idx, 0)
			r.Check(ok, "W2", "the frame write chain does not retain the buffer", w.InstrPos(wcalls[0]), why)
			checkFrameSection(w, r, callee, idx)
		}
		// guarded by ok == true
		if okFlag != nil {
			gs := e.guardsOf(wcalls[0].Block())
			r.Check(hasGuard(gs, e.termOf(okFlag).String()), "W2", "writer: frames are written only when the receive succeeded (channel not closed)", w.InstrPos(wcalls[0]), strings.Join(guardStrings(gs), " ; "))
			var extra []string
			for _, g := range gs {
				if g.String() == e.termOf(okFlag).String() {
					continue
				}
				// only what is decided after the buffer was received
				if in, ok := wframe.(ssa.Instruction); ok && (in.Block() == g.If.Block() || in.Block().Dominates(g.If.Block())) {
					extra = append(extra, g.String())
				}
			}
			r.Check(len(extra) == 0, "W2", "writer: every received frame is written (nothing but the closed channel skips the write)", w.InstrPos(wcalls[0]), "other conditions: "+strings.Join(extra, " ; "))
			// path form: from the "channel still open" edge the write is passed before the buffer is handed back
			if len(wsends) == 1 {
				nEval := 0
				for _, b := range wr.Blocks {
					iff, ok := b.Instrs[len(b.Instrs)-1].(*ssa.If)
					if !ok {
						continue
					}
					open := -1
					if iff.Cond == okFlag {
						open = 0
					} else if u, isU := iff.Cond.(*ssa.UnOp); isU && u.Op == token.NOT && u.X == okFlag {
						open = 1
					}
					if open < 0 {
						continue
					}
					nEval++
					by, _ := canBypass(b.Succs[open], wcalls[0].Block(), wsends[0].Block())
					r.Check(!by, "W2", "writer: no path from a successful receive reaches the hand-back (or leaves) without the frame write", w.InstrPos(iff), "")
				}
				if nEval == 0 {
					r.Unknown("W2", "writer: no path from a successful receive reaches the hand-back (or leaves) without the frame write", w.Pos(wr.Pos()), "no branch on the receive's ok flag found")
				}
			}
		}
	}
	// W4: closed edge -> builder.Close before return
	nret := 0
	for _, b := range wr.Blocks {
		ret, ok := b.Instrs[len(b.Instrs)-1].(*ssa.Return)
		if !ok {
			continue
		}
		nret++
		closedHere := false
		for _, in := range b.Instrs {
			if c, ok := in.(*ssa.Call); ok {
				if callee := c.Call.StaticCallee(); callee != nil && callee.Name() == "Close" {
					closedHere = true
				}
			}
		}
		gs := e.guardsOf(b)
		onClosed := okFlag != nil && hasGuard(gs, "not("+e.termOf(okFlag).String()+")")
		r.Check(closedHere && onClosed, "W4", "writer: returns only on the closed channel, after closing the file builder", w.InstrPos(ret), strings.Join(guardStrings(gs), " ; "))
	}
	r.Check(nret == 1, "W4", "writer has a single return", w.Pos(wr.Pos()), fmt.Sprint(nret))
	// file rotation: inside the loop a new file is opened only after the current builder was closed (flushed)
	for _, b := range wr.Blocks {
		if !inLoop(b) {
			continue
		}
		for i, in := range b.Instrs {
			c, ok := in.(*ssa.Call)
			if !ok || c.Call.StaticCallee() == nil || c.Call.StaticCallee().Signature.Results().Len() < 1 {
				continue
			}
			res := c.Call.StaticCallee().Signature.Results().At(0).Type()
			if !typeIs(res, modPath+"/cmd/thermal-writer", "Builder") {
				continue
			}
			closedBefore := false
			for j := 0; j < i; j++ {
				if cc, ok := b.Instrs[j].(*ssa.Call); ok {
					if callee := cc.Call.StaticCallee(); callee != nil && callee.Name() == "Close" && typeIs(cc.Call.Args[0].Type(), modPath+"/cmd/thermal-writer", "Builder") {
						closedBefore = true
					}
				}
			}
			if !closedBefore {
				// a rotation helper that is handed the current builder, closes it and only then opens the next file
				closedBefore = closesParamBeforeOpening(c)
			}
			r.Check(closedBefore, "W4", "writer: on file rotation the current file is closed (flushed) before the next one is opened", w.InstrPos(c), "")
		}
	}
	// ... and the other way round: a file that was closed inside the loop (rotation) is replaced by a newly opened one
	// before the next frame is written - no path from such a Close comes round to the frame write without passing an
	// open (a `break` that only leaves the select, an open dropped in a restructuring: frames would go to a closed file)
	if len(wcalls) > 0 {
		isOpen := func(in ssa.Instruction) bool {
			c, ok := in.(*ssa.Call)
			if !ok || c.Call.StaticCallee() == nil || c.Call.StaticCallee().Signature.Results().Len() < 1 {
				return false
			}
			if typeIs(c.Call.StaticCallee().Signature.Results().At(0).Type(), modPath+"/cmd/thermal-writer", "Builder") {
				return true
			}
			return closesParamBeforeOpening(c)
		}
		nRot := 0
		for _, b := range wr.Blocks {
			if !inLoop(b) {
				continue
			}
			for i, in := range b.Instrs {
				cc, ok := in.(*ssa.Call)
				if !ok {
					continue
				}
				callee := cc.Call.StaticCallee()
				if callee == nil || callee.Name() != "Close" || len(cc.Call.Args) == 0 || !typeIs(cc.Call.Args[0].Type(), modPath+"/cmd/thermal-writer", "Builder") {
					continue
				}
				nRot++
				// walk forward from the instruction after the Close
				reopened := false
				for _, later := range b.Instrs[i+1:] {
					if isOpen(later) {
						reopened = true
					}
				}
				bad := false
				if !reopened {
					seen := map[*ssa.BasicBlock]bool{}
					work := append([]*ssa.BasicBlock{}, b.Succs...)
					for len(work) > 0 && !bad {
						x := work[len(work)-1]
						work = work[:len(work)-1]
						if seen[x] {
							continue
						}
						seen[x] = true
						opened := false
						for _, xi := range x.Instrs {
							if isOpen(xi) {
								opened = true
								break
							}
							if xi == ssa.Instruction(wcalls[0]) {
								bad = true
								break
							}
						}
						if !opened && !bad {
							work = append(work, x.Succs...)
						}
					}
				}
				r.Check(!bad, "W4", "writer: after a rotation Close a new file is opened before the next frame is written", w.InstrPos(cc), "")
			}
		}
		_ = nRot
	}
	checkBufferedClose(w, r)
	checkHeaderSection(w, r)
	checkRawFileNames(w, r)
}

// mustPassBeforeReturn: for every return reachable from `from`, do all paths from `from` pass an
// instruction satisfying pred?
func mustPassBeforeReturn(fn *ssa.Function, from ssa.Instruction, pred func(ssa.Instruction) bool) map[*ssa.Return]bool {
	// state per block entry: 0 unreached, 1 reached-not-passed possible, 2 passed on all paths
	type st struct{ reached, passed bool }
	in := map[*ssa.BasicBlock]*st{}
	out := map[*ssa.BasicBlock]*st{}
	res := map[*ssa.Return]bool{}
	changed := true
	for changed {
		changed = false
		for _, b := range fn.Blocks {
			cur := st{}
			first := true
			for _, p := range b.Preds {
				o := out[p]
				if o == nil || !o.reached {
					continue
				}
				if first {
					cur = *o
					first = false
				} else {
					cur.passed = cur.passed && o.passed
				}
			}
			prev := in[b]
			if prev == nil || *prev != cur {
				c := cur
				in[b] = &c
				changed = true
			}
			o := cur
			for _, x := range b.Instrs {
				if x == from {
					o = st{reached: true, passed: false}
				}
				if o.reached && pred(x) {
					o.passed = true
				}
			}
			po := out[b]
			if po == nil || *po != o {
				oo := o
				out[b] = &oo
				changed = true
			}
		}
	}
	for _, b := range fn.Blocks {
		if ret, ok := b.Instrs[len(b.Instrs)-1].(*ssa.Return); ok {
			if o := out[b]; o != nil && o.reached {
				res[ret] = o.passed
			}
		}
	}
	return res
}

// doesNotRetain: parameter idx of fn is only read, measured or passed on to writers that do not retain it.
func doesNotRetain(w *World, fn *ssa.Function, idx int, depth int) (bool, string) {
	if depth > 6 {
		return false, "call chain too deep"
	}
	if len(fn.Blocks) == 0 {
		// trusted library writers
		n := fn.String()
		if strings.Contains(n, "bufio.Writer).Write") || strings.Contains(n, "os.File).Write") {
			return true, "library writer copies or writes synchronously"
		}
		return false, "unknown external callee " + n
	}
	p := fn.Params[idx]
	refs := p.Referrers()
	if refs == nil {
		return true, "unused"
	}
	for _, rf := range *refs {
		switch x := rf.(type) {
		case *ssa.DebugRef:
		case *ssa.Call:
			if bi, ok := x.Call.Value.(*ssa.Builtin); ok && (bi.Name() == "len" || bi.Name() == "cap") {
				continue
			}
			var targets []*ssa.Function
			argIdx := -1
			if x.Call.IsInvoke() {
				for i, a := range x.Call.Args {
					if a == ssa.Value(p) {
						argIdx = i + 1
					}
				}
				if x.Call.Method.Name() != "Write" {
					return false, "passed to interface method " + x.Call.Method.Name()
				}
				// CHA over repo types
				for f := range w.AllFuncs {
					if f.Name() == "Write" && f.Signature.Recv() != nil && w.IsRepoFunc(f) && len(f.Blocks) > 0 && f.Synthetic == "" {
						targets = append(targets, f)
					}
				}
			} else if callee := x.Call.StaticCallee(); callee != nil {
				for i, a := range x.Call.Args {
					if a == ssa.Value(p) {
						argIdx = i
					}
				}
				targets = []*ssa.Function{callee}
			} else {
				return false, "passed to a dynamic call"
			}
			for _, t := range targets {
				if ok, why := doesNotRetain(w, t, argIdx, depth+1); !ok {
					return false, t.Name() + ": " + why
				}
			}
		case *ssa.Store:
			// the buffer put into a freshly made list of chunks that is only ranged over / handed to a chunk writer
			if ia, ok := x.Addr.(*ssa.IndexAddr); ok && x.Val == ssa.Value(p) {
				if ok2, why := chunkListNotRetained(w, ia.X, depth+1); ok2 {
					continue
				} else {
					return false, fn.Name() + ": buffer stored in a list: " + why
				}
			}
			return false, fmt.Sprintf("%s: the buffer is used by %T (%s)", fn.Name(), rf, rf.String())
		default:
			return false, fmt.Sprintf("%s: the buffer is used by %T (%s)", fn.Name(), rf, rf.String())
		}
	}
	return true, "only measured and written"
}

// chunkListNotRetained: v is a list of byte slices (a fresh array, a slice of it, or a slice parameter) whose elements
// are only stored at construction, measured, and handed to writers that do not retain them.
func chunkListNotRetained(w *World, v ssa.Value, depth int) (bool, string) {
	if depth > 8 {
		return false, "too deep"
	}
	switch v.(type) {
	case *ssa.Alloc, *ssa.Slice, *ssa.Parameter:
	default:
		return false, fmt.Sprintf("list held in %T", v)
	}
	refs := v.Referrers()
	if refs == nil {
		return true, ""
	}
	for _, rf := range *refs {
		switch x := rf.(type) {
		case *ssa.DebugRef:
		case *ssa.Slice:
			if ok, why := chunkListNotRetained(w, x, depth+1); !ok {
				return false, why
			}
		case *ssa.IndexAddr:
			if x.Referrers() == nil {
				continue
			}
			for _, u := range *x.Referrers() {
				switch y := u.(type) {
				case *ssa.Store:
					if y.Addr != ssa.Value(x) {
						return false, "address of an element stored"
					}
				case *ssa.UnOp:
					// an element read out: only written / measured
					if y.Referrers() == nil {
						continue
					}
					for _, eu := range *y.Referrers() {
						switch z := eu.(type) {
						case *ssa.DebugRef:
						case *ssa.Call:
							if bi, ok := z.Call.Value.(*ssa.Builtin); ok && (bi.Name() == "len" || bi.Name() == "cap") {
								continue
							}
							if z.Call.IsInvoke() && z.Call.Method.Name() == "Write" {
								for f := range w.AllFuncs {
									if f.Name() == "Write" && f.Signature.Recv() != nil && w.IsRepoFunc(f) && len(f.Blocks) > 0 && f.Synthetic == "" {
										if ok, why := doesNotRetain(w, f, 1, depth+1); !ok {
											return false, f.Name() + ": " + why
										}
									}
								}
								continue
							}
							return false, "element passed to " + calleeNameCI(z)
						default:
							return false, fmt.Sprintf("element used by %T", eu)
						}
					}
				case *ssa.DebugRef:
				default:
					return false, fmt.Sprintf("element address used by %T", u)
				}
			}
		case *ssa.Call:
			if bi, ok := x.Call.Value.(*ssa.Builtin); ok && (bi.Name() == "len" || bi.Name() == "cap") {
				continue
			}
			callee := x.Call.StaticCallee()
			if callee == nil || !w.IsRepoFunc(callee) || len(callee.Blocks) == 0 {
				return false, "list passed to " + calleeNameCI(x)
			}
			for i, a := range x.Call.Args {
				if a == v && i < len(callee.Params) {
					if ok, why := chunkListNotRetained(w, callee.Params[i], depth+1); !ok {
						return false, callee.Name() + ": " + why
					}
				}
			}
		default:
			return false, fmt.Sprintf("list used by %T", rf)
		}
	}
	return true, ""
}

// writeArgs: the sequence of byte slices fn hands to Write, in order. A Write inside a full range loop over a literal
// list of chunks (or over a variadic / slice parameter that the caller fills with a literal list) counts as one write
// per chunk, in list order; same-package helpers that are handed such a list are followed with their parameters bound.
func writeArgs(e *termEnv, fn *ssa.Function) []string {
	return writeArgsDepth(e, fn, 0)
}

func writeArgsDepth(e *termEnv, fn *ssa.Function, depth int) []string {
	var out []string
	for _, b := range fn.Blocks {
		for _, in := range b.Instrs {
			c, ok := in.(*ssa.Call)
			if !ok {
				continue
			}
			if c.Call.IsInvoke() && c.Call.Method.Name() == "Write" {
				t := e.termOf(c.Call.Args[0])
				if t.Op == "index" && len(t.Args) == 2 && t.Args[0].Op == "list" && t.Args[1].Op == "rangeidx" && t.Args[1].Args[0].String() == t.Args[0].String() {
					for _, el := range t.Args[0].Args {
						out = append(out, el.String())
					}
					continue
				}
				out = append(out, t.String())
				continue
			}
			// a helper of the same package that is handed a literal list of chunks
			h := c.Call.StaticCallee()
			if h == nil || depth > 1 || h.Pkg != fn.Pkg || len(h.Blocks) == 0 {
				continue
			}
			hasList := false
			for _, a := range c.Call.Args {
				if e.termOf(a).Op == "list" {
					hasList = true
				}
			}
			if !hasList {
				continue
			}
			ce := e.child()
			for pi, p := range h.Params {
				if pi < len(c.Call.Args) {
					ce.bind[p] = e.termOf(c.Call.Args[pi])
				}
			}
			out = append(out, writeArgsDepth(ce, h, depth+1)...)
		}
	}
	return out
}

func checkFrameSection(w *World, r *Report, writeFrame *ssa.Function, idx int) {
	e := newTermEnv(w)
	// writeFrame(b, frame): FrameSize field = uint32(len(frame)); then Builder.WriteFrame(fields, frame)
	okSize := false
	var inner *ssa.Call
	for _, b := range writeFrame.Blocks {
		for _, in := range b.Instrs {
			c, ok := in.(*ssa.Call)
			if !ok {
				continue
			}
			callee := c.Call.StaticCallee()
			if callee != nil && callee.Name() == "Uint32" && len(c.Call.Args) == 3 {
				key := e.termOf(c.Call.Args[1]).String()
				val := e.termOf(c.Call.Args[2]).String()
				if val == "len("+e.termOf(writeFrame.Params[idx]).String()+")" {
					okSize = true
					r.Pass("W5", "frame section carries a size field = len of the very slice written", w.InstrPos(c), "field "+key+" <- "+val)
				}
			}
			if callee != nil && w.IsRepoFunc(callee) {
				for _, a := range c.Call.Args {
					if a == ssa.Value(writeFrame.Params[idx]) {
						inner = c
					}
				}
			}
		}
	}
	if !okSize {
		r.Fail("W5", "frame section carries a size field = len of the very slice written", w.Pos(writeFrame.Pos()), "no Uint32 field with len(frame) found", "")
	}
	if inner == nil {
		r.Fail("W5", "frame section layout", w.Pos(writeFrame.Pos()), "no repo callee receives the buffer", "")
		return
	}
	bw := inner.Call.StaticCallee()
	args := writeArgs(e, bw)
	// expected: list(70, byte(numFields)) ; fieldData ; frameData
	want0 := "list(70, #1(cptv.FieldWriter.Bytes("
	ok := len(args) == 3 && strings.HasPrefix(args[0], want0) && strings.HasPrefix(args[1], "#0(cptv.FieldWriter.Bytes(") && args[2] == e.termOf(bw.Params[len(bw.Params)-1]).String()
	r.Check(ok, "W5", "frame = 'F' ‖ field count ‖ fields ‖ data, in this order", w.Pos(bw.Pos()), strings.Join(args, " | "))
	// each write's error is returned before the next write
	r.Check(writesCheckedInOrder(bw), "W5", "frame section: a failed write aborts the section", w.Pos(bw.Pos()), "")
}

func writesCheckedInOrder(fn *ssa.Function) bool {
	// every Write call block (except the last) ends in an If on its error
	var calls []*ssa.Call
	for _, b := range fn.Blocks {
		for _, in := range b.Instrs {
			if c, ok := in.(*ssa.Call); ok && c.Call.IsInvoke() && c.Call.Method.Name() == "Write" {
				calls = append(calls, c)
			}
		}
	}
	for i, c := range calls {
		if inLoop(c.Block()) {
			// one Write per chunk of a list: its error must end the loop (the block tests it)
			if _, ok := c.Block().Instrs[len(c.Block().Instrs)-1].(*ssa.If); !ok {
				return false
			}
			continue
		}
		if i == len(calls)-1 {
			continue
		}
		if _, ok := c.Block().Instrs[len(c.Block().Instrs)-1].(*ssa.If); !ok {
			return false
		}
		if !c.Block().Dominates(calls[i+1].Block()) {
			return false
		}
		// the next section is written on the edge where this write's error IS nil, and the other edge returns the error
		okE, failE := errEdges(c)
		if okE == nil || !(okE == calls[i+1].Block() || okE.Dominates(calls[i+1].Block())) {
			return false
		}
		if ret, isRet := failE.Instrs[len(failE.Instrs)-1].(*ssa.Return); !isRet || len(ret.Results) == 0 || !isErrResultOf(ret.Results[len(ret.Results)-1], c) {
			return false
		}
	}
	if len(calls) == 0 {
		// all writes made by a chunk-writing helper of the same package: it must check them, and its error be returned
		n := 0
		for _, b := range fn.Blocks {
			for _, in := range b.Instrs {
				if c, ok := in.(*ssa.Call); ok {
					h := c.Call.StaticCallee()
					if h != nil && h != fn && h.Pkg == fn.Pkg && len(h.Blocks) > 0 {
						hasWrite := false
						for _, hb := range h.Blocks {
							for _, hin := range hb.Instrs {
								if hc, ok := hin.(*ssa.Call); ok && hc.Call.IsInvoke() && hc.Call.Method.Name() == "Write" {
									hasWrite = true
								}
							}
						}
						if hasWrite {
							n++
							if !writesCheckedInOrder(h) || !returnsErrorOf(fn, h) {
								return false
							}
						}
					}
				}
			}
		}
		return n > 0
	}
	return true
}

func checkHeaderSection(w *World, r *Report) {
	e := newTermEnv(w)
	T := w.NamedType("cmd/thermal-writer", "Builder")
	if T == nil {
		r.Unknown("W5", "Builder", "-", "type not found")
		return
	}
	// the header writer, found by what it does: the function of the package that is handed a *Builder (as receiver or
	// parameter) and writes the file magic
	var fn *ssa.Function
	for _, f := range w.funcsInPkg("cmd/thermal-writer") {
		takesBuilder := false
		for _, p := range f.Params {
			if isPtrTo(p.Type(), T) {
				takesBuilder = true
			}
		}
		if !takesBuilder {
			continue
		}
		for _, a := range writeArgs(e, f) {
			if strings.Contains(a, `"CPTR"`) {
				fn = f
			}
		}
	}
	if fn == nil {
		r.Unknown("W5", "header section writer", "-", "no function taking a *Builder writes the file magic")
		return
	}
	args := writeArgs(e, fn)
	// append([]byte("CPTR"), 2, 'H', byte(numFields)) ; fieldData
	ok := len(args) == 2 && strings.Contains(args[0], `"CPTR"`) && strings.HasPrefix(args[0], `builtin.append("CPTR", list(2, 72, #1(cptv.FieldWriter.Bytes(`) && strings.HasPrefix(args[1], "#0(cptv.FieldWriter.Bytes(")
	detail := strings.Join(args, " | ")
	r.Check(ok, "W5", "header = magic 'CPTR' ‖ version 2 ‖ 'H' ‖ field count ‖ fields", w.Pos(fn.Pos()), detail)
	// ... and the fields follow the magic only when the magic was written (a failed write aborts the header)
	r.Check(writesCheckedInOrder(fn), "W5", "header section: a failed write aborts the header", w.Pos(fn.Pos()), "")
	// newThermalRaw writes the header before any frame: WriteHeader called on every successful return
	// the function that opens a new file: returns a *Builder and writes the header
	var nt *ssa.Function
	for _, f := range w.funcsInPkg("cmd/thermal-writer") {
		if f.Signature.Results().Len() >= 1 && isPtrTo(f.Signature.Results().At(0).Type(), T) && reachableNames(f, 0)[fn.Name()] {
			nt = f
		}
	}
	r.Check(nt != nil, "W5", "a function opens new files by writing the header section", "-", "")
	if nt != nil {
		okH := true
		for _, b := range nt.Blocks {
			ret, isRet := b.Instrs[len(b.Instrs)-1].(*ssa.Return)
			if !isRet {
				continue
			}
			if c0, isC := ret.Results[0].(*ssa.Const); isC && c0.Value == nil {
				continue
			}
			dom := false
			for _, bb := range nt.Blocks {
				for _, in := range bb.Instrs {
					if c, ok := in.(*ssa.Call); ok && c.Call.StaticCallee() == fn && bb.Dominates(b) {
						dom = true
					}
				}
			}
			if !dom {
				okH = false
			}
		}
		r.Check(okH, "W5", "every new file starts with the header section", w.Pos(nt.Pos()), "")
	}
}

func checkBufferedClose(w *World, r *Report) {
	// the buffered file: the repo type of this package with Write and Close whose Close flushes a bufio.Writer
	var T *types.Named
	if sp := w.Pkg("cmd/thermal-writer"); sp != nil {
		for _, mem := range sp.Members {
			if t, ok := mem.(*ssa.Type); ok {
				if n, ok := t.Type().(*types.Named); ok {
					if cl := findMethod(w.Prog, n, "Close"); cl != nil && findMethod(w.Prog, n, "Write") != nil && reachableNames(cl, 1)["Flush"] {
						T = n
					}
				}
			}
		}
	}
	if T == nil {
		r.Unknown("W4", "buffered file type", "-", "no type with Write and a flushing Close found in cmd/thermal-writer")
		return
	}
	fn := findMethod(w.Prog, T, "Close")
	if fn == nil {
		r.Unknown("W4", "bufferedFile.Close", "-", "method not found")
		return
	}
	e := newTermEnv(w)
	paths, complete := enumPaths(e, fn, 16)
	okAll := complete && len(paths) == 2
	var descr []string
	for _, p := range paths {
		var calls []string
		for _, in := range p.Instrs {
			if c, ok := in.(*ssa.Call); ok {
				calls = append(calls, calleeName(c))
			}
		}
		ret := p.Term(e, p.Ret.Results[0]).String()
		descr = append(descr, strings.Join(calls, ",")+" => "+ret)
		if len(calls) == 0 || calls[0] != "bufio.Writer.Flush" {
			okAll = false
		}
		closed := false
		var flushCall ssa.Value
		for _, in := range p.Instrs {
			if c, ok := in.(*ssa.Call); ok {
				switch calleeName(c) {
				case "os.File.Close":
					closed = true
				case "bufio.Writer.Flush":
					flushCall = c
				}
			}
		}
		if !closed && len(calls) > 1 && flushCall != nil {
			// flush failed and its error is returned with context (fmt.Errorf built from it): on the non-nil edge
			if !strings.Contains(ret, "bufio.Writer.Flush(") || !strings.HasPrefix(ret, "fmt.Errorf(") || !pathOnNonNilEdge(p, flushCall) {
				okAll = false
			}
			continue
		}
		if len(calls) == 1 {
			// flush failed: its error is returned - on the edge where that error is NOT nil
			rv := p.Ret.Results[0]
			for i := 0; i < 4; i++ {
				if ph, isPhi := rv.(*ssa.Phi); isPhi && p.PhiBind[ph] != nil {
					rv = p.PhiBind[ph]
					continue
				}
				break
			}
			if !strings.Contains(ret, "bufio.Writer.Flush(") || !pathOnNonNilEdge(p, rv) {
				okAll = false
			}
		} else if !(len(calls) == 2 && calls[1] == "os.File.Close" && strings.Contains(ret, "os.File.Close(")) {
			okAll = false
		}
	}
	r.Check(okAll, "W4", "Close flushes the buffer before closing the file and returns the flush error", w.Pos(fn.Pos()), strings.Join(descr, " | "))
	// Builder.Close forwards
	B := w.NamedType("cmd/thermal-writer", "Builder")
	if B != nil {
		if bc := findMethod(w.Prog, B, "Close"); bc != nil {
			bp, _ := enumPaths(e, bc, 4)
			ok := len(bp) == 1 && strings.Contains(bp[0].Term(e, bp[0].Ret.Results[0]).String(), ".Close(")
			r.Check(ok, "W4", "Builder.Close closes the underlying writer", w.Pos(bc.Pos()), "")
		}
	}
}

// closesParamBeforeOpening: the call hands a *Builder to a repository function that closes that parameter in a block
// dominating every call of its own that yields a new *Builder.
func closesParamBeforeOpening(c *ssa.Call) bool {
	callee := c.Call.StaticCallee()
	if callee == nil || len(callee.Blocks) == 0 {
		return false
	}
	isBuilder := func(t types.Type) bool { return typeIs(t, modPath+"/cmd/thermal-writer", "Builder") }
	var closes []*ssa.Call
	var opens []*ssa.Call
	for _, b := range callee.Blocks {
		for _, in := range b.Instrs {
			cc, ok := in.(*ssa.Call)
			if !ok || cc.Call.StaticCallee() == nil {
				continue
			}
			f := cc.Call.StaticCallee()
			if f.Name() == "Close" && len(cc.Call.Args) == 1 {
				if p, ok := cc.Call.Args[0].(*ssa.Parameter); ok && isBuilder(p.Type()) {
					// the parameter must be the builder the caller passes
					for i, a := range c.Call.Args {
						if i < len(callee.Params) && callee.Params[i] == p && isBuilder(a.Type()) {
							closes = append(closes, cc)
						}
					}
				}
			}
			if f.Signature.Results().Len() >= 1 && isBuilder(f.Signature.Results().At(0).Type()) {
				opens = append(opens, cc)
			}
		}
	}
	if len(closes) == 0 || len(opens) == 0 {
		return false
	}
	for _, o := range opens {
		ok := false
		for _, cl := range closes {
			if cl.Block() == o.Block() && instrIndex(cl) < instrIndex(o) || cl.Block() != o.Block() && cl.Block().Dominates(o.Block()) {
				ok = true
			}
		}
		if !ok {
			return false
		}
	}
	return true
}

// checkRawFileNames: every output file gets a name of its own. Files are created with os.Create (which truncates): a
// name that repeats - within a rotation interval, or for a second connection shortly after the first - destroys the
// frames stored under it. The name is a time stamp; its layout must resolve to the second (year, month, day, hour,
// minute AND second elements of Go's reference time).
func checkRawFileNames(w *World, r *Report) {
	e := newTermEnv(w)
	n := 0
	for _, fn := range w.funcsInPkg("cmd/thermal-writer") {
		for _, b := range fn.Blocks {
			for _, in := range b.Instrs {
				c, ok := in.(*ssa.Call)
				if !ok || calleeName(c) != "time.Time.Format" {
					continue
				}
				l, isConst := constString(e.termOf(c.Call.Args[1]))
				if !isConst {
					r.Unknown("W4", "file name time layout", w.InstrPos(c), "layout is not a constant")
					continue
				}
				n++
				var missing []string
				for _, el := range []struct {
					name string
					toks []string
				}{{"year", []string{"2006", "06"}}, {"month", []string{"01", "Jan"}}, {"day", []string{"02", "_2"}}, {"hour", []string{"15", "03"}}, {"minute", []string{"04"}}, {"second", []string{"05"}}} {
					has := false
					for _, t := range el.toks {
						if strings.Contains(l, t) {
							has = true
						}
					}
					if !has {
						missing = append(missing, el.name)
					}
				}
				r.Check(len(missing) == 0, "W4", "output file names are time stamps that resolve to the second (each file has a name of its own)", w.InstrPos(c), fmt.Sprintf("layout %q lacks: %v", l, missing))
			}
		}
	}
	r.Check(n >= 1, "W4", "output file names are derived from a time stamp", "-", fmt.Sprint(n))
}

// isErrResultOf: v is the error (last) result of call c.
func isErrResultOf(v ssa.Value, c *ssa.Call) bool {
	nres := c.Call.Signature().Results().Len()
	if v == ssa.Value(c) && nres == 1 {
		return true
	}
	ex, ok := v.(*ssa.Extract)
	return ok && ex.Tuple == ssa.Value(c) && ex.Index == nres-1
}

// errEdges: the block of c ends in a test of c's error against nil; returns the successor taken when the error is nil
// and the one taken when it is not. (nil, nil) when there is no such test.
func errEdges(c *ssa.Call) (okEdge, failEdge *ssa.BasicBlock) {
	b := c.Block()
	iff, ok := b.Instrs[len(b.Instrs)-1].(*ssa.If)
	if !ok {
		return nil, nil
	}
	bo, ok := iff.Cond.(*ssa.BinOp)
	if !ok {
		return nil, nil
	}
	isNil := func(v ssa.Value) bool { k, ok := v.(*ssa.Const); return ok && k.Value == nil }
	if !((isNil(bo.X) && isErrResultOf(bo.Y, c)) || (isNil(bo.Y) && isErrResultOf(bo.X, c))) {
		return nil, nil
	}
	switch bo.Op {
	case token.NEQ:
		return b.Succs[1], b.Succs[0]
	case token.EQL:
		return b.Succs[0], b.Succs[1]
	}
	return nil, nil
}

// pathOnNonNilEdge: the path passed a test "v != nil" on its true edge (or "v == nil" on its false edge).
func pathOnNonNilEdge(p *Path, v ssa.Value) bool {
	isNil := func(x ssa.Value) bool { k, ok := x.(*ssa.Const); return ok && k.Value == nil }
	for _, g := range p.Conds {
		bo, ok := g.If.Cond.(*ssa.BinOp)
		if !ok {
			continue
		}
		if (bo.X == v && isNil(bo.Y)) || (bo.Y == v && isNil(bo.X)) {
			if (bo.Op == token.NEQ && g.Pos) || (bo.Op == token.EQL && !g.Pos) {
				return true
			}
		}
	}
	return false
}
