package main

// E8: file-name suffix domain. A string-valued term is abstracted to the constant text it is
// known to end with (and whether that is the whole value). Used to decide which names a file
// can ever bear.

import (
	"path/filepath"
	"regexp"
	"strconv"
	"strings"

	"golang.org/x/tools/go/ssa"
)

type sfx struct {
	s     string
	exact bool
	known bool
}

func constString(t *Term) (string, bool) {
	if t.Op != "const" || !strings.HasPrefix(t.Name, `"`) {
		return "", false
	}
	s, err := strconv.Unquote(t.Name)
	return s, err == nil
}

// layoutTail: the literal text a time layout ends with (no reference-time element inside).
func layoutTail(layout string) string {
	tokens := []string{"Jan", "Mon", "MST", "PM", "pm", "Z0", "_2", "__"}
	i := len(layout)
	for i > 0 {
		c := layout[i-1]
		if c >= '0' && c <= '9' {
			break
		}
		cand := layout[i-1:]
		bad := false
		for _, tk := range tokens {
			if strings.Contains(cand, tk) {
				bad = true
			}
		}
		if bad {
			break
		}
		i--
	}
	return layout[i:]
}

func fmtTail(format string) string {
	i := strings.LastIndex(format, "%")
	if i < 0 {
		return format
	}
	// skip the verb (flags/width digits then a letter)
	j := i + 1
	for j < len(format) && !((format[j] >= 'a' && format[j] <= 'z') || (format[j] >= 'A' && format[j] <= 'Z')) {
		j++
	}
	if j < len(format) {
		j++
	}
	return format[j:]
}

type sfxEnv struct {
	w       *World
	globals map[string]*Term // global name -> term of its initialiser (for regexps)
}

func (se *sfxEnv) suffixOf(t *Term) sfx {
	if s, ok := constString(t); ok {
		return sfx{s: s, exact: true, known: true}
	}
	switch t.Op {
	case "concat":
		a, b := se.suffixOf(t.Args[0]), se.suffixOf(t.Args[1])
		if b.known && b.exact {
			if a.known {
				return sfx{s: a.s + b.s, exact: a.exact, known: true}
			}
			return sfx{s: b.s, known: true}
		}
		if b.known {
			return sfx{s: b.s, known: true}
		}
	case "call":
		switch {
		case strings.HasSuffix(t.Name, "filepath.Join") || strings.HasSuffix(t.Name, "path.Join"):
			if len(t.Args) == 1 && t.Args[0].Op == "list" && len(t.Args[0].Args) > 0 {
				last := se.suffixOf(t.Args[0].Args[len(t.Args[0].Args)-1])
				if last.known {
					return sfx{s: strings.TrimPrefix(last.s, "/"), known: true}
				}
			}
		case strings.HasSuffix(t.Name, "time.Time.Format"):
			if len(t.Args) == 2 {
				if l, ok := constString(t.Args[1]); ok {
					return sfx{s: layoutTail(l), known: true}
				}
			}
		case strings.HasSuffix(t.Name, "fmt.Sprintf"):
			if len(t.Args) >= 1 {
				if f, ok := constString(t.Args[0]); ok {
					return sfx{s: fmtTail(f), known: true}
				}
			}
		case strings.HasSuffix(t.Name, "regexp.Regexp.ReplaceAllString"):
			// constant-fold the replacement on the known suffix
			if len(t.Args) == 3 {
				in := se.suffixOf(t.Args[1])
				repl, okR := constString(t.Args[2])
				pat, okP := se.regexpOf(t.Args[0])
				if in.known && okR && okP {
					re, err := regexp.Compile(pat)
					if err == nil {
						const stem = "\x00STEM"
						out := re.ReplaceAllString(stem+in.s, repl)
						if strings.HasPrefix(out, stem) {
							return sfx{s: strings.TrimPrefix(out, stem), known: true}
						}
					}
				}
			}
		case strings.HasSuffix(t.Name, "cptv.FileWriter.Name") || strings.HasSuffix(t.Name, "os.File.Name"):
			if len(t.Args) == 1 {
				return se.suffixOf(t.Args[0])
			}
		case strings.HasSuffix(t.Name, "cptv.NewFileWriter") || strings.HasSuffix(t.Name, "os.Create"):
			if len(t.Args) >= 1 {
				return se.suffixOf(t.Args[0])
			}
		}
	case "extract":
		if t.Name == "#0" && len(t.Args) == 1 {
			return se.suffixOf(t.Args[0])
		}
	case "select", "phi":
		// all alternatives must agree on a common suffix
		var alts []sfx
		args := t.Args
		if t.Op == "select" {
			args = t.Args[1:]
		}
		for _, a := range args {
			alts = append(alts, se.suffixOf(a))
		}
		return commonSuffix(alts)
	}
	return sfx{}
}

func commonSuffix(alts []sfx) sfx {
	if len(alts) == 0 {
		return sfx{}
	}
	cur := alts[0]
	for _, a := range alts[1:] {
		if !a.known || !cur.known {
			return sfx{}
		}
		i := 0
		for i < len(cur.s) && i < len(a.s) && cur.s[len(cur.s)-1-i] == a.s[len(a.s)-1-i] {
			i++
		}
		cur = sfx{s: cur.s[len(cur.s)-i:], exact: cur.exact && a.exact && cur.s == a.s, known: true}
	}
	return cur
}

// regexpOf resolves a *regexp.Regexp term to its constant pattern (global initialised with MustCompile).
func (se *sfxEnv) regexpOf(t *Term) (string, bool) {
	if t.Op == "leaf" && strings.HasPrefix(t.Name, "global:") {
		if init, ok := se.globals[t.Name]; ok {
			t = init
		}
	}
	if t.Op == "call" && (strings.HasSuffix(t.Name, "regexp.MustCompile") || strings.HasSuffix(t.Name, "regexp.Compile")) && len(t.Args) == 1 {
		return constString(t.Args[0])
	}
	if t.Op == "extract" && len(t.Args) == 1 {
		return se.regexpOf(t.Args[0])
	}
	return "", false
}

// globalInits collects the terms stored to package-level variables by the package initialiser.
func globalInits(w *World, pkg *ssa.Package) map[string]*Term {
	out := map[string]*Term{}
	init := pkg.Func("init")
	if init == nil {
		return out
	}
	e := newTermEnv(w)
	for _, b := range init.Blocks {
		for _, in := range b.Instrs {
			if st, ok := in.(*ssa.Store); ok {
				if g, ok := st.Addr.(*ssa.Global); ok {
					out["global:"+g.Pkg.Pkg.Name()+"."+g.Name()] = e.termOf(st.Val)
				}
			}
		}
	}
	return out
}

func globMatches(pattern, name string) bool {
	ok, err := filepath.Match(pattern, name)
	return err == nil && ok
}
