package main

// Component model of throttle.ThrottledRecorder for the E2 fix-point.

import (
	"fmt"
	"go/constant"
	"go/types"
	"sort"
	"strings"

	"golang.org/x/tools/go/ssa"
)

type throttleModel struct {
	C         *Component
	bucketFld int
	listenFld int
	recFld    int // the "recording" flag, resolved as the only tracked bool
}

func buildThrottleComponent(w *World, fault bool) (*throttleModel, error) {
	pkg := w.Pkg("throttle")
	T := w.NamedType("throttle", "ThrottledRecorder")
	rec := recorderIface(w)
	if pkg == nil || T == nil || rec == nil {
		return nil, fmt.Errorf("throttle.ThrottledRecorder / recorder.Recorder not found")
	}
	c := &Component{W: w, Pkg: pkg, T: T, St: T.Underlying().(*types.Struct), Name: "throttle.ThrottledRecorder",
		RoleNames: []string{"wrapped"}, SinkField: map[int]int{}, CtorSink: map[int]int{}, Fault: fault}
	m := &throttleModel{C: c, bucketFld: -1, listenFld: -1, recFld: -1}
	// constructor: the function that allocates the struct
	for _, mem := range pkg.Members {
		fn, ok := mem.(*ssa.Function)
		if !ok {
			continue
		}
		for _, b := range fn.Blocks {
			for _, in := range b.Instrs {
				if al, ok := in.(*ssa.Alloc); ok && types.Identical(al.Type().(*types.Pointer).Elem(), T) {
					if c.Ctor != nil && c.Ctor != fn {
						return nil, fmt.Errorf("more than one function allocates ThrottledRecorder")
					}
					c.Ctor = fn
				}
			}
		}
	}
	if c.Ctor == nil {
		return nil, fmt.Errorf("constructor of ThrottledRecorder not found")
	}
	for i, p := range c.Ctor.Params {
		if types.Identical(p.Type(), rec) {
			c.CtorSink[i] = 0
		}
	}
	if len(c.CtorSink) != 1 {
		return nil, fmt.Errorf("constructor must take exactly one recorder.Recorder")
	}
	for _, b := range c.Ctor.Blocks {
		for _, in := range b.Instrs {
			if st, ok := in.(*ssa.Store); ok {
				if fa, ok := st.Addr.(*ssa.FieldAddr); ok && isPtrTo(fa.X.Type(), T) {
					for pi := range c.CtorSink {
						if st.Val == ssa.Value(c.Ctor.Params[pi]) {
							c.SinkField[fa.Field] = 0
						}
					}
				}
			}
		}
	}
	if len(c.SinkField) != 1 {
		return nil, fmt.Errorf("wrapped recorder field not resolved")
	}
	for i := 0; i < c.St.NumFields(); i++ {
		ft := c.St.Field(i).Type()
		switch {
		case typeIs(ft, "github.com/juju/ratelimit", "Bucket"):
			m.bucketFld = i
		case hasMethod(w, ft, "WhenThrottled"):
			m.listenFld = i
		}
	}
	if m.bucketFld < 0 {
		// the bucket behind an interface of the package's own (the methods the throttler uses): the field the constructor
		// fills with a *ratelimit.Bucket, and only ever with one
		cand := map[int]bool{}
		for _, fn := range w.funcsInPkg("throttle") {
			for _, b := range fn.Blocks {
				for _, in := range b.Instrs {
					st, ok := in.(*ssa.Store)
					if !ok {
						continue
					}
					fa, ok := st.Addr.(*ssa.FieldAddr)
					if !ok || !isPtrTo(fa.X.Type(), T) {
						continue
					}
					if _, isIface := c.St.Field(fa.Field).Type().Underlying().(*types.Interface); !isIface || fa.Field == m.listenFld {
						continue
					}
					if _, isSink := c.SinkField[fa.Field]; isSink {
						continue
					}
					mi, ok := st.Val.(*ssa.MakeInterface)
					if ok && typeIs(mi.X.Type(), "github.com/juju/ratelimit", "Bucket") {
						if _, seen := cand[fa.Field]; !seen {
							cand[fa.Field] = true
						}
					} else {
						cand[fa.Field] = false
					}
				}
			}
		}
		for fi, ok := range cand {
			if ok && m.bucketFld < 0 {
				m.bucketFld = fi
			}
		}
		if m.bucketFld < 0 {
			for fi, ok := range cand {
				if !ok {
					return nil, fmt.Errorf("VIOLATION: the throttler's bucket field %s is not always filled with the rate-limit bucket (another implementation can be installed: frames would no longer be bounded by the configured budget)", c.St.Field(fi).Name())
				}
			}
		}
	}
	if m.bucketFld < 0 || m.listenFld < 0 {
		return nil, fmt.Errorf("bucket / listener fields not resolved")
	}
	c.resolveTracking()
	var bools []int
	for i, k := range c.Tracked {
		if k == tBool {
			bools = append(bools, i)
		}
	}
	sort.Ints(bools)
	if len(bools) == 1 {
		m.recFld = bools[0]
	} else {
		// several flags: the recording flag is the one set to true after (dominated by) a wrapped StartRecording call
		cands := map[int]bool{}
		for fn := range w.AllFuncs {
			if fn.Signature.Recv() == nil || !isPtrTo(fn.Signature.Recv().Type(), T) {
				continue
			}
			var starts []*ssa.BasicBlock
			for _, b := range fn.Blocks {
				for _, in := range b.Instrs {
					if ci, ok := in.(ssa.CallInstruction); ok && ci.Common().IsInvoke() && ci.Common().Method.Name() == "StartRecording" {
						starts = append(starts, b)
					}
				}
			}
			for _, b := range fn.Blocks {
				for _, in := range b.Instrs {
					st, ok := in.(*ssa.Store)
					if !ok {
						continue
					}
					fa, ok := st.Addr.(*ssa.FieldAddr)
					if !ok || !isPtrTo(fa.X.Type(), T) || c.Tracked[fa.Field] != tBool {
						continue
					}
					cv, ok := st.Val.(*ssa.Const)
					if !ok || cv.Value == nil || cv.Value.Kind() != constant.Bool || !constant.BoolVal(cv.Value) {
						continue
					}
					for _, sb := range starts {
						if sb == b || sb.Dominates(b) {
							cands[fa.Field] = true
						}
					}
				}
			}
		}
		if len(cands) != 1 {
			return nil, fmt.Errorf("recording flag of ThrottledRecorder not resolved among %d bool fields", len(bools))
		}
		for fi := range cands {
			m.recFld = fi
		}
	}
	// entries: the methods of recorder.Recorder
	iface := rec.Underlying().(*types.Interface)
	for i := 0; i < iface.NumMethods(); i++ {
		name := iface.Method(i).Name()
		fn := findMethod(w.Prog, T, name)
		if fn == nil {
			return nil, fmt.Errorf("ThrottledRecorder lacks method %s", name)
		}
		c.Entries = append(c.Entries, Entry{Name: name, Fn: fn, SetField: -1})
	}
	sort.Slice(c.Entries, func(i, j int) bool { return c.Entries[i].Name < c.Entries[j].Name })
	c.InitPers = map[string]int8{"client": 0}
	// protocol-conforming client (what C12 proves MotionProcessor to be): start only when closed,
	// write only when open; stop is allowed at any time.
	c.EntryEnabled = func(s *tsState, e *Entry) bool {
		switch e.Name {
		case "StartRecording":
			return s.pers["client"] == 0
		case "WriteFrame":
			return s.pers["client"] == 1
		}
		return true
	}
	c.OnEntry = func(s *tsState, e *Entry) {
		if m.recFld >= 0 {
			s.ghosts["recAtEntry"] = int8(s.fields[m.recFld].n)
		}
	}
	// provenance tokens for the client's arguments; what a previous StartRecording remembered becomes stale
	// when a new StartRecording call begins
	c.BindParams = func(s *tsState, fr *frame, e *Entry) {
		switch e.Name {
		case "StartRecording":
			for fi, v := range s.fields {
				if v.k == kTok && !strings.HasSuffix(v.tag, ".stale") {
					v.tag += ".stale"
					s.fields[fi] = v
				}
			}
			if len(e.Fn.Params) == 3 {
				fr.regs[e.Fn.Params[1]] = val{k: kTok, n: 11, tag: "background"}
				fr.regs[e.Fn.Params[2]] = val{k: kTok, n: 12, tag: "threshold"}
			}
		case "WriteFrame":
			if len(e.Fn.Params) == 2 {
				fr.regs[e.Fn.Params[1]] = val{k: kTok, n: 13, tag: "frame"}
			}
		}
	}
	c.OnObjCall = m.onObjCall
	c.OnDecision = func(s *tsState, label string, outcome int8) {
		cl, ok := parseCmpLabel(label)
		if !ok {
			return
		}
		if cl.X == "call:Available" && (cl.Op == ">=" && outcome == 1 || cl.Op == "<" && outcome == 0) ||
			cl.Y == "call:Available" && (cl.Op == "<=" && outcome == 1 || cl.Op == ">" && outcome == 0) {
			s.ghosts["tokensPositive"] = 1
			s.ghosts["availOK"] = 1
		}
	}
	c.OnExit = func(a *tsRun, s *tsState, e *Entry) {
		switch e.Name {
		case "StartRecording":
			if s.ghosts["ret0:unknown"] == 1 {
				a.undecided(nil, "StartRecording returns an error of unknown nil-ness")
			}
			if s.ghosts["ret0:nonnil"] == 0 {
				s.pers["client"] = 1
			}
		case "StopRecording":
			s.pers["client"] = 0
		}
	}
	return m, nil
}

func (m *throttleModel) onObjCall(a *tsRun, s *tsState, f *frame, in ssa.CallInstruction, fi int, method string) (bool, bool) {
	switch fi {
	case m.listenFld:
		if method == "WhenThrottled" {
			a.record(s, "obs:throttled-event", -1, -1, "", in)
			bump(s.ghosts, "events")
			return true, false
		}
	case m.bucketFld:
		a.record(s, "bucket:"+method, -1, -1, "", in)
		switch method {
		case "TakeAvailable":
			bump(s.ghosts, "takes")
			// budget known to be positive since the Available() >= min test of this call (min > 0): the take succeeds
			if s.ghosts["tokensPositive"] == 1 {
				s.ghosts["tokensPositive"] = 0
				if v, ok := in.(ssa.Value); ok {
					f.regs[v] = val{k: kSign, n: 1}
				}
			}
			return true, false
		case "Available":
			return true, false
		}
		return true, false
	}
	return false, false
}

type throttleRuns struct {
	fault, nofault *tsRun
	model          *throttleModel
}

var throttleCache = map[*World]*throttleRuns{}

func getThrottleRuns(w *World) (*throttleRuns, error) {
	if r, ok := throttleCache[w]; ok {
		return r, nil
	}
	r := &throttleRuns{}
	for _, fault := range []bool{true, false} {
		m, err := buildThrottleComponent(w, fault)
		if err != nil {
			return nil, err
		}
		run := newRun(m.C)
		run.Explore(func(s *tsState) bool { return s.present[0] == 1 })
		if fault {
			r.fault, r.model = run, m
		} else {
			r.nofault = run
		}
	}
	throttleCache[w] = r
	return r, nil
}
