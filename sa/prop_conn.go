package main

import (
	"fmt"
	"go/ast"
	"go/constant"
	"go/token"
	"go/types"
	"sort"
	"strings"

	"golang.org/x/tools/go/ssa"
)

func init() { register("C14", propC14) }

type connInfo struct {
	fn                   *ssa.Function // the function that runs the frame loop
	setup                *ssa.Function // the function that reads the header and builds recorders/processor (== fn unless the loop was split off)
	loopCall             *ssa.Call     // in setup: the call that leads to fn (nil when setup == fn)
	reader               ssa.Value     // the bufio.Reader
	hdrCall              *ssa.Call
	extraReads, extraPos string    // set when the frame loop reads the connection more than twice
	hdrArg               int       // which argument of hdrCall is the reader (0 for headers.ReadHeaderInfo itself)
	probe                *ssa.Call // first ReadFull in the loop
	rest                 *ssa.Call // second ReadFull
	marker               string
	markerIf             *ssa.If
	resetCall            *ssa.Call
	process              *ssa.Call
	buf                  ssa.Value
	err                  error
}

// inSetup maps a value of the loop function to the value the set-up function passed for it (parameters of a split-off
// loop stage); other values are returned unchanged.
func (ci *connInfo) inSetup(v ssa.Value) ssa.Value {
	v = unwrapIface(v)
	if ci.loopCall == nil {
		return v
	}
	for i, p := range ci.fn.Params {
		if v == ssa.Value(p) && i < len(ci.loopCall.Call.Args) {
			return unwrapIface(ci.loopCall.Call.Args[i])
		}
	}
	return v
}

// handlerFuncs: the functions that make up the connection handler (set-up and loop).
func (ci *connInfo) handlerFuncs() []*ssa.Function {
	if ci.setup != nil && ci.setup != ci.fn {
		return []*ssa.Function{ci.setup, ci.fn}
	}
	return []*ssa.Function{ci.fn}
}

// analyseHandleConn finds the frame loop's anchors in the recorder's connection handler.
func analyseHandleConn(w *World) *connInfo {
	ci := &connInfo{}
	{
		// the connection handler: the function of the recorder that runs the frame loop (calls MotionProcessor.Process
		// inside a loop); the header may be read there or in a helper it calls
		for _, fn := range w.RepoFuncs() {
			if fn.Pkg == nil || fn.Pkg.Pkg.Path() != modPath+"/cmd/thermal-recorder" {
				continue
			}
			for _, b := range fn.Blocks {
				for _, in := range b.Instrs {
					if c, ok := in.(*ssa.Call); ok && calleeName(c) == "motion.MotionProcessor.Process" && inLoop(b) {
						ci.fn = fn
					}
				}
			}
		}
	}
	if ci.fn == nil {
		ci.err = fmt.Errorf("connection handler not found in cmd/thermal-recorder")
		return ci
	}
	var fulls []*ssa.Call
	for _, b := range ci.fn.Blocks {
		for _, in := range b.Instrs {
			c, ok := in.(*ssa.Call)
			if !ok {
				continue
			}
			switch calleeName(c) {
			case "headers.ReadHeaderInfo":
				ci.hdrCall = c
			case "io.ReadFull", "io.ReadAtLeast", "bufio.Reader.Read", "io.Reader.Read", "bufio.Reader.Peek", "bufio.Reader.Discard", "bufio.Reader.ReadByte":
				// any read from the connection inside the frame loop (M3 insists on io.ReadFull)
				if inLoop(b) {
					fulls = append(fulls, c)
				}
			case "motion.MotionProcessor.Reset":
				ci.resetCall = c
			case "motion.MotionProcessor.Process":
				ci.process = c
			}
		}
	}
	if ci.hdrCall == nil {
		// header read in an unexported helper that is handed the reader: use that call, seen from the handler as
		// "helper(reader)" (the reader argument is what the single-reader rule compares)
		for _, b := range ci.fn.Blocks {
			for _, in := range b.Instrs {
				c, ok := in.(*ssa.Call)
				if !ok {
					continue
				}
				callee := c.Call.StaticCallee()
				if callee == nil || callee.Pkg != ci.fn.Pkg || len(callee.Blocks) == 0 {
					continue
				}
				for _, cb := range callee.Blocks {
					for _, cin := range cb.Instrs {
						if cc, ok := cin.(*ssa.Call); ok && calleeName(cc) == "headers.ReadHeaderInfo" {
							// the helper must pass its own reader parameter on
							for pi, p := range callee.Params {
								if unwrapIface(cc.Call.Args[0]) == ssa.Value(p) && pi < len(c.Call.Args) {
									ci.hdrCall = c
									ci.hdrArg = pi
								}
							}
						}
					}
				}
			}
		}
	}
	ci.setup = ci.fn
	if ci.hdrCall == nil {
		// the frame loop split off into a stage of its own: the header is read by the (single) caller that hands the
		// reader down; that caller is the set-up part of the handler
		cur := ci.fn
		for lvl := 0; lvl < 2 && ci.hdrCall == nil; lvl++ {
			cs := w.callersOf(cur)
			if len(cs) != 1 || cs[0].Pkg != ci.fn.Pkg {
				break
			}
			var calls []*ssa.Call
			for _, b := range cs[0].Blocks {
				for _, in := range b.Instrs {
					if c, ok := in.(*ssa.Call); ok && c.Call.StaticCallee() == cur {
						calls = append(calls, c)
					}
				}
			}
			if len(calls) != 1 || lvl > 0 {
				break // one level of splitting is followed
			}
			for _, b := range cs[0].Blocks {
				for _, in := range b.Instrs {
					if c, ok := in.(*ssa.Call); ok && calleeName(c) == "headers.ReadHeaderInfo" {
						ci.hdrCall = c
						ci.setup = cs[0]
						ci.loopCall = calls[0]
					}
				}
			}
			cur = cs[0]
		}
	}
	if ci.hdrCall != nil && ci.process != nil && len(fulls) > 2 {
		var ps []string
		for _, c := range fulls {
			ps = append(ps, w.InstrPos(c))
		}
		ci.extraReads = fmt.Sprintf("%d reads of the connection inside the frame loop (%s): besides the marker-sized probe and the remainder of the frame, a further read takes bytes off the stream - what it consumes is neither compared with the marker nor delivered as part of a frame, or shifts the frame boundary", len(fulls), strings.Join(ps, ", "))
		ci.extraPos = w.InstrPos(fulls[len(fulls)-1])
	}
	if ci.hdrCall == nil || len(fulls) != 2 || ci.process == nil {
		ci.err = fmt.Errorf("anchors not found: header read=%v, ReadFull calls=%d, Process=%v", ci.hdrCall != nil, len(fulls), ci.process != nil)
		return ci
	}
	if fulls[0].Block().Dominates(fulls[1].Block()) {
		ci.probe, ci.rest = fulls[0], fulls[1]
	} else {
		ci.probe, ci.rest = fulls[1], fulls[0]
	}
	// marker comparison: an If on eq(const string, probe slice)
	for _, b := range ci.fn.Blocks {
		if iff, ok := b.Instrs[len(b.Instrs)-1].(*ssa.If); ok {
			if bo, ok := iff.Cond.(*ssa.BinOp); ok {
				for _, op := range []ssa.Value{bo.X, bo.Y} {
					if c, ok := op.(*ssa.Const); ok && c.Value != nil && c.Value.Kind() == constant.String && ci.probe.Block().Dominates(b) {
						ci.marker = constant.StringVal(c.Value)
						ci.markerIf = iff
					}
				}
			}
		}
	}
	return ci
}

func sliceParts(v ssa.Value) (base, lo, hi ssa.Value, ok bool) {
	sl, isSl := v.(*ssa.Slice)
	if !isSl {
		return nil, nil, nil, false
	}
	return sl.X, sl.Low, sl.High, true
}

func unwrapIface(v ssa.Value) ssa.Value {
	for {
		switch x := v.(type) {
		case *ssa.MakeInterface:
			v = x.X
		case *ssa.ChangeInterface:
			v = x.X
		default:
			return v
		}
	}
}

func propC14(w *World, r *Report) {
	r.Explanation = "Decided clause: (M1) the 'clear' marker constant compared by the recorder is byte-identical to the one the camera daemon writes; (M2) the probe is io.ReadFull of exactly len(marker) bytes into the head of the frame buffer, the remainder is read by a second io.ReadFull from that same offset to the end, the buffer has FrameSize() bytes, and on the marker edge the loop resets the processor and continues without a second read or a frame; (M3) one bufio.Reader wraps the connection and is the only reader used for header and frames; all socket reads are ReadFull/ReadString (segmentation-proof by their contracts); (M4) ReadHeaderInfo returns the read error (truncation => error), leaves its loop only at the first blank line (on the edge where the trimmed line equals it), reads only through ReadString, and returns the YAML error on its non-nil edge; (M5) the key set written by leptond's camera-spec map equals the key set read by ReadHeaderInfo, for each key the writer's static type is decodable to the reader's asserted type, and the accessors return the asserted value exactly when the assertion succeeded; (M6) leptond announces lepton3.BytesPerFrame as FrameSize, writes whole raw frames of that length, and writes the marker only between frame loops. Rule: cross-binary constant/key-set agreement + guard/dominator analysis of the frame loop. Also (M2) each pass of the frame loop reads the connection exactly twice (probe, remainder)."
	r.RuleText = "obligation per (rule, construct / header key)"
	r.Assumptions = []string{"io.ReadFull / bufio.Reader.ReadString contracts (standard library): they return exactly the requested bytes / up to the delimiter regardless of read segmentation",
		"YAML encoder/decoder round-trip of arbitrary strings is a dependency and not decided", "thermal-writer reads the same socket but ignores the marker (sibling cross-check note, not part of the statement)"}
	ci := analyseHandleConn(w)
	if ci.err != nil {
		if ci.extraReads != "" {
			r.Fail("M2", "each pass of the frame loop takes bytes off the connection with exactly two reads: the marker-sized probe and the remainder of the frame", ci.extraPos, ci.extraReads, "")
			return
		}
		r.Unknown("roles", "recorder connection handler", "-", ci.err.Error())
		return
	}
	r.Pass("M2", "each pass of the frame loop takes bytes off the connection with exactly two reads: the marker-sized probe and the remainder of the frame", w.InstrPos(ci.probe), "probe + remainder")
	e := newTermEnv(w)
	// ---- M3: all frame reads are io.ReadFull (exact-length, segmentation proof)
	for i, c := range []*ssa.Call{ci.probe, ci.rest} {
		r.Check(calleeName(c) == "io.ReadFull", "M3", fmt.Sprintf("frame read #%d is io.ReadFull (returns exactly the requested bytes however the stream is segmented)", i+1), w.InstrPos(c), calleeName(c))
	}
	if calleeName(ci.probe) != "io.ReadFull" || calleeName(ci.rest) != "io.ReadFull" {
		return
	}
	// ---- M3: single reader
	checkSingleBufferedReader(w, r, e, "M3", "header and both frame reads use the same bufio.Reader", ci.handlerFuncs(), ci.hdrCall, []*ssa.Call{ci.probe, ci.rest}, ci.inSetup)
	// ---- M2
	pbase, plo, phi, ok1 := sliceParts(ci.probe.Call.Args[1])
	rbase, rlo, rhi, ok2 := sliceParts(ci.rest.Call.Args[1])
	if !ok1 || !ok2 {
		r.Fail("M2", "probe and remainder are slices of the frame buffer", w.InstrPos(ci.probe), "ReadFull destinations are not slices", "")
	} else {
		_, isMake := pbase.(*ssa.MakeSlice)
		r.Check(pbase == rbase && isMake, "M2", "probe and remainder are read into the same frame buffer", w.InstrPos(ci.probe), e.termOf(pbase).String())
		if ms, ok := pbase.(*ssa.MakeSlice); ok {
			lt := e.termOf(ms.Len).String()
			r.Check(strings.HasPrefix(lt, "headers.HeaderInfo.FrameSize("), "M2", "the frame buffer has FrameSize() bytes", w.InstrPos(ms), lt)
		}
		k := ""
		if phi != nil {
			k = e.termOf(phi).String()
		}
		r.Check(plo == nil && k == fmt.Sprint(len(ci.marker)) && ci.marker != "", "M2", "probe reads exactly len(marker) bytes at the head of the buffer", w.InstrPos(ci.probe), fmt.Sprintf("probe [0:%s], marker %q", k, ci.marker))
		lo := ""
		if rlo != nil {
			lo = e.termOf(rlo).String()
		}
		r.Check(lo == k && rhi == nil, "M2", "the remainder is read from the probe length to the end of the buffer", w.InstrPos(ci.rest), "["+lo+":]")
		// the comparison looks at exactly the probe bytes
		if ci.markerIf != nil {
			bo := ci.markerIf.Cond.(*ssa.BinOp)
			var other ssa.Value = bo.X
			if _, isC := bo.X.(*ssa.Const); isC {
				other = bo.Y
			}
			ot := e.termOf(other).String()
			r.Check(ot == e.termOf(ci.probe.Call.Args[1]).String(), "M2", "the marker is compared with exactly the probe bytes", w.InstrPos(ci.markerIf), ot)
		} else {
			r.Fail("M2", "marker comparison", w.InstrPos(ci.probe), "no comparison of the probe with a constant marker found", "")
		}
		// process gets the whole buffer
		r.Check(ci.process.Call.Args[1] == pbase, "M2", "the whole frame buffer is handed to Process", w.InstrPos(ci.process), e.termOf(ci.process.Call.Args[1]).String())
	}
	checkHandleConnMarkerCI(w, r, ci, "M2")
	// "... a camera reset that ends the current recording and restarts detection": the reset reaches the detector and
	// its rings on every path, and the rings' Reset really rewinds them
	// ... and ends the recording the way every stop does: the pre-trigger ring is marked, so frames delivered before the
	// reset are not delivered a second time into the next recording
	linkObligations(w, r, propC01, "C01", func(o *Obligation) bool {
		return o.Rule == "C01.O2" && (strings.Contains(o.Construct, "SetAsOldest at") || strings.Contains(o.Construct, "stop-without-mark"))
	}, "M2")
	// "... and restarts detection": whatever the detector keeps about the scene is rebuilt after the reset - the
	// background is seeded afresh (the seeding and reset rules of C15)
	linkObligations(w, r, propC15, "C15", func(o *Obligation) bool {
		return o.Rule == "C15.A4" && (strings.Contains(o.Construct, "seeded from the input when the background frame count is 1") || strings.Contains(o.Construct, "Reset zeroes the background frame count"))
	}, "M2")
	if mruns, err := getMotionRuns(w); err == nil {
		checkProcessorResetResetsDetector(w, r, mruns, "M2")
		if dd := getDetector(w); dd.Err == nil {
			if kk, err := findKernels(dd); err == nil {
				checkDetectorResetRings(w, r, dd, kk, "M2")
			} else {
				r.Unknown("M2", "detector Reset", "-", err.Error())
			}
		} else {
			r.Unknown("M2", "detector Reset", "-", dd.Err.Error())
		}
		checkRingResetAndOldest(w, r, "M2")
	} else {
		r.Unknown("M2", "MotionProcessor.Reset", "-", err.Error())
	}
	// errors of both reads end the connection
	for i, c := range []*ssa.Call{ci.probe, ci.rest} {
		okE := false
		b := c.Block()
		if iff, ok := b.Instrs[len(b.Instrs)-1].(*ssa.If); ok {
			t := e.termOf(iff.Cond).String()
			if strings.HasPrefix(t, "ne(#1(io.ReadFull(") {
				if _, isRet := b.Succs[0].Instrs[len(b.Succs[0].Instrs)-1].(*ssa.Return); isRet {
					okE = true
				}
			}
		}
		r.Check(okE, "M2", fmt.Sprintf("read #%d: a short read ends the connection with the error (alignment is never silently lost)", i+1), w.InstrPos(c), "")
	}
	// ---- M1 / M6: leptond
	lp := w.Pkg("cmd/leptond")
	if lp == nil {
		r.Unknown("M1", "cmd/leptond", "-", "package not loaded")
		return
	}
	type wsite struct {
		call *ssa.Call
		fn   *ssa.Function
		term string
		str  string
		isC  bool
	}
	var writes []wsite
	for _, fn := range w.RepoFuncs() {
		if fn.Pkg != lp {
			continue
		}
		for _, b := range fn.Blocks {
			for _, in := range b.Instrs {
				c, ok := in.(*ssa.Call)
				if !ok {
					continue
				}
				callee := c.Call.StaticCallee()
				if callee == nil || callee.Name() != "Write" || callee.Signature.Recv() == nil || !strings.Contains(callee.Signature.Recv().Type().String(), "net.") {
					continue
				}
				ws := wsite{call: c, fn: fn, term: e.termOf(c.Call.Args[1]).String()}
				if cv, ok := c.Call.Args[1].(*ssa.Convert); ok {
					if k, ok := cv.X.(*ssa.Const); ok && k.Value.Kind() == constant.String {
						ws.str, ws.isC = constant.StringVal(k.Value), true
					}
				}
				if k, ok := c.Call.Args[1].(*ssa.Const); ok && k.Value != nil && k.Value.Kind() == constant.String {
					ws.str, ws.isC = constant.StringVal(k.Value), true
				}
				writes = append(writes, ws)
			}
		}
	}
	var markerWrites, frameWrites []wsite
	for _, ws := range writes {
		switch {
		case ws.isC && ws.str != "\n":
			markerWrites = append(markerWrites, ws)
		case !ws.isC && strings.Contains(ws.term, "NewRawFrame"):
			frameWrites = append(frameWrites, ws)
		}
	}
	r.Check(len(markerWrites) == 1, "M1", "leptond writes exactly one constant marker to the socket", "-", fmt.Sprint(len(markerWrites)))
	// the YAML camera description is terminated by a blank line: a constant "\n" written right after it
	okTerm := false
	for i, ws := range writes {
		if ws.isC && ws.str == "\n" && i > 0 && writes[i-1].fn == ws.fn && strings.Contains(writes[i-1].term, "Marshal(") {
			okTerm = writes[i-1].call.Block().Dominates(ws.call.Block()) || writes[i-1].call.Block() == ws.call.Block()
			// ... written where the description was written successfully (when that write's error is tested, on its nil edge)
			if okE, _ := errEdges(writes[i-1].call); okE != nil && !(okE == ws.call.Block() || okE.Dominates(ws.call.Block())) {
				okTerm = false
			}
		}
	}
	r.Check(okTerm, "M6", "leptond terminates the YAML camera description with a blank line", "-", fmt.Sprintf("%d socket writes", len(writes)))
	for _, mw := range markerWrites {
		r.Check(mw.str == ci.marker, "M1", "marker written by leptond == marker expected by the recorder", w.InstrPos(mw.call), fmt.Sprintf("%q vs %q", mw.str, ci.marker))
	}
	r.Check(len(frameWrites) == 1, "M6", "leptond writes frames at exactly one site", "-", fmt.Sprint(len(frameWrites)))
	for _, fw := range frameWrites {
		// whole raw frame: slice(NewRawFrame(), 0, len) i.e. frame[:]
		okWhole := strings.HasPrefix(fw.term, "slice(lepton3.NewRawFrame(), 0, len(") || fw.term == "lepton3.NewRawFrame()" || strings.HasPrefix(fw.term, "slice(github.com/TheCacophonyProject/lepton3.NewRawFrame(), 0, len(")
		r.Check(okWhole, "M6", "leptond writes the whole raw frame", w.InstrPos(fw.call), fw.term)
		for _, mw := range markerWrites {
			// the marker is written outside the frame loop function, after that function returned (directly, or in a
			// helper every call of which comes after the frame loop returned)
			dom := afterCallTo(w, mw.fn, mw.call, fw.fn, 0)
			r.Check(mw.fn != fw.fn && dom, "M6", "the marker is written only between frame loops (after the frame loop function returned)", w.InstrPos(mw.call), mw.fn.Name()+" / "+fw.fn.Name())
		}
	}
	// NewRawFrame has BytesPerFrame bytes
	if l3 := w.SSAPkgs["github.com/TheCacophonyProject/lepton3"]; l3 != nil {
		if nf := l3.Func("NewRawFrame"); nf != nil && len(nf.Blocks) > 0 {
			okLen := false
			bpf := ""
			if c, ok := l3.Members["BytesPerFrame"].(*ssa.NamedConst); ok {
				bpf = c.Value.Value.ExactString()
			}
			for _, b := range nf.Blocks {
				for _, in := range b.Instrs {
					if ms, ok := in.(*ssa.MakeSlice); ok {
						okLen = e.termOf(ms.Len).String() == bpf && bpf != ""
					}
					// make([]byte, constant) is lowered to new [n]byte + slice
					if al, ok := in.(*ssa.Alloc); ok {
						if arr, ok := al.Type().(*types.Pointer).Elem().Underlying().(*types.Array); ok {
							okLen = fmt.Sprint(arr.Len()) == bpf && bpf != ""
						}
					}
				}
			}
			r.Check(okLen, "M6", "a raw frame has lepton3.BytesPerFrame bytes", w.Pos(nf.Pos()), bpf)
		}
	}
	// ---- M5: key sets and types
	type kv struct {
		typ types.Type
		pos string
		val string
	}
	writer := map[string]kv{}
	for _, fn := range w.RepoFuncs() {
		if fn.Pkg != lp {
			continue
		}
		for _, b := range fn.Blocks {
			for _, in := range b.Instrs {
				mu, ok := in.(*ssa.MapUpdate)
				if !ok {
					continue
				}
				k, ok := mu.Key.(*ssa.Const)
				if !ok || k.Value == nil || k.Value.Kind() != constant.String {
					continue
				}
				// only the map that is YAML-marshalled and written to the socket
				if !flowsToYAML(mu.Map) {
					continue
				}
				v := unwrapIface(mu.Value)
				writer[constant.StringVal(k.Value)] = kv{typ: v.Type(), pos: w.InstrPos(mu), val: e.termOf(v).String()}
			}
		}
	}
	reader := map[string]kv{}
	rh := w.Func("headers", "ReadHeaderInfo")
	if rh == nil {
		r.Unknown("M5", "headers.ReadHeaderInfo", "-", "not found")
		return
	}
	var rhBlocks []*ssa.BasicBlock
	for _, f := range w.funcFamily(rh) {
		rhBlocks = append(rhBlocks, f.Blocks...)
	}
	for _, b := range rhBlocks {
		for _, in := range b.Instrs {
			// a look-up inside a keyed accessor: accessor(..., "Key", ...) whose body looks its parameter up and
			// asserts the type
			if c, isCall := in.(*ssa.Call); isCall {
				if callee := c.Call.StaticCallee(); callee != nil && len(callee.Blocks) > 0 && w.IsRepoFunc(callee) {
					for ai, a := range c.Call.Args {
						kc, isC := a.(*ssa.Const)
						if !isC || kc.Value == nil || kc.Value.Kind() != constant.String || ai >= len(callee.Params) {
							continue
						}
						for _, cb := range callee.Blocks {
							for _, cin := range cb.Instrs {
								if plk, isLk := cin.(*ssa.Lookup); isLk && plk.Index == ssa.Value(callee.Params[ai]) {
									var pat types.Type
									if refs := plk.Referrers(); refs != nil {
										for _, rf := range *refs {
											if ta, ok := rf.(*ssa.TypeAssert); ok {
												pat = ta.AssertedType
											}
											if c2, ok := rf.(*ssa.Call); ok {
												if cl2 := c2.Call.StaticCallee(); cl2 != nil {
													pat = assertedType(cl2)
												}
											}
										}
									}
									reader[constant.StringVal(kc.Value)] = kv{typ: pat, pos: w.InstrPos(c)}
								}
							}
						}
					}
				}
			}
			lk, ok := in.(*ssa.Lookup)
			if !ok {
				continue
			}
			k, ok := lk.Index.(*ssa.Const)
			if !ok || k.Value == nil || k.Value.Kind() != constant.String {
				continue
			}
			var at types.Type
			if refs := lk.Referrers(); refs != nil {
				for _, rf := range *refs {
					if c, ok := rf.(*ssa.Call); ok {
						if callee := c.Call.StaticCallee(); callee != nil {
							at = assertedType(callee)
						}
					}
					if ta, ok := rf.(*ssa.TypeAssert); ok {
						at = ta.AssertedType
					}
				}
			}
			reader[constant.StringVal(k.Value)] = kv{typ: at, pos: w.InstrPos(lk)}
		}
	}
	// the decoded values are kept as they are: nothing in the headers package converts an integer to a narrower (or
	// same-width, other-signedness) type on the way from the decoded block to the getters - a serial number or frame
	// size that does not fit would silently wrap
	nConvFns := 0
	if hp := w.Pkg("headers"); hp != nil {
		arch := w.Arch
		if arch == "" {
			arch = "amd64"
		}
		sizes := types.SizesFor("gc", arch)
		for fn := range w.AllFuncs {
			if fn.Pkg != hp || len(fn.Blocks) == 0 {
				continue
			}
			nConvFns++
			for _, b := range fn.Blocks {
				for _, in := range b.Instrs {
					cv, ok := in.(*ssa.Convert)
					if !ok {
						continue
					}
					sb, ok1 := cv.X.Type().Underlying().(*types.Basic)
					db, ok2 := cv.Type().Underlying().(*types.Basic)
					if !ok1 || !ok2 || sb.Info()&types.IsInteger == 0 || db.Info()&types.IsInteger == 0 {
						continue
					}
					if _, isConst := cv.X.(*ssa.Const); isConst {
						continue
					}
					sw, dw := sizes.Sizeof(sb), sizes.Sizeof(db)
					sUns, dUns := sb.Info()&types.IsUnsigned != 0, db.Info()&types.IsUnsigned != 0
					lossy := dw < sw || (dw == sw && sUns != dUns) || (!sUns && dUns)
					r.Check(!lossy, "M5", "header values are not narrowed in "+fn.Name()+": "+sb.Name()+" -> "+db.Name(), w.InstrPos(cv), "")
				}
			}
		}
	}
	r.Check(nConvFns >= 5, "M5", "functions of the headers package scanned for narrowing conversions", "-", fmt.Sprint(nConvFns))
	keys := map[string]bool{}
	for k := range writer {
		keys[k] = true
	}
	for k := range reader {
		keys[k] = true
	}
	var ks []string
	for k := range keys {
		ks = append(ks, k)
	}
	sort.Strings(ks)
	for _, k := range ks {
		wv, inW := writer[k]
		rv, inR := reader[k]
		if !inW || !inR {
			pos := wv.pos
			if !inW {
				pos = rv.pos
			}
			r.Fail("M5", "key="+k+" present on both sides", pos, fmt.Sprintf("written by leptond: %v, read by the recorder: %v", inW, inR), "")
			continue
		}
		r.Pass("M5", "key="+k+" present on both sides", wv.pos, "")
		compat, why := yamlCompatible(wv.typ, rv.typ)
		construct := fmt.Sprintf("key=%s writer=%s reader=%s", k, typeStr(wv.typ), typeStr(rv.typ))
		if compat {
			r.Pass("M5", construct, wv.pos, why)
		} else {
			r.Fail("M5", construct, wv.pos, why+" (value written: "+wv.val+")", "")
		}
	}
	r.Check(len(ks) >= 8, "G4", "header keys found", "-", fmt.Sprint(len(ks)))
	// a checked type assertion yields its value exactly when it succeeded: the accessors of the headers package return the
	// asserted value on the ok edge and a fixed default otherwise (the reverse reads every field as its zero value)
	if hp := w.Pkg("headers"); hp != nil {
		nAcc := 0
		var fns []*ssa.Function
		for fn := range w.AllFuncs {
			if fn.Pkg == hp && len(fn.Blocks) > 0 {
				fns = append(fns, fn)
			}
		}
		sort.Slice(fns, func(i, j int) bool { return fns[i].String() < fns[j].String() })
		for _, fn := range fns {
			var ta *ssa.TypeAssert
			for _, b := range fn.Blocks {
				for _, in := range b.Instrs {
					if t, ok := in.(*ssa.TypeAssert); ok && t.CommaOk {
						ta = t
					}
				}
			}
			if ta == nil || fn.Signature.Results().Len() != 1 || hasLoop(fn) {
				continue
			}
			var val, okv ssa.Value
			for _, rf := range *ta.Referrers() {
				if ex, isEx := rf.(*ssa.Extract); isEx {
					if ex.Index == 0 {
						val = ex
					} else {
						okv = ex
					}
				}
			}
			ae := newTermEnv(w)
			paths, complete := enumPaths(ae, fn, 32)
			if !complete || okv == nil {
				continue
			}
			nAcc++
			good := true
			detail := ""
			for _, p := range paths {
				pol, tested := false, false
				for _, g := range p.Conds {
					if g.If.Cond == okv {
						pol, tested = g.Pos, true
					}
				}
				rv := p.Ret.Results[0]
				for {
					if cv, isCv := rv.(*ssa.Convert); isCv {
						rv = cv.X
						continue
					}
					break
				}
				_, isConst := rv.(*ssa.Const)
				switch {
				case tested && pol && rv != val:
					good, detail = false, "the assertion succeeded but "+ae.termOf(rv).String()+" is returned"
				case tested && !pol && !isConst:
					good, detail = false, "the assertion failed but its (zero) result is used as if it had succeeded"
				}
			}
			returnsVal := false
			for _, p := range paths {
				rv := p.Ret.Results[0]
				for {
					if cv, isCv := rv.(*ssa.Convert); isCv {
						rv = cv.X
						continue
					}
					break
				}
				dead := false
				for _, g := range p.Conds {
					if k, isK := g.If.Cond.(*ssa.Const); isK && k.Value != nil && (k.Value.ExactString() == "true") != g.Pos {
						dead = true // a path through the impossible edge of a constant condition
					}
				}
				if rv == val && !dead {
					returnsVal = true
				}
			}
			if good && !returnsVal {
				good, detail = false, "no feasible path returns the asserted value"
			}
			r.Check(good, "M5", "accessor "+fn.Name()+" returns the asserted value exactly when the type assertion succeeded", w.Pos(fn.Pos()), detail)
		}
		r.Check(nAcc >= 1 || len(fns) > 0, "G4", "accessors with checked assertions scanned", "-", fmt.Sprint(nAcc))
	}
	// FrameSize value
	if fs, ok := writer["FrameSize"]; ok {
		r.Check(strings.HasSuffix(fs.val, "") && isBytesPerFrame(w, fs.val), "M6", "leptond announces lepton3.BytesPerFrame as the frame size", fs.pos, fs.val)
	}
	// ---- M4
	checkReadHeaderInfo(w, r, rh)
}

func typeStr(t types.Type) string {
	if t == nil {
		return "?"
	}
	return t.String()
}

func isBytesPerFrame(w *World, val string) bool {
	l3 := w.SSAPkgs["github.com/TheCacophonyProject/lepton3"]
	if l3 == nil {
		return false
	}
	c, ok := l3.Members["BytesPerFrame"].(*ssa.NamedConst)
	return ok && c.Value.Value.ExactString() == val
}

func flowsToYAML(m ssa.Value) bool {
	refs := m.Referrers()
	if refs == nil {
		return false
	}
	for _, rf := range *refs {
		if mi, ok := rf.(*ssa.MakeInterface); ok {
			if r2 := mi.Referrers(); r2 != nil {
				for _, q := range *r2 {
					if c, ok := q.(*ssa.Call); ok && strings.Contains(calleeName(c), "Marshal") {
						return true
					}
				}
			}
		}
	}
	return false
}

// assertedType: the type a helper asserts its interface parameter to.
func assertedType(fn *ssa.Function) types.Type {
	for _, b := range fn.Blocks {
		for _, in := range b.Instrs {
			if ta, ok := in.(*ssa.TypeAssert); ok {
				return ta.AssertedType
			}
		}
	}
	return nil
}

// yamlCompatible: can every value of the writer's static type, encoded by yaml.v1, be decoded into
// interface{} as a value of the reader's asserted type? yaml.v1 resolves integers to int when they
// fit in int, otherwise to int64/uint64/float64 — so only writer types whose range is within int
// on every platform are safe for a reader asserting int.
func yamlCompatible(wt, rt types.Type) (bool, string) {
	if wt == nil || rt == nil {
		return false, "type not determined"
	}
	wb, ok1 := wt.Underlying().(*types.Basic)
	rb, ok2 := rt.Underlying().(*types.Basic)
	if !ok1 || !ok2 {
		return false, "non-basic types"
	}
	switch {
	case rb.Info()&types.IsString != 0:
		return wb.Info()&types.IsString != 0, "string to string"
	case rb.Kind() == types.Int:
		switch wb.Kind() {
		case types.Int, types.Int8, types.Int16, types.Int32, types.Uint8, types.Uint16, types.UntypedInt:
			return true, "every value fits in int on all platforms"
		case types.Uint32, types.Uint, types.Uint64, types.Int64, types.Uintptr:
			return false, "values beyond the range of int (2^31 on the 32-bit Raspberry Pi) are decoded by yaml.v1 as int64/uint64/float64; the reader's .(int) assertion then fails and the field reads as 0"
		}
	}
	return false, "unsupported type pair"
}

// checkReadHeaderInfo: M4
func checkReadHeaderInfo(w *World, r *Report, rh *ssa.Function) {
	e := newTermEnv(w)
	var readCalls []*ssa.Call
	for _, b := range rh.Blocks {
		for _, in := range b.Instrs {
			c, ok := in.(*ssa.Call)
			if !ok {
				continue
			}
			for _, a := range c.Call.Args {
				if a == ssa.Value(rh.Params[0]) {
					readCalls = append(readCalls, c)
				}
			}
		}
	}
	// the line-reading loop may live in an unexported helper that is handed the reader: the helper's error must then be
	// returned as it is, and the loop rules apply to the helper
	rhOuter := rh
	if len(readCalls) == 1 {
		if callee := readCalls[0].Call.StaticCallee(); callee != nil && callee.Pkg == rh.Pkg && !ast.IsExported(callee.Name()) && len(callee.Blocks) > 0 {
			hc := readCalls[0]
			pj := -1
			for j, a := range hc.Call.Args {
				if a == ssa.Value(rh.Params[0]) {
					pj = j
				}
			}
			okProp := false
			if iff, ok := hc.Block().Instrs[len(hc.Block().Instrs)-1].(*ssa.If); ok && pj >= 0 {
				ct := e.termOf(iff.Cond).String()
				if strings.HasPrefix(ct, "ne(#1(") || strings.HasPrefix(ct, "ne(nil, #1(") {
					if ret, ok := hc.Block().Succs[0].Instrs[len(hc.Block().Succs[0].Instrs)-1].(*ssa.Return); ok && len(ret.Results) == 2 {
						if ex, ok := ret.Results[1].(*ssa.Extract); ok && ex.Tuple == ssa.Value(hc) && e.termOf(ret.Results[0]).String() == "nil" {
							okProp = true
						}
					}
				}
			}
			r.Check(okProp, "M4", "the error of the header-reading helper is returned unchanged, with no partial description", w.InstrPos(hc), calleeName(hc))
			if okProp {
				rh = callee
				readCalls = nil
				for _, b := range rh.Blocks {
					for _, in := range b.Instrs {
						if c, ok := in.(*ssa.Call); ok {
							for _, a := range c.Call.Args {
								if a == ssa.Value(rh.Params[pj]) {
									readCalls = append(readCalls, c)
								}
							}
						}
					}
				}
			}
		}
	}
	okOnly := len(readCalls) == 1 && calleeName(readCalls[0]) == "bufio.Reader.ReadString"
	r.Check(okOnly, "M4", "the header is read only through ReadString on the shared reader (nothing beyond the terminating line is consumed)", w.Pos(rh.Pos()), fmt.Sprint(len(readCalls)))
	if !okOnly {
		return
	}
	rc := readCalls[0]
	r.Check(e.termOf(rc.Call.Args[1]).String() == "10", "M4", "lines are delimited by '\\n'", w.InstrPos(rc), e.termOf(rc.Call.Args[1]).String())
	// error branch returns (nil, err)
	b := rc.Block()
	okErr := false
	if iff, ok := b.Instrs[len(b.Instrs)-1].(*ssa.If); ok {
		ct := e.termOf(iff.Cond).String()
		if strings.HasPrefix(ct, "ne(#1(bufio.Reader.ReadString(") {
			if ret, ok := b.Succs[0].Instrs[len(b.Succs[0].Instrs)-1].(*ssa.Return); ok && len(ret.Results) == 2 {
				t0, t1 := e.termOf(ret.Results[0]).String(), e.termOf(ret.Results[1]).String()
				okErr = t0 == "nil" && (strings.HasPrefix(t1, "#1(bufio.Reader.ReadString(") || strings.HasPrefix(t1, "fmt.Errorf(") && strings.Contains(t1, "#1(bufio.Reader.ReadString("))
			}
		}
	}
	r.Check(okErr, "M4", "a read error (header cut short) is returned, with no partial description", w.InstrPos(rc), "")
	// loop exit only via the blank-line test
	var exits []string
	for _, bb := range rh.Blocks {
		if !inLoop(bb) {
			continue
		}
		for _, s := range bb.Succs {
			if !inLoop(s) || !reaches(s, rc.Block()) {
				iff, ok := bb.Instrs[len(bb.Instrs)-1].(*ssa.If)
				if !ok {
					continue
				}
				if _, isRet := s.Instrs[len(s.Instrs)-1].(*ssa.Return); isRet && s == b.Succs[0] {
					continue // the error return
				}
				ve := newTermEnv(w)
				ve.valueHelpers = true // the blank-line test may sit in a small predicate helper
				ct := ve.termOf(iff.Cond)
				if s == bb.Succs[1] {
					ct = tnot(ct) // the loop is left when the condition is FALSE
				}
				ts := ct.String()
				ts = strings.Replace(ts, `eq(strings.Trim(#0(bufio.Reader.ReadString(param:bufio.Reader, 10)), " "), "\n")`, `eq("\n", strings.Trim(#0(bufio.Reader.ReadString(param:bufio.Reader, 10)), " "))`, 1)
				exits = append(exits, ts)
			}
		}
	}
	want := `eq("\n", strings.Trim(#0(bufio.Reader.ReadString(param:bufio.Reader, 10)), " "))`
	r.Check(len(exits) == 1 && exits[0] == want, "M4", "the loop ends at the first blank line (after trimming spaces) and nowhere else", w.Pos(rh.Pos()), strings.Join(exits, " | "))
	// what is decoded is what was read: every line handed to the buffer is the line exactly as ReadString returned it
	// (YAML is indentation sensitive: a trimmed continuation line no longer belongs to its key)
	nBuf := 0
	for _, bb := range rh.Blocks {
		for _, in := range bb.Instrs {
			c, ok := in.(*ssa.Call)
			if !ok || !inLoop(bb) {
				continue
			}
			cn := calleeName(c)
			if cn == "bytes.Buffer.WriteString" || cn == "bytes.Buffer.Write" || cn == "strings.Builder.WriteString" {
				nBuf++
				got := e.termOf(c.Call.Args[1]).String()
				wantLine := "#0(bufio.Reader.ReadString(param:bufio.Reader, 10))"
				r.Check(got == wantLine || got == "convert("+wantLine+")", "M4", "each header line is buffered exactly as read (indentation kept)", w.InstrPos(c), got)
			}
		}
	}
	r.Check(nBuf == 1, "M4", "header lines are collected in a buffer, each once (one buffering call in the loop)", w.Pos(rh.Pos()), fmt.Sprint(nBuf))
	// yaml error returned
	okY := false
	for _, f := range w.funcFamily(rhOuter) {
		for _, bb := range f.Blocks {
			if iff, ok := bb.Instrs[len(bb.Instrs)-1].(*ssa.If); ok {
				if ct := e.termOf(iff.Cond).String(); strings.HasPrefix(ct, "ne(") && strings.Contains(ct, "Unmarshal(") {
					// on the "error is not nil" edge: no description, and that very error
					if ret, ok := bb.Succs[0].Instrs[len(bb.Succs[0].Instrs)-1].(*ssa.Return); ok && len(ret.Results) == 2 && e.termOf(ret.Results[0]).String() == "nil" && strings.Contains(e.termOf(ret.Results[1]).String(), "Unmarshal(") {
						okY = true
						// when the decode lives in a stage function its error must come back out of ReadHeaderInfo
						if f != rhOuter {
							okY = returnsErrorOf(rhOuter, f)
						}
					}
				}
			}
		}
	}
	r.Check(okY, "M4", "a YAML decoding error is returned", w.Pos(rhOuter.Pos()), "")
}

func reaches(from, to *ssa.BasicBlock) bool {
	seen := map[*ssa.BasicBlock]bool{}
	work := []*ssa.BasicBlock{from}
	for len(work) > 0 {
		x := work[len(work)-1]
		work = work[:len(work)-1]
		if x == to {
			return true
		}
		if seen[x] {
			continue
		}
		seen[x] = true
		work = append(work, x.Succs...)
	}
	return false
}

// checkHandleConnMarkerCI: on the marker edge the processor is reset and the loop continues at the
// probe read without a second read or a frame.
func checkHandleConnMarkerCI(w *World, r *Report, ci *connInfo, rule string) {
	if ci.markerIf == nil || ci.resetCall == nil {
		r.Fail(rule, "marker edge resets the processor", w.Pos(ci.fn.Pos()), "no marker comparison / Reset call found in the frame loop", "")
		return
	}
	// polarity: which successor is the marker edge
	bo := ci.markerIf.Cond.(*ssa.BinOp)
	mb := ci.markerIf.Block().Succs[0]
	if bo.Op.String() == "!=" {
		mb = ci.markerIf.Block().Succs[1]
	}
	r.Check(ci.resetCall.Block() == mb, rule, "on the marker edge the processor is reset", w.InstrPos(ci.resetCall), "")
	// the marker decision depends on the probe bytes alone: nothing else decided after the probe read may guard the
	// reset, and the remainder is read only when the probe differs from the marker (otherwise a marker would be
	// consumed as frame data and every later frame shifted by its length)
	{
		e := newTermEnv(w)
		var extra []string
		for _, g := range e.guardsOf(mb) {
			if g.If == ci.markerIf || !(ci.probe.Block() == g.If.Block() || ci.probe.Block().Dominates(g.If.Block())) {
				continue
			}
			if gs := g.String(); (strings.HasPrefix(gs, "eq(") || strings.HasPrefix(gs, "ne(")) && strings.Contains(gs, "#1(io.ReadFull(") && (strings.HasSuffix(gs, ", nil)") || strings.HasPrefix(gs[3:], "nil, ")) {
				continue // the read-error check of the probe
			}
			extra = append(extra, g.String())
		}
		r.Check(len(extra) == 0, rule, "a marker is honoured whatever else is going on (its branch depends on the probe bytes only)", w.InstrPos(ci.markerIf), "extra conditions on the marker edge: "+strings.Join(extra, " ; "))
		sawNeg := false
		for _, g := range e.guardsOf(ci.rest.Block()) {
			if g.If == ci.markerIf {
				sawNeg = true
			}
		}
		r.Check(sawNeg, rule, "the remainder of a frame is read only when the probe is not the marker", w.InstrPos(ci.rest), strings.Join(guardStrings(e.guardsOf(ci.rest.Block())), " ; "))
		// every frame that was read in full is delivered: between the probe and Process nothing but the two read errors
		// and the marker test decides
		var extraP []string
		for _, g := range e.guardsOf(ci.process.Block()) {
			if g.If == ci.markerIf || !(ci.probe.Block() == g.If.Block() || ci.probe.Block().Dominates(g.If.Block())) {
				continue
			}
			if gs := g.String(); (strings.HasPrefix(gs, "eq(") || strings.HasPrefix(gs, "ne(")) && strings.Contains(gs, "#1(io.ReadFull(") && strings.Contains(gs, "nil") {
				continue
			}
			extraP = append(extraP, g.String())
		}
		r.Check(len(extraP) == 0, rule, "every frame read in full is handed to Process (only a read error or a marker skips it)", w.InstrPos(ci.process), "other conditions: "+strings.Join(extraP, " ; "))
		if from := successEdge(ci.rest.Block()); from != nil {
			by, at := canBypass(from, ci.process.Block(), ci.probe.Block())
			pos := w.InstrPos(ci.process)
			if by && len(at.Instrs) > 0 {
				pos = w.InstrPos(at.Instrs[0])
			}
			r.Check(!by, rule, "no path from a completed frame read comes round to the next read without passing Process", pos, "")
		} else {
			r.Unknown(rule, "no path from a completed frame read comes round to the next read without passing Process", w.InstrPos(ci.rest), "the remainder read is not followed by an error check")
		}
		// ... and once: the frame loop hands a frame to the processor at one site only (a second call would deliver the
		// frame twice - recorded twice, buffered twice, counted twice)
		if pc := ci.process.Call.StaticCallee(); pc != nil {
			nP := 0
			for _, b := range ci.process.Parent().Blocks {
				for _, in := range b.Instrs {
					if c, ok := in.(*ssa.Call); ok && c.Call.StaticCallee() == pc {
						nP++
					}
				}
			}
			r.Check(nP == 1, rule, "each frame read is handed to Process exactly once (one call site in the frame loop)", w.InstrPos(ci.process), fmt.Sprint(nP))
		}
	}
	// from the reset block control returns to the probe read without passing the second read / Process
	okBack := true
	seen := map[*ssa.BasicBlock]bool{}
	work := append([]*ssa.BasicBlock{}, mb.Succs...)
	reached := false
	for len(work) > 0 {
		x := work[len(work)-1]
		work = work[:len(work)-1]
		if seen[x] {
			continue
		}
		seen[x] = true
		if x == ci.probe.Block() {
			reached = true
			continue
		}
		if x == ci.rest.Block() || x == ci.process.Block() {
			okBack = false
		}
		work = append(work, x.Succs...)
	}
	r.Check(okBack && reached, rule, "after a marker the loop continues with the next probe: no second read, no frame processed", w.InstrPos(ci.resetCall), "")
	// Reset gets the camera description
	r.Check(len(ci.resetCall.Call.Args) == 2, rule, "Reset is called on the connection's processor", w.InstrPos(ci.resetCall), "")
}

// checkSingleBufferedReader: the stream is consumed through ONE bufio.Reader: the reader handed to the header parser is
// a bufio.NewReader(conn), every frame read uses that same reader, no second buffered reader is made in the function
// and the connection value is not read directly (bytes the header parse left in the buffer would be skipped and every
// later frame boundary shifted, depending on how the stream was segmented).
func checkSingleBufferedReader(w *World, r *Report, e *termEnv, rule, construct string, fns []*ssa.Function, hdrCall *ssa.Call, reads []*ssa.Call, origin func(ssa.Value) ssa.Value) {
	hdrRd := unwrapIface(hdrCall.Call.Args[hdrArgOf(hdrCall)])
	same := len(reads) > 0
	for _, c := range reads {
		if origin(c.Call.Args[0]) != hdrRd {
			same = false
		}
	}
	rcall, isCall := hdrRd.(*ssa.Call)
	pos := w.InstrPos(hdrCall)
	if len(reads) > 0 {
		pos = w.InstrPos(reads[0])
	}
	var got []string
	for _, c := range reads {
		got = append(got, e.termOf(c.Call.Args[0]).String())
	}
	r.Check(same && isCall && calleeName(rcall) == "bufio.NewReader", rule, construct, pos, "header: "+e.termOf(hdrRd).String()+"; reads: "+strings.Join(got, " | "))
	if !isCall {
		return
	}
	base := unwrapIface(rcall.Call.Args[0])
	var others []string
	var visit func(v ssa.Value)
	visit = func(v ssa.Value) {
		refs := v.Referrers()
		if refs == nil {
			return
		}
		for _, rf := range *refs {
			switch x := rf.(type) {
			case *ssa.ChangeInterface:
				visit(x)
			case *ssa.MakeInterface:
				visit(x)
			case *ssa.DebugRef:
			case ssa.CallInstruction:
				cc := x.Common()
				if x == ssa.Instruction(rcall) {
					continue
				}
				if cc.IsInvoke() && cc.Value == v && cc.Method.Name() != "Read" {
					continue // Close, deadlines, addresses: not a read
				}
				others = append(others, "passed to / read by "+calleeNameCI(x)+" at "+w.InstrPos(x))
			default:
				others = append(others, fmt.Sprintf("%T at %s", x, w.InstrPos(rf)))
			}
		}
	}
	visit(base)
	nr := 0
	for _, fn := range fns {
		for _, b := range fn.Blocks {
			for _, in := range b.Instrs {
				if c, ok := in.(*ssa.Call); ok && strings.HasPrefix(calleeName(c), "bufio.NewReader") {
					nr++
				}
			}
		}
	}
	r.Check(nr == 1 && len(others) == 0, rule, "the connection is wrapped by exactly one buffered reader and not read directly", w.InstrPos(rcall), fmt.Sprintf("%d NewReader call(s); other uses of conn: %v", nr, others))
}

func calleeNameCI(ci ssa.CallInstruction) string {
	if c, ok := ci.(*ssa.Call); ok {
		return calleeName(c)
	}
	cc := ci.Common()
	if cc.IsInvoke() {
		return "invoke " + cc.Method.Name()
	}
	if f := cc.StaticCallee(); f != nil {
		return f.String()
	}
	return "dynamic call"
}

// ctorCallIn: a call in fn that constructs a value with ctor, either directly or through a local factory closure
// (an anonymous function of fn whose every return is a ctor call). Returns the ctor call whose arguments count
// (the call itself, or the one inside the factory) - nil when c is not a construction site.
func ctorCallIn(fn *ssa.Function, c *ssa.Call, ctor *ssa.Function) *ssa.Call {
	callee := c.Call.StaticCallee()
	if callee == nil {
		return nil
	}
	if callee == ctor {
		return c
	}
	if !(callee.Parent() == fn && len(callee.Params) == 0) && !(callee.Pkg == fn.Pkg && callee.Parent() == nil && len(callee.Blocks) == 1) {
		// a local factory closure, or a straight-line factory function of the same package (its parameters are bound to
		// the call's arguments by factoryEnv)
		return nil
	}
	var inner *ssa.Call
	for _, b := range callee.Blocks {
		ret, ok := b.Instrs[len(b.Instrs)-1].(*ssa.Return)
		if !ok {
			continue
		}
		if len(ret.Results) != 1 {
			return nil
		}
		ic, ok := ret.Results[0].(*ssa.Call)
		if !ok || ic.Call.StaticCallee() != ctor || (inner != nil && inner != ic) {
			return nil
		}
		inner = ic
	}
	return inner
}

// factoryEnv: the term environment in which the arguments of the inner constructor call of a factory are to be read:
// for a factory function with parameters, those are bound to the terms of the outer call's arguments.
func factoryEnv(e *termEnv, outer, inner *ssa.Call) *termEnv {
	if outer == inner || inner.Parent() == outer.Parent() || len(inner.Parent().Params) == 0 {
		return e
	}
	ce := e.child()
	for i, p := range inner.Parent().Params {
		if i < len(outer.Call.Args) {
			ce.bind[p] = e.termOf(outer.Call.Args[i])
		}
	}
	return ce
}

// canBypass: is there a path from block `from` that reaches one of `stops` (or leaves the function) without passing
// through block `must`? Used for "every X is followed by Y before the loop comes round again".
func canBypass(from, must *ssa.BasicBlock, stops ...*ssa.BasicBlock) (bool, *ssa.BasicBlock) {
	isStop := map[*ssa.BasicBlock]bool{}
	for _, b := range stops {
		isStop[b] = true
	}
	seen := map[*ssa.BasicBlock]bool{}
	work := []*ssa.BasicBlock{from}
	for len(work) > 0 {
		b := work[len(work)-1]
		work = work[:len(work)-1]
		if seen[b] || b == must {
			continue
		}
		seen[b] = true
		if isStop[b] {
			return true, b
		}
		if _, isRet := b.Instrs[len(b.Instrs)-1].(*ssa.Return); isRet {
			return true, b
		}
		work = append(work, b.Succs...)
	}
	return false, nil
}

// successEdge: for a block ending in "if err != nil { return ... }" (or the == form) the successor on which the error
// is nil; nil when the block does not end that way.
func successEdge(b *ssa.BasicBlock) *ssa.BasicBlock {
	iff, ok := b.Instrs[len(b.Instrs)-1].(*ssa.If)
	if !ok {
		return nil
	}
	bo, ok := iff.Cond.(*ssa.BinOp)
	if !ok {
		return nil
	}
	isNil := func(v ssa.Value) bool { c, ok := v.(*ssa.Const); return ok && c.Value == nil }
	if !isNil(bo.X) && !isNil(bo.Y) {
		return nil
	}
	switch bo.Op.String() {
	case "!=":
		return b.Succs[1]
	case "==":
		return b.Succs[0]
	}
	return nil
}

// afterCallTo: instruction `at` of function fn executes only after a call to `target` returned: a call to target
// dominates it in fn, or fn is an unexported helper all of whose call sites satisfy the same condition (two levels).
func afterCallTo(w *World, fn *ssa.Function, at ssa.Instruction, target *ssa.Function, depth int) bool {
	for _, b := range fn.Blocks {
		for _, in := range b.Instrs {
			if c, ok := in.(*ssa.Call); ok && c.Call.StaticCallee() == target {
				if b == at.Block() && instrIndex(c) < instrIndex(at) || b != at.Block() && b.Dominates(at.Block()) {
					return true
				}
			}
		}
	}
	if depth >= 2 {
		return false
	}
	n := 0
	for _, caller := range w.callersOf(fn) {
		for _, b := range caller.Blocks {
			for _, in := range b.Instrs {
				if c, ok := in.(ssa.CallInstruction); ok && c.Common().StaticCallee() == fn {
					n++
					if _, isGo := in.(*ssa.Go); isGo {
						return false
					}
					if !afterCallTo(w, caller, in, target, depth+1) {
						return false
					}
				}
			}
		}
	}
	return n > 0
}

// returnsErrorOf: every call of callee in fn is followed by a test of its last (error) result whose non-nil edge
// returns that very error.
func returnsErrorOf(fn, callee *ssa.Function) bool {
	n := 0
	for _, b := range fn.Blocks {
		for _, in := range b.Instrs {
			c, ok := in.(*ssa.Call)
			if !ok || c.Call.StaticCallee() != callee {
				continue
			}
			n++
			good := false
			nres := callee.Signature.Results().Len()
			// direct "return callee(...)"
			if ret, ok := b.Instrs[len(b.Instrs)-1].(*ssa.Return); ok {
				for _, rv := range ret.Results {
					if ex, ok := rv.(*ssa.Extract); ok && ex.Tuple == ssa.Value(c) && ex.Index == nres-1 {
						good = true
					}
					if rv == ssa.Value(c) && nres == 1 {
						good = true
					}
				}
			}
			if iff, ok := b.Instrs[len(b.Instrs)-1].(*ssa.If); ok {
				if bo, ok := iff.Cond.(*ssa.BinOp); ok && bo.Op == token.NEQ {
					var ev ssa.Value = bo.X
					if cst, isC := bo.X.(*ssa.Const); isC && cst.Value == nil {
						ev = bo.Y
					}
					isErrOfCall := ev == ssa.Value(c) && nres == 1
					if ex, ok := ev.(*ssa.Extract); ok && ex.Tuple == ssa.Value(c) && ex.Index == nres-1 {
						isErrOfCall = true
					}
					if ret, ok := b.Succs[0].Instrs[len(b.Succs[0].Instrs)-1].(*ssa.Return); ok && isErrOfCall {
						for _, rv := range ret.Results {
							if rv == ev {
								good = true
							}
						}
					}
				}
			}
			if !good {
				return false
			}
		}
	}
	return n > 0
}

// hdrArgOf: which argument of the header-reading call is the reader: 0 for headers.ReadHeaderInfo, else the parameter of
// the local helper that is passed on to it.
func hdrArgOf(c *ssa.Call) int {
	callee := c.Call.StaticCallee()
	if callee == nil || calleeName(c) == "headers.ReadHeaderInfo" {
		return 0
	}
	for _, cb := range callee.Blocks {
		for _, cin := range cb.Instrs {
			if cc, ok := cin.(*ssa.Call); ok && calleeName(cc) == "headers.ReadHeaderInfo" {
				for pi, p := range callee.Params {
					if unwrapIface(cc.Call.Args[0]) == ssa.Value(p) {
						return pi
					}
				}
			}
		}
	}
	return 0
}

// callErrorReturned: the error result of this call is tested right after it and, when non-nil, returned unchanged by the
// enclosing function (or the call is itself the returned value).
func callErrorReturned(c *ssa.Call) bool {
	b := c.Block()
	nres := c.Call.Signature().Results().Len()
	isErr := func(v ssa.Value) bool {
		if v == ssa.Value(c) && nres == 1 {
			return true
		}
		if ex, ok := v.(*ssa.Extract); ok && ex.Tuple == ssa.Value(c) && ex.Index == nres-1 {
			return true
		}
		return false
	}
	switch last := b.Instrs[len(b.Instrs)-1].(type) {
	case *ssa.Return:
		for _, rv := range last.Results {
			if isErr(rv) {
				return true
			}
		}
	case *ssa.If:
		bo, ok := last.Cond.(*ssa.BinOp)
		if !ok {
			return false
		}
		var ev ssa.Value
		isNil := func(v ssa.Value) bool { k, ok := v.(*ssa.Const); return ok && k.Value == nil }
		switch {
		case isNil(bo.X) && isErr(bo.Y):
			ev = bo.Y
		case isNil(bo.Y) && isErr(bo.X):
			ev = bo.X
		default:
			return false
		}
		var failing *ssa.BasicBlock
		switch bo.Op {
		case token.NEQ:
			failing = b.Succs[0]
		case token.EQL:
			failing = b.Succs[1]
		default:
			return false
		}
		if ret, ok := failing.Instrs[len(failing.Instrs)-1].(*ssa.Return); ok {
			for _, rv := range ret.Results {
				if rv == ev {
					return true
				}
				// ... or wrapped with context: a fresh error built from it on that edge (the callers of these rules only
				// need the failure to be reported, not the identity of the error)
				if c2, isCall := rv.(*ssa.Call); isCall && c2.Block() == failing && calleeName(c2) == "fmt.Errorf" {
					for _, a := range c2.Call.Args {
						if sl, isSl := a.(*ssa.Slice); isSl {
							if al, isAl := sl.X.(*ssa.Alloc); isAl && al.Referrers() != nil {
								for _, rf := range *al.Referrers() {
									if ia, isIA := rf.(*ssa.IndexAddr); isIA && ia.Referrers() != nil {
										for _, st := range *ia.Referrers() {
											if s2, isSt := st.(*ssa.Store); isSt {
												if mi, isMI := s2.Val.(*ssa.MakeInterface); isMI && mi.X == ev {
													return true
												}
												if ci, isCI := s2.Val.(*ssa.ChangeInterface); isCI && ci.X == ev {
													return true
												}
											}
										}
									}
								}
							}
						}
					}
				}
			}
		}
	}
	return false
}
