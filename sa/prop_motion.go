package main

import (
	"fmt"
	"go/token"
	"go/types"
	"regexp"
	"sort"
	"strings"

	"golang.org/x/tools/go/ssa"
)

func init() {
	register("C01", propC01)
	register("C02", propC02)
	register("C03", propC03)
	register("C04", propC04)
	register("C13", propC13)
	register("C17", propC17)
}

// leaf names of the configuration values (exported API names, G2)
const (
	leafFPS     = "cptvframe.CameraSpec.FPS()"
	leafMinSecs = "recorder.RecorderConfig.MinSecs@param:recorder.RecorderConfig"
	leafMaxSecs = "recorder.RecorderConfig.MaxSecs@param:recorder.RecorderConfig"
	leafPreview = "recorder.RecorderConfig.PreviewSecs@param:recorder.RecorderConfig"
	leafTrigger = "config.ThermalMotion.TriggerFrames@param:config.ThermalMotion"
)

func eventsOfKind(run *tsRun, kind string, role int) []*Event {
	var out []*Event
	for _, ev := range run.sortedEvents() {
		if ev.Kind == kind && (role < 0 || ev.Role == role) {
			out = append(out, ev)
		}
	}
	return out
}

func exitCtxs(run *tsRun, entries ...string) []*Ctx {
	var out []*Ctx
	for _, ev := range run.sortedEvents() {
		if ev.Kind != "exit" {
			continue
		}
		ok := len(entries) == 0
		for _, e := range entries {
			if ev.Entry == e {
				ok = true
			}
		}
		if ok {
			out = append(out, ev.Ctxs...)
		}
	}
	return out
}

// allCtx checks a predicate over all contexts of the events; returns a failing context.
func allCtx(evs []*Event, pred func(c *Ctx) bool) (bool, *Ctx, *Event, int) {
	n := 0
	for _, ev := range evs {
		for _, c := range ev.Ctxs {
			n++
			if !pred(c) {
				return false, c, ev, n
			}
		}
	}
	return true, nil, nil, n
}

func motionEnv(w *World, m *motionModel) *termEnv {
	e := newTermEnv(w)
	e.useCtor(m.C.T, m.C.Ctor)
	return e
}

// storesTo returns the static store instructions to a receiver field (outside the constructor).
func storesTo(c *Component, field string) []*ssa.Store {
	fi := fieldIndex(c.St, field)
	var out []*ssa.Store
	var fns []*ssa.Function
	for fn := range c.W.AllFuncs {
		if fn != c.Ctor && len(fn.Blocks) > 0 {
			fns = append(fns, fn)
		}
	}
	sort.Slice(fns, func(i, j int) bool { return fns[i].String() < fns[j].String() })
	for _, fn := range fns {
		for _, b := range fn.Blocks {
			for _, in := range b.Instrs {
				if st, ok := in.(*ssa.Store); ok {
					if fa, ok := st.Addr.(*ssa.FieldAddr); ok && isPtrTo(fa.X.Type(), c.T) && fa.Field == fi {
						out = append(out, st)
					}
				}
			}
		}
	}
	return out
}

func commonMotionSetup(w *World, r *Report) (*motionRuns, *motionRoles, *motionRoles, bool) {
	runs, err := getMotionRuns(w)
	if err != nil {
		r.Unknown("roles", "motion.MotionProcessor", "-", "role resolution failed: "+err.Error())
		return nil, nil, nil, false
	}
	rolesF := resolveMotionRoles(runs.fault)
	rolesN := resolveMotionRoles(runs.nofault)
	r.Extra["reachable_states"] = len(runs.fault.Reach)
	r.Extra["reachable_states_fault_free"] = len(runs.nofault.Reach)
	r.Extra["interpreter_steps"] = runs.fault.Steps + runs.nofault.Steps
	r.Extra["roles"] = map[string]string{"frames-written": rolesF.Written, "stop-target": rolesF.Target, "consecutive-motion": rolesF.Trig,
		"trigger-limit": rolesF.TrigLimit, "continuous-count": rolesF.CRCount, "test-count": rolesF.SNCount}
	return runs, rolesF, rolesN, true
}

func g3(r *Report, run *tsRun) {
	reportRun(r, run, map[string]string{}, "G3")
}

// ---------------------------------------------------------------------------------------
// C01

func propC01(w *World, r *Report) {
	r.Explanation = "Decided clause: (O1) in every reachable abstract state of MotionProcessor, when the motion recording is open the current ring slot is written to it exactly once before the ring advances (no skipped or repeated post-trigger frame); (O2) every stop of the motion recording is followed, in the same call, by SetAsOldest on a slot that has not been recorded, so the next recording starts at the frame after the last one written; (O3) the pre-trigger loop writes history[0..len-2] in ascending order between the successful start and the write of the current frame; (O4) no frame call ends with a recorded current slot and an unadvanced ring. Rule: typestate fix-point with a fresh/written ghost on the ring's current slot + induction-variable normal form of the pre-trigger loop."
	r.RuleText = "obligation per (rule, call site on the ring / motion sink); discharged when no reachable abstract state violates it"
	r.Assumptions = []string{"FrameLoop.GetHistory returns oldest..current bounded by the mark (C19 decides the index arithmetic, not its composition over all operation sequences)",
		"recordings under WriteFrame failures are covered by the same fix-point (errors are forked) but the content of a file after a failed write is not claimed"}
	runs, roles, _, ok := commonMotionSetup(w, r)
	if !ok {
		return
	}
	run := runs.fault
	reportRun(r, run, map[string]string{"O1": "O1", "O2": "O2", "O4": "O4"}, "G3")
	viol := map[string]bool{}
	for _, v := range run.Viol {
		viol[v.Rule] = true
	}
	for _, k := range []string{"ring:Move", "ring:SetAsOldest", "ring:Current", "ring:GetHistory"} {
		evs := eventsOfKind(run, k, -1)
		rule := map[string]string{"ring:Move": "O1", "ring:SetAsOldest": "O2", "ring:Current": "O1", "ring:GetHistory": "O3"}[k]
		for _, ev := range evs {
			if !viol[rule] {
				r.Pass(rule, fmt.Sprintf("%s at %s", k, callOrdinal(ev.Instr, strings.TrimPrefix(k, "ring:"))), w.InstrPos(ev.Instr), fmt.Sprintf("slot discipline holds in all %d contexts", len(ev.Ctxs)))
			}
		}
		r.Check(len(evs) >= 1, "G4", k+" has a call site", "-", fmt.Sprintf("%d call site(s)", len(evs)))
	}
	// writes of the current frame to the motion sink
	for _, ev := range eventsOfKind(run, "sink:WriteFrame", roleMotion) {
		okc, bad, _, n := allCtx([]*Event{ev}, func(c *Ctx) bool { return true })
		_ = okc
		_ = bad
		if !viol["O1"] {
			r.Pass("O1", "motion WriteFrame at "+callOrdinal(ev.Instr, "WriteFrame"), w.InstrPos(ev.Instr), fmt.Sprintf("%d contexts", n))
		}
	}
	checkPreTriggerLoop(w, r, runs, "O3")
	checkRingHistoryForms(w, r, "O3")
	checkRingMove(w, r, "O3")
	checkRingResetAndOldest(w, r, "O2")
	checkMarkOnlyAfterStop(w, r, run, "O2")
	checkRingUsage(w, r, run, "O2")
	if len(roles.Problems) > 0 {
		r.Note("role resolution notes: %s", strings.Join(roles.Problems, "; "))
	}
	// O4 discharged?
	if !viol["O4"] {
		r.Pass("O4", "every frame call ends with a fresh current slot", "-", fmt.Sprintf("%d quiescent states", len(run.Reach)))
	}
	checkRingAdvancesOncePerFrame(w, r, runs, "O1", true, false)
	checkSinksDistinct(w, r, runs, "O1") // nothing else writes into the motion recording's file
	// the request goroutines only READ the ring: CopyRecent stores nothing (a temporary rewind of the position would be
	// seen by the frame loop, which reads it without the lock)
	linkObligations(w, r, propC19, "C19", func(o *Obligation) bool {
		return strings.HasPrefix(o.Construct, "CopyRecent reads under the ring's lock and modifies nothing") || strings.HasPrefix(o.Construct, "CopyRecent returns a fresh copy")
	}, "O2")
	// a recording holds the frames that arrived, each once: the ring slot a frame is kept in is a deep copy of its own (a
	// slot sharing pixel rows with the source shows the newest frame in every buffered position)
	linkObligations(w, r, propC02, "C02", func(o *Obligation) bool { return o.Rule == "C02.P2" && strings.Contains(o.Construct, "ring slot") }, "O1")
}

// checkMarkOnlyAfterStop: the oldest-mark (which discards buffered pre-trigger frames) is placed only in a
// call that actually stopped an open motion recording — never while idle (bad frame / reset / refused start).
func checkMarkOnlyAfterStop(w *World, r *Report, run *tsRun, rule string) {
	evs := eventsOfKind(run, "ring:SetAsOldest", -1)
	for _, ev := range evs {
		okc, bad, _, n := allCtx([]*Event{ev}, func(cx *Ctx) bool { return cx.Ghosts["stop:motion"] >= 1 || cx.Sinks[roleMotion] == 1 })
		construct := "SetAsOldest at " + callOrdinal(ev.Instr, "SetAsOldest") + " only right after an open motion recording was stopped"
		if okc {
			r.Pass(rule, construct, w.InstrPos(ev.Instr), fmt.Sprintf("%d contexts", n))
		} else {
			r.Fail(rule, construct, w.InstrPos(ev.Instr), "the buffered pre-trigger history is discarded (ring marked) although no recording was open: a trigger shortly afterwards starts with less than the full preview: "+describeCtx(bad), bad.Trace)
		}
	}
	r.Check(len(evs) >= 1, "G4", "SetAsOldest call site exists", "-", fmt.Sprint(len(evs)))
}

// checkRingUsage: the processor drives its pre-trigger ring only through Current / Move / SetAsOldest / GetHistory /
// CopyRecent. In particular it never rewinds it (Reset): that would drop buffered pre-trigger frames, make the
// "previous slot" served to snapshot requests a stale or never-written one, and break the ring invariant the
// history slicing relies on.
func checkRingUsage(w *World, r *Report, run *tsRun, rule string) {
	allowed := map[string]bool{"Current": true, "Move": true, "SetAsOldest": true, "GetHistory": true, "CopyRecent": true}
	n := 0
	for _, ev := range run.sortedEvents() {
		if !strings.HasPrefix(ev.Kind, "ring:") {
			continue
		}
		n++
		m := strings.TrimPrefix(ev.Kind, "ring:")
		construct := "pre-trigger ring method " + m + " called from " + ev.Instr.Parent().Name()
		if allowed[m] {
			r.Pass(rule, construct, w.InstrPos(ev.Instr), "advances only by completed frames / marks / reads")
		} else {
			r.Fail(rule, construct, w.InstrPos(ev.Instr), "the processor calls "+m+" on its pre-trigger ring: the ring position no longer advances only by completed frames (buffered preview frames are dropped, snapshot requests can be served a stale or never-written slot, the history slicing invariant breaks)", ev.Ctxs[0].Trace)
		}
	}
	r.Check(n >= 4, "G4", "ring calls by the processor observed", "-", fmt.Sprint(n))
}

// checkPreTriggerLoop: O3 / P2 — shape of the loop that writes the history to the motion sink.
func checkPreTriggerLoop(w *World, r *Report, runs *motionRuns, rule string) {
	run := runs.fault
	c := run.C
	e := motionEnv(w, runs.model)
	n := 0
	for _, ev := range eventsOfKind(run, "sink:WriteFrame", roleMotion) {
		// only writes whose argument is not the current slot
		isOther := false
		for _, cx := range ev.Ctxs {
			_ = cx
		}
		call := ev.Instr.(*ssa.Call)
		arg := call.Call.Args[len(call.Call.Args)-1]
		t := e.termOf(arg)
		if strings.Contains(t.String(), "GetHistory") || t.Op == "index" {
			isOther = true
		}
		if !isOther {
			continue
		}
		n++
		construct := "pre-trigger write at " + callOrdinal(ev.Instr, "WriteFrame")
		pos := w.InstrPos(ev.Instr)
		hist := "motion.FrameLoop.GetHistory(obj:motion.FrameLoop)"
		wantArg := "index(" + hist + ", iv(0, 1))"
		if !r.Check(t.String() == wantArg, rule, construct+": written frame is history[i], i = 0,1,2,...", pos, "argument normal form: "+t.String()+" (want "+wantArg+")") {
			continue
		}
		// loop bound: i < len(history)-1
		gs := e.guardsOf(call.Block())
		wantGuard := "lt(iv(0, 1), (len(" + hist + ") + -1))"
		r.Check(hasGuard(gs, wantGuard), rule, construct+": loop runs while i < len(history)-1 (the current frame is excluded)", pos, "dominating guards: "+strings.Join(guardStrings(gs), " ; "))
		// nothing else decides whether the history is written: every other condition that dominates the write inside
		// its function must hold whenever there is anything to write (it may only depend on len(history), and must
		// be true for every length >= 2) — an extra early return would drop (part of) the preview
		var extra []string
		for _, g := range gs {
			if g.String() == wantGuard || g.If.Parent() != call.Parent() {
				continue
			}
			if gsx := g.String(); strings.Contains(gsx, ".StartRecording(") && (strings.HasPrefix(gsx, "eq(") || strings.HasPrefix(gsx, "not(ne(")) && strings.Contains(gsx, "nil") {
				continue // "the start succeeded": the history is written into the recording that was just opened
			}
			if !holdsForAllLengths(g, hist) {
				extra = append(extra, g.String())
			}
		}
		r.Check(len(extra) == 0, rule, construct+": no other condition can skip the history (only the loop bound)", pos, "extra dominating conditions: "+strings.Join(extra, " ; "))
		// contexts: between successful start and the write of the current frame
		okc, bad, _, nn := allCtx([]*Event{ev}, func(cx *Ctx) bool {
			return cx.Ghosts["opened:motion"] == 1 && cx.Ghosts["wcur:motion"] == 0 && cx.Ghosts["histAfterStart"] == 1
		})
		detail := fmt.Sprintf("all %d contexts: history fetched after the successful start, before the current frame is written", nn)
		wit := ""
		if !okc {
			detail = "a pre-trigger write happens outside [successful start, write of the trigger frame): " + describeCtx(bad)
			wit = bad.Trace
		}
		if okc {
			r.Pass(rule, construct+": only between the successful start and the trigger frame", pos, detail)
		} else {
			r.Fail(rule, construct+": only between the successful start and the trigger frame", pos, detail, wit)
		}
	}
	r.Check(n == 1, rule, "exactly one pre-trigger write site on the motion sink", "-", fmt.Sprintf("%d site(s)", n))
	_ = c
}

// ---------------------------------------------------------------------------------------
// C02

func propC02(w *World, r *Report) {
	r.Explanation = "Decided clause: (P1) the capacity handed to the pre-trigger ring's constructor normalises to PreviewSecs*FPS + TriggerFrames with FPS the camera's; (P2) the pre-trigger loop writes the whole history except the current frame, oldest first; (P3) in every reachable state a successful motion start is followed, within the same frame call, by the history fetch, the pre-trigger writes and the write of the trigger frame. Rule: polynomial normal form of the constructor argument + typestate fix-point + loop normal form. Also (P3, linked from C05.T3) with the throttler in front, a recording is let through on min-secs + preview-secs."
	r.RuleText = "obligation per (rule, construct)"
	r.Assumptions = []string{"the ring's own length arithmetic (GetHistory) is decided structurally by C19, not its composition over all histories", "P3 is evaluated on the fault-free fix-point (a failing pre-trigger write legitimately shortens the file)"}
	runs, _, _, ok := commonMotionSetup(w, r)
	if !ok {
		return
	}
	g3(r, runs.nofault)
	c := runs.model.C
	e := newTermEnv(w)
	// P1: constructor argument of the ring
	found := 0
	for _, b := range c.Ctor.Blocks {
		for _, in := range b.Instrs {
			st, ok := in.(*ssa.Store)
			if !ok {
				continue
			}
			fa, ok := st.Addr.(*ssa.FieldAddr)
			if !ok || fa.Field != runs.model.ringFld || !isPtrTo(fa.X.Type(), c.T) {
				continue
			}
			call, ok := st.Val.(*ssa.Call)
			if !ok || call.Call.StaticCallee() == nil {
				r.Unknown("P1", "pre-trigger ring construction", w.InstrPos(in), "the ring field is not initialised from a constructor call")
				continue
			}
			found++
			callee := call.Call.StaticCallee()
			// the size parameter: the int parameter of the ring constructor
			for i, p := range callee.Params {
				if !isInteger(p.Type()) {
					continue
				}
				t := e.termOf(call.Call.Args[i])
				want := tadd(tmul(tleaf(leafFPS), tleaf(leafPreview)), tleaf(leafTrigger)).String()
				r.Check(t.String() == want, "P1", "pre-trigger ring capacity = PreviewSecs*FPS + TriggerFrames", w.InstrPos(call),
					"normal form: "+t.String()+" (want "+want+")")
			}
		}
	}
	r.Check(found == 1, "G4", "ring constructed once in the constructor", "-", fmt.Sprintf("%d", found))
	checkPreTriggerLoop(w, r, runs, "P2")
	checkRingHistoryForms(w, r, "P2")
	checkRingMove(w, r, "P2")
	checkRingResetAndOldest(w, r, "P4")
	checkMarkOnlyAfterStop(w, r, runs.fault, "P4")
	checkRingUsage(w, r, runs.fault, "P4")
	// P3
	exits := exitCtxs(runs.nofault)
	n := 0
	var bad *Ctx
	for _, cx := range exits {
		if cx.Ghosts["opened:motion"] != 1 {
			continue
		}
		n++
		if !(cx.Ghosts["histAfterStart"] == 1 && cx.Ghosts["wcur:motion"] == 1) && bad == nil {
			bad = cx
		}
	}
	if bad != nil {
		r.Fail("P3", "successful start => history + trigger frame written in the same call", "-", "a call opens the motion recording without writing the pre-trigger history and the trigger frame: "+describeCtx(bad), bad.Trace)
	} else {
		r.Check(n > 0, "P3", "successful start => history + trigger frame written in the same call", "-", fmt.Sprintf("%d exit contexts with a successful start", n))
	}
	checkSettingsImmutable(w, r, "P1", "RecorderConfig:PreviewSecs", "ThermalRecorder:PreviewSecs", "Config:Recorder") // preview-secs reaches the processor as configured
	checkRingAdvancesOncePerFrame(w, r, runs, "P2", true, false)
	checkRingSlotFilledByDeepCopy(w, r, runs, "P2")
	// when the motion sink is the throttler: a start that fails in the file recorder reaches the processor as an error
	// (else the processor writes its preview into a recording that does not exist and the throttler drops those frames)
	if tr, err := getThrottleRuns(w); err == nil {
		checkThrottleStartFailureSurfaces(w, r, tr, "P3")
	} else {
		r.Unknown("P3", "throttle start failure", "-", err.Error())
	}
	checkRingCapacityExact(w, r, "P1")
	// the preview is what the frame loop buffered: a snapshot request only READS the ring (a copy that rewinds the position
	// for its own convenience is seen by the frame loop, which picks its slots without the lock)
	linkObligations(w, r, propC19, "C19", func(o *Obligation) bool {
		return strings.HasPrefix(o.Construct, "CopyRecent reads under the ring's lock and modifies nothing")
	}, "P2")
	// ... and the buffered frames stay the frames that were received: a ring slot is never handed to anything that may
	// modify it (the who-may-receive rule of C16)
	linkObligations(w, r, propC16, "C16", func(o *Obligation) bool { return o.Rule == "C16.R3" && strings.Contains(o.Construct, "(a ring slot)") }, "P2")
	// with the throttler in front of the file, the preview reaches the file only while the bucket lasts: a recording is
	// let through when the bucket holds the minimum recording length, which must therefore include the preview
	// (min-secs + preview-secs); let through on min-secs alone, the bucket can run dry inside the pre-trigger writes
	linkObligations(w, r, propC05, "C05", func(o *Obligation) bool {
		return o.Rule == "C05.T3" && strings.Contains(o.Construct, "minimum recording length")
	}, "P3")
}

// ---------------------------------------------------------------------------------------
// C03

func propC03(w *World, r *Report) {
	r.Explanation = "Decided clause: (L1) the min/max limits normalise to MinSecs*FPS and MaxSecs*FPS with the camera's FPS; (L2) every store to the stop target is 0 (at stop), min(written+MIN, MAX) while recording or MIN / min(MIN,MAX) on the successful-start edge, non-zero stores execute only on frames with detected motion, and every motion frame during a recording executes the extension; (L3) the per-frame stop is taken exactly when written >= target (non-strict), evaluated after the write of the current frame and the increment, on every frame call that wrote a frame; (L4) written is incremented by exactly 1 per current-frame write (pre-trigger writes do not count); (L5) the configuration rejects max-secs < min-secs. Rule: store census with polynomial/min normal forms + guards from the typestate fix-point. Also (L2, with failures) a call that opened the recording and saw no write fail sets the stop target, whatever start attempts failed before."
	r.RuleText = "obligation per (rule, construct); the forms ARE the rule of the statement"
	r.Assumptions = []string{"an equivalent count-down encoding would be reported as not established (G3)", "integer overflow of secs*fps is not considered"}
	runs, roles, rolesN, ok := commonMotionSetup(w, r)
	if !ok {
		return
	}
	g3(r, runs.fault)
	c := runs.model.C
	e := motionEnv(w, runs.model)
	if roles.Written == "" || roles.Target == "" {
		r.Fail("L4", "frames-written counter / stop target roles", "-", "no counter is incremented exactly once per current-frame write to the motion sink and compared with a stop target: "+strings.Join(roles.Problems, "; "), "")
		return
	}
	r.Pass("L4", "written counter +1 exactly per current-frame write", "-", "field "+roles.Written+": inc ghost equals the number of current-frame writes in all exit contexts; pre-trigger writes do not count")
	W := "motion.MotionProcessor." + roles.Written + "@recv:motion.MotionProcessor"
	MIN := tmul(tleaf(leafFPS), tleaf(leafMinSecs))
	MAX := tmul(tleaf(leafFPS), tleaf(leafMaxSecs))
	ext := tminmax("min", tadd(tleaf(W), MIN), MAX).String()
	allowed := map[string]string{
		"0":                               "reset at stop",
		ext:                               "extension: min(written + MinSecs*FPS, MaxSecs*FPS)",
		MIN.String():                      "initial target MinSecs*FPS",
		tminmax("min", MIN, MAX).String(): "initial target min(MinSecs*FPS, MaxSecs*FPS)",
	}
	seenExt, seenInit := false, false
	for _, st := range storesTo(c, roles.Target) {
		t := e.termOf(st.Val).String()
		what, okf := allowed[t]
		construct := "store to stop target in " + st.Parent().Name() + ": " + what
		if !okf {
			construct = "store to stop target in " + st.Parent().Name() + " #" + storeOrdinal(st)
		}
		r.Check(okf, "L2", construct, w.InstrPos(st), "stored value normal form: "+t)
		if t == ext {
			seenExt = true
		}
		if t == MIN.String() || t == tminmax("min", MIN, MAX).String() {
			seenInit = true
		}
	}
	r.Check(seenExt, "L2", "an extension store min(written+MIN, MAX) exists", "-", "")
	r.Check(seenInit, "L2", "an initial-target store exists", "-", "")
	// L1 (explicit): the immutable limit fields
	r.Check(strings.Contains(ext, leafFPS) && strings.Contains(ext, leafMinSecs) && strings.Contains(ext, leafMaxSecs), "L1", "limits are MinSecs*FPS and MaxSecs*FPS of the camera's FPS", "-", ext)
	// L2 contexts: non-zero stores only under detect=T
	fiT := fieldIndex(c.St, roles.Target)
	for _, ev := range runs.fault.sortedEvents() {
		if ev.Kind != "store" || ev.Field != fiT {
			continue
		}
		st, isSt := ev.Instr.(*ssa.Store)
		if !isSt {
			continue
		}
		if e.termOf(st.Val).String() == "0" {
			continue
		}
		okc, bad, _, n := allCtx([]*Event{ev}, func(cx *Ctx) bool { return cx.Dec["detect"] == 1 })
		if okc {
			r.Pass("L2", "non-zero target store only on motion frames: "+st.Parent().Name()+" #"+storeOrdinal(st), w.InstrPos(st), fmt.Sprintf("%d contexts, all with detect=T", n))
		} else {
			r.Fail("L2", "non-zero target store only on motion frames: "+st.Parent().Name()+" #"+storeOrdinal(st), w.InstrPos(st), "the stop target is extended on a frame without detected motion: "+describeCtx(bad), bad.Trace)
		}
	}
	// L2b: every motion frame during a recording executes a target store; every successful start sets it (fault-free)
	var bad1, bad2 *Ctx
	n1, n2 := 0, 0
	for _, cx := range exitCtxs(runs.nofault) {
		if cx.Dec["detect"] == 1 && cx.Ghosts["openAtDetect"] == 1 {
			n1++
			if cx.Ghosts["st:"+rolesN.Target] < 1 && bad1 == nil {
				bad1 = cx
			}
		}
		if cx.Ghosts["opened:motion"] == 1 {
			n2++
			if cx.Ghosts["st:"+rolesN.Target] < 1 && bad2 == nil {
				bad2 = cx
			}
		}
	}
	if bad1 != nil {
		r.Fail("L2", "every motion frame during a recording extends the target", "-", "a frame with detected motion during a recording does not update the stop target: "+describeCtx(bad1), bad1.Trace)
	} else {
		r.Check(n1 > 0, "L2", "every motion frame during a recording extends the target", "-", fmt.Sprintf("%d exit contexts", n1))
	}
	if bad2 != nil {
		r.Fail("L2", "every successful start sets the target", "-", "a successful start leaves the stop target unset: "+describeCtx(bad2), bad2.Trace)
	} else {
		r.Check(n2 > 0, "L2", "every successful start sets the target", "-", fmt.Sprintf("%d exit contexts", n2))
	}
	// ... also after failures: a call that opened the motion recording and saw none of its writes fail sets the target,
	// however many start attempts failed before (a retry that succeeds but hands back the first attempt's error makes the
	// caller skip the target: the recording ends after its trigger frame)
	{
		var bad3 *Ctx
		n3 := 0
		for _, cx := range exitCtxs(runs.fault) {
			if cx.Ghosts["opened:motion"] == 1 && cx.Ghosts["wfail:motion"] != 1 {
				n3++
				if cx.Ghosts["st:"+roles.Target] < 1 && bad3 == nil {
					bad3 = cx
				}
			}
		}
		if bad3 != nil {
			r.Fail("L2", "a start that succeeded with all its pre-trigger writes sets the target, whatever failed before it", "-", "the call opens a recording, no write fails, and the stop target is not set: "+describeCtx(bad3), bad3.Trace)
		} else {
			r.Check(n3 > 0, "L2", "a start that succeeded with all its pre-trigger writes sets the target, whatever failed before it", "-", fmt.Sprintf("%d exit contexts over all failure placements", n3))
		}
	}
	// L6: every recording starts counting from zero: when the first frame of a newly opened motion recording is counted -
	// whatever start/write/stop failures came before - the written counter holds 0 (a stale count would end the new
	// recording early). Decided on the events of the fix-point: the first "+1" store in a call that opened the sink.
	{
		key := "nz:" + roles.Written
		fiW := fieldIndex(c.St, roles.Written)
		name := "written counter is zero when a new recording counts its first frame"
		if !runs.fault.C.Counter[fiW] {
			r.Fail("L6", name, "-", "the written counter "+roles.Written+" is never reset to the constant 0: a recording would inherit the previous recording's count", "")
		} else {
			var firsts []*Event
			for _, ev := range runs.fault.sortedEvents() {
				if ev.Kind == "store" && ev.Field == fiW && ev.Arg == "+1" {
					firsts = append(firsts, ev)
				}
			}
			n := 0
			var bad *Ctx
			var badEv *Event
			for _, ev := range firsts {
				for _, cx := range ev.Ctxs {
					if cx.Ghosts["opened:motion"] == 1 && cx.Ghosts["inc:"+roles.Written] == 1 {
						n++
						if cx.Pers[key] != 0 && bad == nil {
							bad, badEv = cx, ev
						}
					}
				}
			}
			for _, cx := range exitCtxs(runs.fault) {
				if cx.Ghosts["opened:motion"] == 1 && cx.Ghosts["inc:"+roles.Written] == 0 && cx.Sinks[roleMotion] == 1 {
					n++
					if cx.Pers[key] != 0 && bad == nil {
						bad = cx
					}
				}
			}
			switch {
			case bad != nil && badEv != nil:
				r.Fail("L6", name, w.InstrPos(badEv.Instr), "a recording can start while "+roles.Written+" still holds the count of an earlier recording (it would stop before min-secs): "+describeCtx(bad), bad.Trace)
			case bad != nil:
				r.Fail("L6", name, "-", "a call opens a recording and returns with "+roles.Written+" still holding the count of an earlier recording: "+describeCtx(bad), bad.Trace)
			default:
				r.Check(n > 0, "L6", name, "-", fmt.Sprintf("%d contexts over all failure placements", n))
			}
		}
	}
	// L3
	if roles.StopLabel == "" {
		r.Fail("L3", "stop guard", "-", "no comparison between the written counter and the stop target was found", "")
	} else {
		// decision evaluated after write + increment
		dec := eventsOfKind(runs.fault, "dec:"+roles.StopLabel, -1)
		okc, bad, ev, n := allCtx(dec, func(cx *Ctx) bool {
			return cx.Ghosts["inc:"+roles.Written] == 1 && cx.Ghosts["wcur:motion"] == 1
		})
		if okc {
			r.Check(n > 0, "L3", "stop test evaluated after the write and the increment", "-", fmt.Sprintf("%d contexts of '%s'", n, roles.StopLabel))
		} else {
			r.Fail("L3", "stop test evaluated after the write and the increment", w.InstrPos(ev.Instr), "the stop comparison is evaluated before the current frame was written/counted: "+describeCtx(bad), bad.Trace)
		}
		checkStopTaken(w, r, runs, roles, "L3")
	}
	checkRecorderConfigValidation(w, r, e)
	// the frames counted from the trigger are the frames written from the trigger: the pre-trigger writes stop before the
	// current frame (written twice it makes every recording one frame longer than its limit)
	linkObligations(w, r, propC02, "C02", func(o *Obligation) bool {
		return o.Rule == "C02.P2" && strings.HasPrefix(o.Construct, "pre-trigger write at")
	}, "L4")
	checkSettingsImmutable(w, r, "L1", "RecorderConfig:MinSecs|MaxSecs", "ThermalRecorder:MinSecs|MaxSecs", "Config:Recorder") // min-secs / max-secs reach the processor as configured
}

func storeOrdinal(st *ssa.Store) string {
	fa, _ := st.Addr.(*ssa.FieldAddr)
	n := 0
	for _, b := range st.Parent().Blocks {
		for _, in := range b.Instrs {
			if s2, ok := in.(*ssa.Store); ok {
				if fa2, ok := s2.Addr.(*ssa.FieldAddr); ok && fa != nil && fa2.Field == fa.Field {
					n++
					if s2 == st {
						return fmt.Sprint(n)
					}
				}
			}
		}
	}
	return "?"
}

// L5: RecorderConfig validation
func checkRecorderConfigValidation(w *World, r *Report, e *termEnv) {
	pkg := w.Pkg("recorder")
	T := w.NamedType("recorder", "RecorderConfig")
	if pkg == nil || T == nil {
		r.Unknown("L5", "recorder.RecorderConfig", "-", "type not found")
		return
	}
	max := "recorder.RecorderConfig.MaxSecs@recv:recorder.RecorderConfig"
	min := "recorder.RecorderConfig.MinSecs@recv:recorder.RecorderConfig"
	want := "lt(" + max + ", " + min + ")"
	// find a method of *RecorderConfig returning error whose non-nil return is guarded by exactly MaxSecs < MinSecs
	var validator *ssa.Function
	ms := w.Prog.MethodSets.MethodSet(types.NewPointer(T))
	for i := 0; i < ms.Len(); i++ {
		fn := w.Prog.MethodValue(ms.At(i))
		if fn == nil || len(fn.Blocks) == 0 || fn.Signature.Results().Len() != 1 {
			continue
		}
		paths, complete := enumPaths(newTermEnv(w), fn, 64)
		if !complete {
			continue
		}
		okAll, sawReject := true, false
		for _, p := range paths {
			rt := newTermEnv(w).termOf(p.Ret.Results[0]).String()
			reject := hasGuard(p.Conds, want)
			if reject {
				sawReject = true
				if rt == "nil" {
					okAll = false
				}
				if u, ok := p.Ret.Results[0].(*ssa.UnOp); ok {
					if g, ok := u.X.(*ssa.Global); ok && !sentinelError(g) {
						okAll = false // a package variable that is not provably a non-nil error
					}
				}
			} else if rt != "nil" && !hasGuard(p.Conds, "le("+min+", "+max+")") {
				// other rejections are fine
			}
		}
		if okAll && sawReject {
			validator = fn
		}
	}
	if validator == nil {
		r.Fail("L5", "RecorderConfig validation rejects max-secs < min-secs", "-", "no method of RecorderConfig returns an error on every path guarded by MaxSecs < MinSecs", "")
		return
	}
	r.Pass("L5", "RecorderConfig validation rejects max-secs < min-secs", w.Pos(validator.Pos()), validator.Name()+" returns non-nil whenever "+want)
	// NewConfig returns the validator's error
	found := false
	for _, mem := range pkg.Members {
		fn, ok := mem.(*ssa.Function)
		if !ok || fn.Signature.Results().Len() != 2 || !isPtrTo(fn.Signature.Results().At(0).Type(), T) {
			continue
		}
		if forwardsTo(fn) != nil {
			continue // a thin front of another constructor of the package: that one is checked
		}
		// every return with a non-nil config is dominated by "validator(...) == nil"
		okf := true
		saw := false
		for _, b := range fn.Blocks {
			ret, ok := b.Instrs[len(b.Instrs)-1].(*ssa.Return)
			if !ok {
				continue
			}
			if c0, isC := ret.Results[0].(*ssa.Const); isC && c0.Value == nil {
				continue
			}
			saw = true
			gs := e.guardsOf(b)
			has := false
			for _, g := range gs {
				s := g.String()
				if strings.HasPrefix(s, "eq(") && strings.Contains(s, "RecorderConfig."+validator.Name()+"(") {
					has = true
				}
				// the same on the instruction itself (the validator may be small enough to be unfolded in the term)
				if bo, ok := g.If.Cond.(*ssa.BinOp); ok && ((bo.Op == token.EQL && g.Pos) || (bo.Op == token.NEQ && !g.Pos)) {
					for _, pair := range [][2]ssa.Value{{bo.X, bo.Y}, {bo.Y, bo.X}} {
						c, isCall := pair[0].(*ssa.Call)
						k, isConst := pair[1].(*ssa.Const)
						if isCall && isConst && k.IsNil() && c.Call.StaticCallee() == validator {
							has = true
						}
					}
				}
			}
			if !has {
				okf = false
			}
		}
		if saw {
			found = true
			r.Check(okf, "L5", fn.Name()+" returns a config only when validation passed", w.Pos(fn.Pos()), "every non-nil config return is dominated by "+validator.Name()+"() == nil")
		}
	}
	r.Check(found, "G4", "a constructor of RecorderConfig exists", "-", "")
}

// ---------------------------------------------------------------------------------------
// C04

func propC04(w *World, r *Report) {
	r.Explanation = "Decided clause: (S1, only-if) every StartRecording on the motion sink is reached only in abstract states with the sink closed, motion detected on this frame, consecutive-motion counter >= trigger-frames, window.Active() true and CheckCanRecord() nil; (S2, if) every frame call with detected motion and a closed sink evaluates the trigger comparison, then the window, then the storage check, and attempts the start when all pass; (S3) the counter is incremented exactly on motion frames before the comparison and is zeroed only on motionless frames or after a real stop, never on a refusal, and IS zero whenever a call that stopped the recording returns; (S4) the limit is ThermalMotion.TriggerFrames and the refusal is strict '<'; (S5) CPTVFileRecorder.CheckCanRecord returns nil exactly on statfs ok and free MB >= MinDiskSpaceMB of OutputDir; (S6) the throttler forwards CheckCanRecord unchanged. Rule: decisions and ghosts of the typestate fix-point + path enumeration / normal forms of the disk check."
	r.RuleText = "obligation per (rule, construct)"
	r.Assumptions = []string{"the window library's clock arithmetic (boundaries, midnight) is a dependency and numeric: not decided", "file creation failure is the StartRecording error fork of the fix-point"}
	runs, roles, _, ok := commonMotionSetup(w, r)
	if !ok {
		return
	}
	run := runs.fault
	g3(r, run)
	c := runs.model.C
	if roles.Trig == "" || roles.TrigLabel == "" {
		r.Fail("S3", "consecutive-motion counter role", "-", "no counter is incremented exactly on frames with detected motion and compared with a limit: "+strings.Join(roles.Problems, "; "), "")
		return
	}
	r.Pass("S3", "consecutive-motion counter +1 exactly on motion frames", "-", "field "+roles.Trig+" is incremented iff detect=T in all exit contexts")
	// S1
	starts := eventsOfKind(run, "sink:StartRecording", roleMotion)
	for _, ev := range starts {
		okc, bad, _, n := allCtx([]*Event{ev}, func(cx *Ctx) bool {
			out, present := cx.Dec[roles.TrigLabel]
			return cx.Sinks[roleMotion] == 0 && cx.Dec["detect"] == 1 && present && relationOn(roles.TrigLabel, roles.Trig, out) == ">=" &&
				cx.Dec["window"] == 1 && cx.Dec["canrec:motion"] == 1
		})
		construct := "motion StartRecording at " + callOrdinal(ev.Instr, "StartRecording") + " only if closed ∧ motion ∧ run>=trigger ∧ window ∧ storage"
		if okc {
			r.Pass("S1", construct, w.InstrPos(ev.Instr), fmt.Sprintf("all %d contexts satisfy the five conditions", n))
		} else {
			r.Fail("S1", construct, w.InstrPos(ev.Instr), "a recording can start without one of: sink closed, motion on this frame, counter >= trigger-frames, window open, storage check passed: "+describeCtx(bad), bad.Trace)
		}
	}
	r.Check(len(starts) >= 1, "G4", "motion StartRecording has a call site", "-", fmt.Sprint(len(starts)))
	// S2
	var badT, badW, badC, badS *Ctx
	n := 0
	for _, cx := range exitCtxs(run) {
		if cx.Dec["detect"] != 1 || cx.Ghosts["openAtDetect"] != 0 {
			continue
		}
		if _, hasDetect := cx.Dec["detect"]; !hasDetect {
			continue
		}
		n++
		out, present := cx.Dec[roles.TrigLabel]
		if !present {
			if badT == nil {
				badT = cx
			}
			continue
		}
		if relationOn(roles.TrigLabel, roles.Trig, out) != ">=" {
			continue
		}
		win, present := cx.Dec["window"]
		if !present {
			if badW == nil {
				badW = cx
			}
			continue
		}
		if win != 1 {
			continue
		}
		can, present := cx.Dec["canrec:motion"]
		if !present {
			if badC == nil {
				badC = cx
			}
			continue
		}
		if can != 1 {
			continue
		}
		if cx.Ghosts["start:motion"] < 1 && badS == nil {
			badS = cx
		}
	}
	s2 := "motion ∧ closed ∧ run>=trigger ∧ window ∧ storage => start attempted on this frame"
	switch {
	case badT != nil:
		r.Fail("S2", s2, "-", "a motion frame with no recording open does not evaluate the trigger-frames comparison: "+describeCtx(badT), badT.Trace)
	case badW != nil:
		r.Fail("S2", s2, "-", "run >= trigger-frames but the recording window is not consulted (start refused for another reason): "+describeCtx(badW), badW.Trace)
	case badC != nil:
		r.Fail("S2", s2, "-", "window open but the storage check is not consulted (start refused for another reason): "+describeCtx(badC), badC.Trace)
	case badS != nil:
		r.Fail("S2", s2, "-", "all conditions hold but no start is attempted: "+describeCtx(badS), badS.Trace)
	default:
		r.Check(n > 0, "S2", s2, "-", fmt.Sprintf("%d exit contexts with motion and a closed sink", n))
	}
	// S3: increment before the comparison; zero stores
	dec := eventsOfKind(run, "dec:"+roles.TrigLabel, -1)
	okc, bad, ev, nn := allCtx(dec, func(cx *Ctx) bool { return cx.Ghosts["inc:"+roles.Trig] == 1 && cx.Dec["detect"] == 1 })
	if okc {
		r.Check(nn > 0, "S3", "trigger comparison evaluated after the increment, on motion frames only", "-", fmt.Sprintf("%d contexts", nn))
	} else {
		r.Fail("S3", "trigger comparison evaluated after the increment, on motion frames only", w.InstrPos(ev.Instr), describeCtx(bad), bad.Trace)
	}
	e := motionEnv(w, runs.model)
	fiTrig := fieldIndex(c.St, roles.Trig)
	TR := "motion.MotionProcessor." + roles.Trig + "@recv:motion.MotionProcessor"
	for _, st := range storesTo(c, roles.Trig) {
		t := e.termOf(st.Val).String()
		r.Check(t == "0" || t == tadd(tleaf(TR), tconst(1)).String(), "S3", "store to the consecutive-motion counter in "+st.Parent().Name()+" #"+storeOrdinal(st)+" is +1 or 0", w.InstrPos(st), "value: "+t)
	}
	for _, ev := range run.sortedEvents() {
		if ev.Kind != "store" || ev.Field != fiTrig || ev.Arg != "0" {
			continue
		}
		okc, bad, _, n := allCtx([]*Event{ev}, func(cx *Ctx) bool {
			d, has := cx.Dec["detect"]
			if has && d == 0 {
				return true
			}
			// while a recording is open the counter is not consulted, and the stop zeroes it anyway: zeroing it just
			// before the stop call is the same as just after it
			return cx.Ghosts["stop:motion"] >= 1 || cx.Sinks[roleMotion] == 1
		})
		construct := "counter zeroed only on a motionless frame or after a real stop: " + ev.Instr.Parent().Name()
		if okc {
			r.Pass("S3", construct, w.InstrPos(ev.Instr), fmt.Sprintf("%d contexts", n))
		} else {
			r.Fail("S3", construct, w.InstrPos(ev.Instr), "the consecutive-motion counter is reset on a refusal edge (a refused start would not be retried on the next motion frame): "+describeCtx(bad), bad.Trace)
		}
	}
	// S3c: a run of motion is counted from the end of the previous recording: whenever a call really stopped the motion
	// recording (at its length, on a rejected frame, on a camera reset, after a failure) the consecutive-motion counter
	// is zero when that call returns. Otherwise a recording cut while the motion goes on would be followed by one that
	// starts on a single motion frame instead of after trigger-frames of them.
	{
		name := "the consecutive-motion counter is zero when a call that stopped the recording returns"
		if !c.Counter[fiTrig] && c.Tracked[fiTrig] == tNone {
			r.Fail("S3", name, "-", "the consecutive-motion counter "+roles.Trig+" is never reset to the constant 0", "")
		} else {
			n := 0
			var bad *Ctx
			for _, cx := range exitCtxs(run) {
				if cx.Ghosts["stop:motion"] < 1 || cx.Sinks[roleMotion] != 0 {
					continue
				}
				n++
				zero := false
				if c.Counter[fiTrig] {
					zero = cx.Pers["nz:"+roles.Trig] == 0
				} else {
					zero = cx.Fields[roles.Trig] == "0"
				}
				if !zero && bad == nil {
					bad = cx
				}
			}
			if bad != nil {
				r.Fail("S3", name, "-", "a call ends the motion recording and returns with "+roles.Trig+" still holding the motion run counted during that recording (the next recording would start before trigger-frames new motion frames): "+describeCtx(bad), bad.Trace)
			} else {
				r.Check(n > 0, "S3", name, "-", fmt.Sprintf("%d exit contexts over all failure placements", n))
			}
		}
	}
	// "... and the file can be created": what the recorder writes into the header at a start is built from what it was
	// given for THIS start (a text that grows from start to start exceeds the container's field limit after a few
	// recordings, and every later start fails although motion, window and disk are fine)
	linkObligations(w, r, propC11, "C11", func(o *Obligation) bool {
		return o.Rule == "C11.H1" && strings.Contains(o.Construct, "header.MotionConfig at start")
	}, "S2")
	// S4
	cl, _ := parseCmpLabel(roles.TrigLabel)
	lim := strings.TrimPrefix(roles.TrigLimit, "f:")
	limTerm := ""
	if fi := fieldIndex(c.St, lim); fi >= 0 {
		ci := e.recvOf[c.T]
		if !ci.Mutable[fi] && ci.Stores[fi] != nil {
			limTerm = ci.Stores[fi].String()
		}
	}
	r.Check(limTerm == leafTrigger, "S4", "trigger limit is ThermalMotion.TriggerFrames", "-", "limit field "+lim+" <- "+limTerm)
	r.Check(relationOn(roles.TrigLabel, roles.Trig, 1) == "<" || relationOn(roles.TrigLabel, roles.Trig, 0) == "<", "S4", "refusal is strict: counter < trigger-frames", "-", cl.Raw)
	checkDiskGate(w, r)
	// S7: the window that is consulted is the configured one
	{
		ce := newTermEnv(w)
		ci := ce.useCtor(c.T, c.Ctor)
		got := "<unset>"
		if t := ci.Stores[runs.model.winFld]; t != nil {
			got = t.String()
		}
		reassigned := len(storesTo(c, c.fieldName(runs.model.winFld))) > 0
		if t := ci.Stores[runs.model.winFld]; t == nil {
			// a wrapper struct around the window: the store goes into the wrapper's window field
			for _, b := range c.Ctor.Blocks {
				for _, in := range b.Instrs {
					st, ok := in.(*ssa.Store)
					if !ok {
						continue
					}
					if inner, ok := st.Addr.(*ssa.FieldAddr); ok && typeIs(st.Val.Type(), "github.com/TheCacophonyProject/window", "Window") {
						if outer, ok := inner.X.(*ssa.FieldAddr); ok && outer.Field == runs.model.winFld && isPtrTo(outer.X.Type(), c.T) {
							got = "wrapper{" + ce.termOf(st.Val).String() + "}"
						}
					}
				}
			}
		}
		const confWin = "recorder.RecorderConfig.Window@param:recorder.RecorderConfig"
		seenObs := map[ssa.Instruction]bool{}
		wrapped := !typeIs(c.St.Field(runs.model.winFld).Type(), "github.com/TheCacophonyProject/window", "Window")
		// the state of the window is looked up when it is consulted: window.Window.Active itself, or a wrapper every
		// path of which calls it (a remembered answer would be stale by the time a recording is started)
		nObs := 0
		for _, run := range []*tsRun{runs.nofault, runs.fault} {
			for _, ev := range eventsOfKind(run, "obs:window", -1) {
				ci, ok := ev.Instr.(ssa.CallInstruction)
				if !ok || seenObs[ev.Instr] {
					continue
				}
				seenObs[ev.Instr] = true
				nObs++
				callee := ci.Common().StaticCallee()
				fresh, how := callee != nil && callee.Pkg != nil && callee.Pkg.Pkg.Path() == "github.com/TheCacophonyProject/window", "window.Window.Active"
				if callee != nil && !fresh && len(callee.Blocks) > 0 {
					fresh, how = !returnsWithout(callee, func(in ssa.Instruction) bool {
						c, ok := in.(ssa.CallInstruction)
						if !ok {
							return false
						}
						cc := c.Common().StaticCallee()
						return cc != nil && cc.Name() == "Active" && cc.Pkg != nil && cc.Pkg.Pkg.Path() == "github.com/TheCacophonyProject/window"
					}), "wrapper "+callee.String()
				}
				r.Check(fresh, "S7", "the window is consulted afresh at "+w.InstrPos(ev.Instr)+" (window.Window.Active on every path of the call)", w.InstrPos(ev.Instr), how)
			}
		}
		r.Check(nObs >= 1, "S7", "the window is consulted", "-", fmt.Sprint(nObs))
		r.Check((got == confWin || wrapped && strings.Contains(got, confWin)) && !reassigned, "S7", "the processor consults the recording window of its recorder configuration (never reassigned)", w.Pos(c.Ctor.Pos()), got)
		if nc := w.LoaderFunc("recorder", "NewConfig"); nc != nil {
			we := newTermEnv(w)
			we.valueHelpers = true // the window may be built in an extracted helper that is handed the two sections
			ws := storesInto(w, we, nc, modPath+"/recorder", "RecorderConfig")["Window"]
			okW := len(ws) == 1 && strings.Contains(ws[0], "window.New(config.Windows.StartRecording@alloc:config.Windows, config.Windows.StopRecording@alloc:config.Windows, config.Location.Latitude@alloc:config.Location, config.Location.Longitude@alloc:config.Location)")
			r.Check(okW, "S7", "the window is built from windows.start-recording, windows.stop-recording (in this order) and the location", w.Pos(nc.Pos()), strings.Join(ws, " | "))
		} else {
			r.Unknown("S7", "recorder.NewConfig", "-", "not found")
		}
	}
	checkSettingsImmutable(w, r, "S7", "RecorderConfig:Window", "ThermalRecorder:MinDiskSpaceMB", "Windows", "Location", "Config:Recorder|MinDiskSpace|Motion", "ThermalMotion:TriggerFrames") // window and min-disk-space as configured
}

var statfsBase = regexp.MustCompile(`(syscall\.Statfs_t\.[A-Za-z]+)@[^*,() ]+`)

// S5 / S6
func checkDiskGate(w *World, r *Report) {
	// S6 (start through the throttler): a refused start must reach the processor, or the throttler would open the file
	// later on a frame that passed none of the four start conditions
	if tr, err := getThrottleRuns(w); err == nil {
		checkThrottleStartFailureSurfaces(w, r, tr, "S6")
	} else {
		r.Unknown("S6", "throttle start failure", "-", err.Error())
	}
	e := newTermEnv(w)
	rec := recorderIface(w)
	// S6: wrappers forward CheckCanRecord
	thr := w.Func("throttle", "ThrottledRecorder.CheckCanRecord")
	if thr == nil {
		r.Unknown("S6", "ThrottledRecorder.CheckCanRecord", "-", "method not found")
	} else {
		paths, complete := enumPaths(e, thr, 16)
		okf := complete && len(paths) == 1
		detail := ""
		if okf {
			ret := paths[0].Ret.Results[0]
			call, isCall := ret.(*ssa.Call)
			okf = isCall && call.Call.IsInvoke() && call.Call.Method.Name() == "CheckCanRecord" && types.Identical(call.Call.Value.Type(), rec)
			detail = e.termOf(ret).String()
		}
		r.Check(okf, "S6", "throttler forwards CheckCanRecord of the wrapped recorder unchanged", w.Pos(thr.Pos()), detail)
	}
	// S5
	fn := w.Func("cmd/thermal-recorder", "CPTVFileRecorder.CheckCanRecord")
	if fn == nil {
		r.Unknown("S5", "CPTVFileRecorder.CheckCanRecord", "-", "method not found")
		return
	}
	T := w.NamedType("cmd/thermal-recorder", "CPTVFileRecorder")
	ctor := w.ctorOf(T)
	if T == nil || ctor == nil {
		r.Unknown("S5", "CPTVFileRecorder", "-", "type or constructor not found")
		return
	}
	e.useCtor(T, ctor)
	// the verdict is taken afresh on every call: no path returns without having asked the disk helper (a remembered
	// verdict would let a start through after the disk filled up, or refuse one after space was freed)
	{
		isDiskHelper := func(in ssa.Instruction) bool {
			c, ok := in.(*ssa.Call)
			if !ok {
				return false
			}
			h := c.Call.StaticCallee()
			if h == nil || h.Pkg != fn.Pkg {
				return false
			}
			res := h.Signature.Results()
			if res.Len() != 2 {
				return false
			}
			bt, ok := res.At(0).Type().Underlying().(*types.Basic)
			return ok && bt.Kind() == types.Bool && res.At(1).Type().String() == "error"
		}
		r.Check(!returnsWithout(fn, isDiskHelper), "S5", "CheckCanRecord asks the disk helper on every call (no remembered verdict)", w.Pos(fn.Pos()), "")
	}
	paths, complete := enumPaths(e, fn, 64)
	if !complete {
		r.Unknown("S5", "CPTVFileRecorder.CheckCanRecord", w.Pos(fn.Pos()), "function has loops: path enumeration incomplete")
		return
	}
	var helper *ssa.Call
	nilPaths := 0
	for _, p := range paths {
		if e.termOf(p.Ret.Results[0]).String() != "nil" {
			// a return that is not the constant nil: it must be an error for sure (a call whose result may be nil -
			// "create the directory and carry on" - lets a start through without the space having been compared)
			if !provablyNonNilError(e, p.Ret.Block(), p.Ret.Results[0]) && !pathOnNonNilEdge(p, p.Ret.Results[0]) {
				r.Fail("S5", "CheckCanRecord returns nil only if the disk check reports no error and enough space", w.InstrPos(p.Ret), "a path returns "+p.Term(e, p.Ret.Results[0]).String()+", which may be nil, without the free space having been compared", "")
			}
			continue
		}
		nilPaths++
		// the success path must have tested: helper error == nil and helper verdict true
		var errOK, verdictOK bool
		for _, g := range p.Conds {
			t, pos := g.Cond, g.Pos
			for t.Op == "not" && len(t.Args) == 1 {
				t, pos = t.Args[0], !pos // "case !enough:" not taken is "enough" taken
			}
			if pos && t.Op == "eq" || !pos && t.Op == "ne" {
				for _, a := range t.Args {
					if a.Op == "extract" && a.Name == "#1" {
						errOK = true
					}
				}
			}
			if t.Op == "extract" && t.Name == "#0" && pos {
				verdictOK = true
			}
			cv := g.If.Cond
			for {
				if u, isU := cv.(*ssa.UnOp); isU && u.Op == token.NOT {
					cv = u.X
					continue
				}
				break
			}
			if ex, ok := cv.(*ssa.Extract); ok {
				if c, ok := ex.Tuple.(*ssa.Call); ok {
					helper = c
				}
			}
		}
		r.Check(errOK && verdictOK, "S5", "CheckCanRecord returns nil only if the disk check reports no error and enough space", w.InstrPos(p.Ret), strings.Join(guardStrings(p.Conds), " ; "))
	}
	r.Check(nilPaths >= 1, "G4", "CheckCanRecord has a success path", "-", fmt.Sprint(nilPaths))
	if helper == nil || helper.Call.StaticCallee() == nil {
		r.Unknown("S5", "disk space helper", w.Pos(fn.Pos()), "could not identify the helper whose (verdict, error) result gates CheckCanRecord")
		return
	}
	h := helper.Call.StaticCallee()
	// arguments: the configured minimum and a directory rooted in the output directory
	var mbIdx, dirIdx = -1, -1
	for i, p := range h.Params {
		if isInteger(p.Type()) {
			mbIdx = i
		} else if bt, ok := p.Type().Underlying().(*types.Basic); ok && bt.Info()&types.IsString != 0 {
			dirIdx = i
		}
	}
	if mbIdx < 0 || dirIdx < 0 {
		r.Unknown("S5", "disk space helper", w.Pos(h.Pos()), "helper does not take (minimum MB, directory)")
		return
	}
	mbArg := e.termOf(helper.Call.Args[mbIdx]).String()
	r.Check(mbArg == "main.Config.MinDiskSpace@param:main.Config", "S5", "the minimum passed to the disk check is Config.MinDiskSpace", w.InstrPos(helper), mbArg)
	// directory: every value the field can hold is rooted in Config.OutputDir
	dirT := e.termOf(helper.Call.Args[dirIdx])
	dirOK := false
	detail := dirT.String()
	if strings.HasPrefix(dirT.String(), "main.CPTVFileRecorder.") {
		fname := strings.TrimSuffix(strings.TrimPrefix(dirT.String(), "main.CPTVFileRecorder."), "@recv:main.CPTVFileRecorder")
		ci := e.recvOf[T]
		fi := fieldIndex(T.Underlying().(*types.Struct), fname)
		dirOK = fi >= 0 && ci.Stores[fi] != nil && ci.Stores[fi].String() == "main.Config.OutputDir@param:main.Config"
		detail += " ; constructor: " + fmt.Sprint(ci.Stores[fi])
		for fnx := range w.AllFuncs {
			for _, b := range fnx.Blocks {
				for _, in := range b.Instrs {
					if st, ok := in.(*ssa.Store); ok && fnx != ctor {
						if fa, ok := st.Addr.(*ssa.FieldAddr); ok && isPtrTo(fa.X.Type(), T) && fa.Field == fi {
							t := newTermEnv(w).termOf(st.Val).String()
							detail += " ; " + fnx.Name() + ": " + t
							if !(strings.HasPrefix(t, "path.Join(") || strings.HasPrefix(t, "path/filepath.Join(")) || !strings.Contains(t, dirT.String()) {
								dirOK = false
							}
						}
					}
				}
			}
		}
	} else {
		dirOK = dirT.String() == "main.Config.OutputDir@param:main.Config"
	}
	r.Check(dirOK, "S5", "the checked directory is the output directory (or a sub-folder of it)", w.InstrPos(helper), detail)
	// the helper itself
	he := newTermEnv(w)
	he.valueHelpers = true // the statistics may be read and turned into megabytes by small helpers
	hpaths, hcomplete := enumPaths(he, h, 64)
	if !hcomplete {
		r.Unknown("S5", "disk space helper "+h.Name(), w.Pos(h.Pos()), "helper has loops")
		return
	}
	mbLeaf := he.termOf(h.Params[mbIdx]).String()
	okPaths := 0
	for _, p := range hpaths {
		verdict := he.termOf(p.Ret.Results[0])
		errT := he.termOf(p.Ret.Results[1]).String()
		statOK := false
		for _, g := range p.Conds {
			s := g.String()
			if strings.HasPrefix(s, "eq(") && strings.Contains(s, "syscall.Statfs(") {
				statOK = true
			}
		}
		if !statOK {
			r.Check(verdict.String() == "false" && errT != "nil", "S5", "disk helper: a failing statfs yields (false, error)", w.InstrPos(p.Ret), verdict.String()+", "+errT)
			continue
		}
		okPaths++
		want := "le(" + mbLeaf + ", div(div(syscall.Statfs_t.Bavail@statfs*syscall.Statfs_t.Bsize@statfs, 1024), 1024))"
		// the statistics structure may be a local or sit inside a small wrapper value: compared modulo where it lives
		gotV := statfsBase.ReplaceAllString(verdict.String(), "$1@statfs")
		r.Check(gotV == want && errT == "nil", "S5", "disk helper: verdict is free MB >= minimum (non-strict), MB = Bavail*Bsize/1024/1024", w.InstrPos(p.Ret), verdict.String())
	}
	r.Check(okPaths >= 1, "G4", "disk helper has a statfs-ok path", "-", fmt.Sprint(okPaths))
	// provenance of MinDiskSpace from go-config
	pc := w.Func("cmd/thermal-recorder", "ParseConfig")
	if pc != nil {
		okp := false
		ee := newTermEnv(w)
		for _, b := range pc.Blocks {
			for _, in := range b.Instrs {
				if st, ok := in.(*ssa.Store); ok {
					if fa, ok := st.Addr.(*ssa.FieldAddr); ok && structOf(fa.X.Type()) != nil && structOf(fa.X.Type()).Field(fa.Field).Name() == "MinDiskSpace" {
						t := ee.termOf(st.Val).String()
						okp = strings.HasPrefix(t, "config.ThermalRecorder.MinDiskSpaceMB@")
						r.Check(okp, "S5", "Config.MinDiskSpace <- thermal-recorder.min-disk-space-mb", w.InstrPos(st), t)
					}
				}
			}
		}
		if !okp {
			r.Floor("S5", 4)
		}
	}
}

// ---------------------------------------------------------------------------------------
// C13 (B2, B3, B4; B1 in prop_parsers.go)

func propC13(w *World, r *Report) {
	r.Explanation = "Decided clause: (B1) both raw-frame parsers return *lepton3.BadFrameErr exactly for a zero pixel outside the edge border, reading 2 bytes per pixel in row-major order, big-endian (Lepton) vs little-endian (Boson); (B2) on the parse-error edge of Process, in every reachable state: the ring is not advanced, the detector is not run, no sink receives a frame, the motion recording is closed at exit and the parser's error is returned unchanged; (B3) the parse destination is the ring's current slot, which stays unrecorded; (B4) handleConn's frame loop does not leave on a Process error, recognises *lepton3.BadFrameErr and asks the camera daemon to restart. Rule: typestate fix-point with the parse outcome as a tracked decision + normal forms of the parser predicates + loop/guard analysis of handleConn. Also (B2) no frame-writing step of the raw-frame entry is deferred or handed to a goroutine."
	r.RuleText = "obligation per (rule, construct)"
	r.Assumptions = []string{"Lepton telemetry decoding is a dependency and data-dependent: not decided", "pixel-exact decoding is decided as 'each pixel is the 16-bit word at its row-major offset' (B1), not by running the decoder"}
	runs, _, _, ok := commonMotionSetup(w, r)
	if !ok {
		return
	}
	run := runs.fault
	checkNoDeferredFrameWork(w, r, "B2")
	g3(r, run)
	// B2
	kinds := map[string]string{"ring:Move": "ring advanced", "obs:detect": "detector run", "sink:WriteFrame": "frame written to a sink", "sink:StartRecording": "recording started"}
	var ks []string
	for k := range kinds {
		ks = append(ks, k)
	}
	sort.Strings(ks)
	for _, k := range ks {
		evs := eventsOfKind(run, k, -1)
		okc, bad, ev, n := allCtx(evs, func(cx *Ctx) bool {
			p, has := cx.Dec["parse"]
			return !has || p == 1
		})
		construct := "bad frame: never " + kinds[k]
		if okc {
			r.Check(n > 0, "B2", construct, "-", fmt.Sprintf("%d contexts of %s, none on the parse-error edge", n, k))
		} else {
			r.Fail("B2", construct, w.InstrPos(ev.Instr), "after a rejected frame: "+kinds[k]+": "+describeCtx(bad), bad.Trace)
		}
	}
	var badOpen, badRet *Ctx
	n := 0
	for _, cx := range exitCtxs(run) {
		if p, has := cx.Dec["parse"]; !has || p != 0 {
			continue
		}
		n++
		if cx.Sinks[roleMotion] != 0 && badOpen == nil {
			badOpen = cx
		}
		if cx.Ghosts["ret:parse-err"] != 1 && badRet == nil {
			badRet = cx
		}
	}
	if badOpen != nil {
		r.Fail("B2", "bad frame: motion recording closed at exit", "-", "a rejected frame leaves the motion recording open: "+describeCtx(badOpen), badOpen.Trace)
	} else {
		r.Check(n > 0, "B2", "bad frame: motion recording closed at exit", "-", fmt.Sprintf("%d exit contexts on the parse-error edge", n))
	}
	// the processor itself must know the recording is over (also when the recorder's stop reports an error): the flag
	// that mirrors the motion sink in fault-free operation is clear after every rejected frame
	if inv := inferSinkInvariant(runs.nofault); inv[roleMotion].field >= 0 {
		fname := run.C.fieldName(inv[roleMotion].field)
		var badFlag *Ctx
		for _, cx := range exitCtxs(run) {
			if p, has := cx.Dec["parse"]; !has || p != 0 {
				continue
			}
			if v := cx.Fields[fname]; v != "false" && v != "0" && badFlag == nil {
				badFlag = cx
			}
		}
		if badFlag != nil {
			r.Fail("B2", "bad frame: the processor no longer considers itself recording ("+fname+" clear)", "-", "after a rejected frame the recording is closed but the processor still believes it is recording (the following frames go to a closed file and no new recording can start): "+describeCtx(badFlag), badFlag.Trace)
		} else {
			r.Check(n > 0, "B2", "bad frame: the processor no longer considers itself recording ("+fname+" clear)", "-", fmt.Sprintf("%d exit contexts over all failure placements", n))
		}
	} else {
		r.Unknown("B2", "bad frame: the processor no longer considers itself recording", "-", "no flag mirrors the motion sink in fault-free operation")
	}
	if badRet != nil {
		r.Fail("B2", "bad frame: the parser's error is returned unchanged", "-", "Process does not return the parser's error on the parse-error edge: "+describeCtx(badRet), badRet.Trace)
	} else {
		r.Check(n > 0, "B2", "bad frame: the parser's error is returned unchanged", "-", fmt.Sprintf("%d exit contexts", n))
	}
	// ... and so do the continuous and test recordings: whatever the stop forced by a bad frame returns, their
	// bookkeeping agrees with the sink afterwards (the next good frame opens a new file instead of writing to a closed one)
	checkSinkBookkeeping(w, r, runs.fault, "B2", roleContinuous, roleTest)
	checkStopToleratesClosed(w, r, "B2") // the bad-frame path stops the continuous recorder whether or not a file is open
	// B3
	ps := eventsOfKind(run, "obs:parse", -1)
	for _, ev := range ps {
		r.Check(ev.Arg == "dst=cur", "B3", "raw frame is parsed into the ring's current slot at "+callOrdinal(ev.Instr, ""), w.InstrPos(ev.Instr), ev.Arg)
		okc, bad, _, nn := allCtx([]*Event{ev}, func(cx *Ctx) bool { return cx.Pers["slot"] == 0 && cx.Ghosts["moved"] == 0 })
		if okc {
			r.Pass("B3", "parse happens before the ring advances, on an unrecorded slot", w.InstrPos(ev.Instr), fmt.Sprintf("%d contexts", nn))
		} else {
			r.Fail("B3", "parse happens before the ring advances, on an unrecorded slot", w.InstrPos(ev.Instr), describeCtx(bad), bad.Trace)
		}
	}
	r.Check(len(ps) >= 1, "G4", "a parse call site exists", "-", fmt.Sprint(len(ps)))
	checkParsers(w, r, "B1")
	checkParserEdgeArg(w, r, "B1")
	checkHandleConnBadFrame(w, r)
	checkSettingsImmutable(w, r, "B1", "ThermalMotion:EdgePixels", "Config:Motion") // the border the parsers tolerate zeros in is the configured edge-pixels
	checkRingAdvancesOncePerFrame(w, r, runs, "B3", false, true)
	// "ends the motion recording in progress with a cleanly closed file": the file the bad frame closed keeps a name of
	// its own - a recording re-triggered within the same second must not be renamed over it
	linkObligations(w, r, propC10, "C10", func(o *Obligation) bool { return strings.Contains(o.Construct, "sub-second resolution") }, "B2")
	// ... also when the motion sink is the throttled recorder: what the processor stops is what the throttler has open
	// (a flag cleared before its own stop call makes every later stop a no-op: the file is never finished)
	linkObligations(w, r, propC06, "C06", func(o *Obligation) bool {
		return o.Rule == "C06.X1" && strings.Contains(o.Construct, "recording flag <=> wrapped file open")
	}, "B2")
}

// ---------------------------------------------------------------------------------------
// C17

func propC17(w *World, r *Report) {
	r.Explanation = "Decided clause (fault-free fix-point): (V1) with the continuous sink present every successfully parsed frame is written to it exactly once per Process call in every reachable state (independent of motion, window, throttle decisions); (V2) a file's frame count starts at 0 when it opens, +1 per write, the file is closed when count > K evaluated after the increment, then count=0, with K = MaxSecs*FPS (continuous) and K = 20 (test) => K+1 frames per file, and a new continuous file opens on the very next frame; (V3) the frame call that consumes a test-recording request starts the test file and writes that frame, and a test file is started only by a call that took the request flag from requested to idle; (V4) the continuous/test paths do not modify the state of the motion path; (V5) the continuous and test sinks are wired as bare file recorders, never throttled, the continuous one switched into constant-recorder mode (flag set to true, folder set, on every path). Rule: typestate fix-point (counters as signs, decisions on counter comparisons) + normal forms. Also (V3) the frame call that consumes a request leaves the request flag idle, also when the start fails."
	r.RuleText = "obligation per (rule, construct)"
	r.Assumptions = []string{"fault paths of these sinks are decided by C12", "overlapping test-recording requests are served by the recording in progress (the statement quantifies over non-overlapping requests)"}
	runs, _, roles, ok := commonMotionSetup(w, r)
	if !ok {
		return
	}
	run := runs.nofault
	g3(r, run)
	c := runs.model.C
	e := motionEnv(w, runs.model)
	// V1
	var bad *Ctx
	n := 0
	for _, cx := range exitCtxs(run, "Process") {
		if cx.Dec["parse"] != 1 || cx.Present[roleContinuous] != 1 {
			continue
		}
		n++
		if !(cx.Ghosts["wcur:continuous"] == 1 && cx.Ghosts["wother:continuous"] == 0) && bad == nil {
			bad = cx
		}
	}
	if bad != nil {
		r.Fail("V1", "every parsed frame written exactly once to the continuous sink", "-", "a successfully parsed frame is written 0 or 2+ times to the continuous recorder: "+describeCtx(bad), bad.Trace)
	} else {
		r.Check(n > 0, "V1", "every parsed frame written exactly once to the continuous sink", "-", fmt.Sprintf("%d exit contexts of Process with parse ok and the continuous sink present", n))
	}
	// ... and while a test recording is open it receives every accepted frame, once: a frame call that ends with the
	// test file open, or that closed it, has written its frame to it ("21 CONSECUTIVE frames", whatever the motion
	// recording does on that frame)
	{
		var badT *Ctx
		nT := 0
		for _, cx := range exitCtxs(run, "Process") {
			if cx.Dec["parse"] != 1 || cx.Present[roleTest] != 1 {
				continue
			}
			if cx.Sinks[roleTest] != 1 && cx.Ghosts["stop:test"] < 1 {
				continue
			}
			nT++
			if !(cx.Ghosts["wcur:test"] == 1 && cx.Ghosts["wother:test"] == 0) && badT == nil {
				badT = cx
			}
		}
		if badT != nil {
			r.Fail("V1", "while a test recording is open every parsed frame is written to it exactly once", "-", "a frame call leaves the test recording open (or closes it) without having written its frame to it: "+describeCtx(badT), badT.Trace)
		} else {
			r.Check(nT > 0, "V1", "while a test recording is open every parsed frame is written to it exactly once", "-", fmt.Sprintf("%d exit contexts", nT))
		}
	}
	// V2 for both auxiliary sinks
	type aux struct {
		role         int
		count, label string
		limit        string
		wantK        string
	}
	K := tmul(tleaf(leafFPS), tleaf(leafMaxSecs)).String()
	for _, a := range []aux{{roleContinuous, roles.CRCount, roles.CRLabel, roles.CRLimit, K}, {roleTest, roles.SNCount, roles.SNLabel, roles.SNLimit, "20"}} {
		rn := c.RoleNames[a.role]
		if a.count == "" || a.label == "" {
			r.Fail("V2", rn+": per-file frame counter", "-", "no counter is incremented exactly once per frame written to the "+rn+" sink and compared with a limit: "+strings.Join(roles.Problems, "; "), "")
			continue
		}
		// limit normal form
		lim := a.limit
		limTerm := strings.TrimPrefix(lim, "c:")
		if strings.HasPrefix(lim, "f:") {
			fi := fieldIndex(c.St, strings.TrimPrefix(lim, "f:"))
			ci := e.recvOf[c.T]
			if fi >= 0 && !ci.Mutable[fi] && ci.Stores[fi] != nil {
				limTerm = ci.Stores[fi].String()
			}
		}
		r.Check(limTerm == a.wantK, "V2", rn+": file limit K", "-", "K = "+limTerm+" (want "+a.wantK+")")
		// starts with count 0
		starts := eventsOfKind(run, "sink:StartRecording", a.role)
		okc, badc, ev, nn := allCtx(starts, func(cx *Ctx) bool { return cx.Fields[a.count] == "0" })
		if okc {
			r.Check(nn > 0, "V2", rn+": count is 0 when a file opens", "-", fmt.Sprintf("%d contexts", nn))
		} else {
			r.Fail("V2", rn+": count is 0 when a file opens", w.InstrPos(ev.Instr), describeCtx(badc), badc.Trace)
		}
		// decision after increment; stop iff count > K
		dec := eventsOfKind(run, "dec:"+a.label, -1)
		okc, badc, ev, nn = allCtx(dec, func(cx *Ctx) bool {
			return cx.Ghosts["inc:"+a.count] == 1 && cx.Ghosts["wcur:"+rn] == 1
		})
		if okc {
			r.Check(nn > 0, "V2", rn+": limit tested after the write and the increment", "-", fmt.Sprintf("%d contexts", nn))
		} else {
			r.Fail("V2", rn+": limit tested after the write and the increment", w.InstrPos(ev.Instr), describeCtx(badc), badc.Trace)
		}
		// the file is closed nowhere else: only when the limit is exceeded, or (continuous) on a rejected frame —
		// never by a camera reset, a motion event or a test-recording request
		stops := eventsOfKind(run, "sink:StopRecording", a.role)
		for _, ev := range stops {
			okc, badc, _, nn := allCtx([]*Event{ev}, func(cx *Ctx) bool {
				if out, present := cx.Dec[a.label]; present && relationOn(a.label, a.count, out) == ">" {
					return true
				}
				p, has := cx.Dec["parse"]
				return has && p == 0 && cx.Sinks[a.role] == 1 || cx.Sinks[a.role] == 0
			})
			construct := rn + ": StopRecording at " + callOrdinal(ev.Instr, "StopRecording") + " closes an open file only when the limit is exceeded or a frame was rejected"
			if okc {
				r.Pass("V2", construct, w.InstrPos(ev.Instr), fmt.Sprintf("%d contexts", nn))
			} else {
				r.Fail("V2", construct, w.InstrPos(ev.Instr), "a "+rn+" file is cut short (closed before it holds K+1 frames) by something other than a rejected frame: "+describeCtx(badc), badc.Trace)
			}
		}
		var b1, b2, b3 *Ctx
		m := 0
		for _, cx := range exitCtxs(run, "Process") {
			if cx.Ghosts["wcur:"+rn] != 1 {
				continue
			}
			out, present := cx.Dec[a.label]
			if !present {
				if b3 == nil {
					b3 = cx
				}
				continue
			}
			m++
			rel := relationOn(a.label, a.count, out)
			stopped := cx.Ghosts["stop:"+rn] >= 1
			switch rel {
			case ">":
				if (!stopped || cx.Fields[a.count] != "0" || cx.Sinks[a.role] != 0) && b1 == nil {
					b1 = cx
				}
			case "<=":
				if (stopped || cx.Sinks[a.role] != 1) && b2 == nil {
					b2 = cx
				}
			default:
				if b1 == nil {
					b1 = cx
				}
			}
		}
		name := rn + ": file closed and count reset exactly when count > K (K+1 frames per file)"
		switch {
		case b1 != nil:
			r.Fail("V2", name, "-", "the comparison is not 'count > K' (strict) or the close/reset is skipped when it holds: "+describeCtx(b1), b1.Trace)
		case b2 != nil:
			r.Fail("V2", name, "-", "the file is closed although count <= K: "+describeCtx(b2), b2.Trace)
		case b3 != nil:
			r.Fail("V2", name, "-", "a frame is written without testing the file limit: "+describeCtx(b3), b3.Trace)
		default:
			r.Check(m > 0, "V2", name, "-", fmt.Sprintf("decision '%s' in %d exit contexts", a.label, m))
		}
	}
	checkCounterWidths(w, r, c, "V2")
	// V3
	var reqField string
	for fi, k := range c.Tracked {
		if k == tEnum {
			reqField = c.fieldName(fi)
		}
	}
	var b *Ctx
	m := 0
	for _, cx := range exitCtxs(run, "Process") {
		if cx.Ghosts["cas:"+reqField] != 1 {
			continue
		}
		m++
		// either a recording was already open (request served by it) or one is started and the frame written
		if cx.Ghosts["start:test"] >= 1 {
			if !(cx.Ghosts["opened:test"] == 1 && cx.Ghosts["wcur:test"] == 1) && b == nil {
				b = cx
			}
		} else if cx.Ghosts["wcur:test"] != 1 && b == nil {
			b = cx
		}
	}
	if b != nil {
		r.Fail("V3", "the frame call that consumes a request starts the test file and writes that frame", "-", describeCtx(b), b.Trace)
	} else {
		r.Check(m > 0, "V3", "the frame call that consumes a request starts the test file and writes that frame", "-", fmt.Sprintf("%d exit contexts consuming a request (flag %s)", m, reqField))
	}
	// ... and only a request starts one: every start of the test file happens in a call that took the request flag from
	// "requested" (the non-zero value the request method stores) back to idle (0) - the compare-and-swap the other way
	// round would start a test recording on every frame nobody asked for
	{
		var bs *Ctx
		ns := 0
		for _, ev := range eventsOfKind(run, "sink:StartRecording", roleTest) {
			for _, cx := range ev.Ctxs {
				ns++
				if !(cx.Ghosts["cas:"+reqField] == 1 && cx.Ghosts["casfrom:"+reqField] != 0 && cx.Ghosts["casto:"+reqField] == 0) && bs == nil {
					bs = cx
				}
			}
		}
		if bs != nil {
			r.Fail("V3", "a test recording is started only by a pending request (flag taken from requested to idle)", "-", describeCtx(bs), bs.Trace)
		} else {
			r.Check(ns > 0, "V3", "a test recording is started only by a pending request (flag taken from requested to idle)", "-", fmt.Sprintf("%d start contexts", ns))
		}
	}
	// ... and a request is consumed once: the frame call that took the flag to idle leaves it idle, whether or not the
	// start succeeded - a processor that re-raises its own request repeats the attempt (and its two log lines, which
	// alternate and so are never suppressed) on every frame for as long as the start fails
	{
		var br *Ctx
		nr := 0
		for _, rr := range []*tsRun{runs.nofault, runs.fault} {
			for _, cx := range exitCtxs(rr, "Process") {
				if cx.Ghosts["cas:"+reqField] != 1 {
					continue
				}
				nr++
				if v := cx.Fields[reqField]; v != "0" && br == nil {
					br = cx
				}
			}
		}
		name := "the frame call that consumes a request leaves the request flag idle (also when the start fails)"
		if br != nil {
			r.Fail("V3", name, "-", "flag "+reqField+" is not idle when the call returns: "+describeCtx(br), br.Trace)
		} else {
			r.Check(nr > 0, "V3", name, "-", fmt.Sprintf("%d exit contexts consuming a request", nr))
		}
	}
	checkAuxIndependence(w, r, runs, roles)
	checkAuxWiring(w, r, runs)
	checkCleanupOnlyAtStartup(w, r, "V4") // no recorder unlinks the in-progress file of the continuous / test recording
	checkSinksDistinct(w, r, runs, "V4")  // the continuous and test recordings have recorders of their own
	if start, ops := recorderFileOps(w); start != nil {
		// ... and files of their own: two recordings started within one second must not share a name
		checkTempNameStamp(w, r, "V4", start, ops)
	} else {
		r.Unknown("V4", "CPTVFileRecorder.StartRecording", "-", "not found")
	}
	checkSinkBookkeeping(w, r, runs.fault, "V3", roleContinuous, roleTest) // a failed start / stop of an auxiliary recording leaves its bookkeeping consistent
}

// V4: functions that drive the continuous/test sinks store only to fields that the motion path never reads or writes.
func checkAuxIndependence(w *World, r *Report, runs *motionRuns, roles *motionRoles) {
	c := runs.model.C
	run := runs.nofault
	fnRoles := map[*ssa.Function]map[int]bool{}
	for _, ev := range run.sortedEvents() {
		if strings.HasPrefix(ev.Kind, "sink:") && ev.Instr != nil {
			fn := ev.Instr.Parent()
			if fnRoles[fn] == nil {
				fnRoles[fn] = map[int]bool{}
			}
			fnRoles[fn][ev.Role] = true
		}
	}
	motionFields := map[int]bool{}
	auxStores := map[int][]*ssa.Store{}
	touch := func(fn *ssa.Function, into map[int]bool, stores map[int][]*ssa.Store) {
		for _, b := range fn.Blocks {
			for _, in := range b.Instrs {
				switch x := in.(type) {
				case *ssa.Store:
					if fa, ok := x.Addr.(*ssa.FieldAddr); ok && isPtrTo(fa.X.Type(), c.T) {
						if into != nil {
							into[fa.Field] = true
						}
						if stores != nil {
							stores[fa.Field] = append(stores[fa.Field], x)
						}
					}
				case *ssa.UnOp:
					if fa, ok := x.X.(*ssa.FieldAddr); ok && isPtrTo(fa.X.Type(), c.T) && into != nil {
						if _, isBasic := c.St.Field(fa.Field).Type().Underlying().(*types.Basic); isBasic && c.isMutableField(fa.Field) {
							into[fa.Field] = true
						}
					}
				}
			}
		}
	}
	var fns []*ssa.Function
	for fn := range fnRoles {
		fns = append(fns, fn)
	}
	sort.Slice(fns, func(i, j int) bool { return fns[i].Name() < fns[j].Name() })
	for _, fn := range fns {
		if fnRoles[fn][roleMotion] {
			touch(fn, motionFields, nil)
		}
	}
	n := 0
	for _, fn := range fns {
		if fnRoles[fn][roleMotion] {
			continue
		}
		touch(fn, nil, auxStores)
		n++
	}
	var fis []int
	for fi := range auxStores {
		fis = append(fis, fi)
	}
	sort.Ints(fis)
	for _, fi := range fis {
		for _, st := range auxStores[fi] {
			r.Check(!motionFields[fi], "V4", "continuous/test path store to "+roleOfField(roles, c.fieldName(fi))+" in "+st.Parent().Name()+" #"+storeOrdinal(st)+" does not touch motion-path state", w.InstrPos(st),
				"field "+c.fieldName(fi))
		}
	}
	r.Check(n >= 2, "G4", "auxiliary sink functions found", "-", fmt.Sprint(n))
}

func roleOfField(roles *motionRoles, f string) string {
	switch f {
	case roles.CRCount:
		return "the continuous counter"
	case roles.SNCount:
		return "the test counter"
	case roles.Written:
		return "the frames-written counter"
	case roles.Target:
		return "the stop target"
	case roles.Trig:
		return "the consecutive-motion counter"
	}
	return "flag/field " + f
}

func (c *Component) isMutableField(fi int) bool {
	for fn := range c.W.AllFuncs {
		if fn == c.Ctor {
			continue
		}
		for _, b := range fn.Blocks {
			for _, in := range b.Instrs {
				if st, ok := in.(*ssa.Store); ok {
					if fa, ok := st.Addr.(*ssa.FieldAddr); ok && isPtrTo(fa.X.Type(), c.T) && fa.Field == fi {
						return true
					}
				}
			}
		}
	}
	return false
}

// V5: in the daemon wiring the continuous and test sinks are bare CPTVFileRecorders.
func checkAuxWiring(w *World, r *Report, runs *motionRuns) {
	c := runs.model.C
	cfr := w.NamedType("cmd/thermal-recorder", "CPTVFileRecorder")
	n := 0
	for _, st := range runs.sites {
		if st.Fn.Pkg == nil || st.Fn.Pkg.Pkg.Path() != modPath+"/cmd/thermal-recorder" || st.Present[roleTest] != 1 {
			continue
		}
		for pi, role := range c.CtorSink {
			if role == roleMotion {
				continue
			}
			n++
			arg := st.Call.Call.Args[pi]
			dyn := dynamicTypes(arg, 0)
			okf := len(dyn) > 0
			var names []string
			for _, t := range dyn {
				names = append(names, typeShort(t))
				if cfr == nil || !isPtrTo(t, cfr) {
					okf = false
				}
			}
			r.Check(okf, "V5", "daemon wiring: "+c.RoleNames[role]+" sink is a bare file recorder (never throttled)", w.InstrPos(st.Call), "dynamic types: "+strings.Join(names, ","))
			if role == roleContinuous {
				// the continuous recorder is present exactly when the constant-recorder setting is on: the argument is
				// "setting ? a file recorder : nil", with nothing else able to turn it off (a failing Mkdir of a folder
				// that already exists - every connection after the first - must not silently drop it)
				at := newTermEnv(w).termOf(arg)
				for at.Op == "call" && len(at.Args) == 1 && (strings.HasPrefix(at.Name, "convert") || strings.HasPrefix(at.Name, "iface")) {
					at = at.Args[0]
				}
				okSel := at.Op == "select" && len(at.Args) == 3 && strings.HasPrefix(at.Args[0].String(), "recorder.RecorderConfig.ConstantRecorder@") &&
					at.Args[1].Op != "select" && at.Args[1].Op != "phi" && at.Args[1].String() != "nil" && (at.Args[2].String() == "nil" || strings.HasSuffix(at.Args[2].String(), "(nil)"))
				r.Check(okSel, "V5", "daemon wiring: the continuous recorder is handed to the processor exactly when constant-recorder is set", w.InstrPos(st.Call), at.String())
				// SetAsConstantRecorder called on it
				called := false
				var setter *ssa.Function
				for _, t := range dyn {
					_ = t
				}
				for _, b := range st.Fn.Blocks {
					for _, in := range b.Instrs {
						if call, ok := in.(*ssa.Call); ok {
							if callee := call.Call.StaticCallee(); callee != nil && callee.Name() == "SetAsConstantRecorder" {
								called = true
								setter = callee
							}
						}
					}
				}
				r.Check(called, "V5", "daemon wiring: the continuous recorder is put into constant-recorder mode", w.InstrPos(st.Call), "")
				// ... that very recorder, and once: the mode (folder, pruning, no FFC switching) belongs to the object handed
				// over as continuous sink - set on the motion recorder instead, or twice (the folder is derived from the
				// current one), the files land where neither the pruning nor the start-up clean-up looks
				{
					var ctorCalls func(v ssa.Value, depth int, out map[ssa.Value]bool)
					ctorCalls = func(v ssa.Value, depth int, out map[ssa.Value]bool) {
						if v == nil || depth > 8 {
							return
						}
						switch x := v.(type) {
						case *ssa.MakeInterface:
							ctorCalls(x.X, depth+1, out)
						case *ssa.ChangeInterface:
							ctorCalls(x.X, depth+1, out)
						case *ssa.Phi:
							for _, e := range x.Edges {
								ctorCalls(e, depth+1, out)
							}
						case *ssa.UnOp:
							if al, ok := x.X.(*ssa.Alloc); ok && al.Referrers() != nil {
								for _, rf := range *al.Referrers() {
									if sst, ok := rf.(*ssa.Store); ok && sst.Addr == ssa.Value(al) {
										ctorCalls(sst.Val, depth+1, out)
									}
								}
							}
						case *ssa.Call:
							out[v] = true
						}
					}
					sinkObjs := map[ssa.Value]bool{}
					ctorCalls(arg, 0, sinkObjs)
					nSetCalls, onSink := 0, true
					for _, b := range st.Fn.Blocks {
						for _, in := range b.Instrs {
							if call, ok := in.(*ssa.Call); ok {
								if callee := call.Call.StaticCallee(); callee != nil && callee == setter && len(call.Call.Args) > 0 {
									nSetCalls++
									recv := map[ssa.Value]bool{}
									ctorCalls(call.Call.Args[0], 0, recv)
									if len(recv) == 0 {
										onSink = false
									}
									for v := range recv {
										if !sinkObjs[v] {
											onSink = false
										}
									}
								}
							}
						}
					}
					if setter != nil {
						r.Check(nSetCalls == 1 && onSink, "V5", "daemon wiring: constant-recorder mode is set once, on the recorder that is handed over as continuous sink", w.InstrPos(st.Call), fmt.Sprintf("%d calls, on the continuous sink: %v", nSetCalls, onSink))
					}
				}
				// ... whatever else the setter does (the folder may exist already: every connection after the first):
				// the mode flag and the folder are set on every path through it
				if setter != nil && len(setter.Params) > 0 {
					nSet := 0
					for _, sb := range setter.Blocks {
						for _, sin := range sb.Instrs {
							sst, ok := sin.(*ssa.Store)
							if !ok {
								continue
							}
							fa, ok := sst.Addr.(*ssa.FieldAddr)
							if !ok || fa.X != ssa.Value(setter.Params[0]) {
								continue
							}
							nSet++
							this := sin
							skipped := returnsWithout(setter, func(x ssa.Instruction) bool { return x == this })
							r.Check(!skipped, "V5", "constant-recorder mode: "+structOf(fa.X.Type()).Field(fa.Field).Name()+" is set on every path of "+setter.Name(), w.InstrPos(sin), "")
							if bt, isB := structOf(fa.X.Type()).Field(fa.Field).Type().Underlying().(*types.Basic); isB && bt.Info()&types.IsBoolean != 0 {
								k, isC := sst.Val.(*ssa.Const)
								r.Check(isC && k.Value != nil && k.Value.ExactString() == "true", "V5", "constant-recorder mode: the mode flag is switched ON", w.InstrPos(sin), newTermEnv(w).termOf(sst.Val).String())
							}
						}
					}
					r.Check(nSet >= 2, "V5", "constant-recorder mode sets its flag and its folder", w.Pos(setter.Pos()), fmt.Sprint(nSet))
				}
			}
		}
	}
	r.Check(n >= 2, "G4", "daemon wiring site found", "-", fmt.Sprint(n))
}

// dynamicTypes: concrete types an interface-typed value may hold (through MakeInterface / phi).
func dynamicTypes(v ssa.Value, depth int) []types.Type {
	if depth > 6 {
		return nil
	}
	switch x := v.(type) {
	case *ssa.MakeInterface:
		return []types.Type{x.X.Type()}
	case *ssa.ChangeInterface:
		return dynamicTypes(x.X, depth+1)
	case *ssa.Phi:
		var out []types.Type
		for _, e := range x.Edges {
			d := dynamicTypes(e, depth+1)
			if d == nil {
				return nil
			}
			out = append(out, d...)
		}
		return out
	}
	if _, isIface := v.Type().Underlying().(*types.Interface); !isIface {
		return []types.Type{v.Type()}
	}
	return nil
}

// holdsForAllLengths: the guard depends only on len(<hist>) and integer constants and is true for every length 2..64.
func holdsForAllLengths(g Guard, hist string) bool {
	var eval func(t *Term, n int64) (int64, bool)
	eval = func(t *Term, n int64) (int64, bool) {
		if c, ok := t.isConst(); ok {
			return c, true
		}
		switch t.Op {
		case "len":
			if len(t.Args) == 1 && t.Args[0].String() == hist {
				return n, true
			}
		case "add":
			var s int64
			for _, a := range t.Args {
				v, ok := eval(a, n)
				if !ok {
					return 0, false
				}
				s += v
			}
			return s, true
		case "mul":
			p := int64(1)
			for _, a := range t.Args {
				v, ok := eval(a, n)
				if !ok {
					return 0, false
				}
				p *= v
			}
			return p, true
		case "lt", "le", "eq", "ne":
			if len(t.Args) != 2 {
				return 0, false
			}
			a, ok1 := eval(t.Args[0], n)
			b, ok2 := eval(t.Args[1], n)
			if !ok1 || !ok2 {
				return 0, false
			}
			var r bool
			switch t.Op {
			case "lt":
				r = a < b
			case "le":
				r = a <= b
			case "eq":
				r = a == b
			case "ne":
				r = a != b
			}
			if r {
				return 1, true
			}
			return 0, true
		case "not":
			v, ok := eval(t.Args[0], n)
			return 1 - v, ok
		}
		return 0, false
	}
	for n := int64(2); n <= 64; n++ {
		v, ok := eval(g.Cond, n)
		if !ok {
			return false
		}
		if (v == 1) != g.Pos {
			return false
		}
	}
	return true
}

// checkRingAdvancesOncePerFrame: every call that accepts a frame (Process with a successful parse, ProcessFrame) ends
// with the pre-trigger ring advanced exactly once - whatever happened to the recording on that frame (refused start,
// failed file creation, write/stop failure) - and a rejected frame never advances it. A frame whose slot is not advanced
// is overwritten by the next one: it is missing from the pre-trigger history (a gap inside the next recording) and the
// "previous frame" served to snapshot requests is stale.
func checkRingAdvancesOncePerFrame(w *World, r *Report, runs *motionRuns, rule string, wantAccepted, wantRejected bool) {
	n, nbad := 0, 0
	var bad, badRej *Ctx
	for _, ev := range runs.fault.sortedEvents() {
		if ev.Kind != "exit" || (ev.Entry != "Process" && ev.Entry != "ProcessFrame") {
			continue
		}
		for _, cx := range ev.Ctxs {
			p, has := cx.Dec["parse"]
			accepted := ev.Entry == "ProcessFrame" || (has && p == 1)
			if accepted {
				n++
				if cx.Ghosts["moved"] != 1 && bad == nil {
					bad = cx
				}
			} else if has && p == 0 {
				nbad++
				if cx.Ghosts["moved"] != 0 && badRej == nil {
					badRej = cx
				}
			}
		}
	}
	name := "every accepted frame advances the pre-trigger ring exactly once, on every path (also when a start is refused or fails)"
	if !wantAccepted {
	} else if bad != nil {
		r.Fail(rule, name, "-", fmt.Sprintf("a frame call ends with the ring advanced %d times: the frame's slot is overwritten by the next frame (lost from the pre-trigger history): %s", bad.Ghosts["moved"], describeCtx(bad)), bad.Trace)
	} else {
		r.Check(n > 0, rule, name, "-", fmt.Sprintf("%d exit contexts over all failure placements", n))
	}
	name2 := "a rejected (bad) frame never advances the pre-trigger ring"
	if !wantRejected {
	} else if badRej != nil {
		r.Fail(rule, name2, "-", describeCtx(badRej), badRej.Trace)
	} else {
		r.Check(nbad > 0, rule, name2, "-", fmt.Sprintf("%d exit contexts on the parse-error edge", nbad))
	}
}

// returnsWithout: some path from the entry of fn reaches a return without executing an instruction satisfying must.
func returnsWithout(fn *ssa.Function, must func(ssa.Instruction) bool) bool {
	has := map[*ssa.BasicBlock]bool{}
	for _, b := range fn.Blocks {
		for _, in := range b.Instrs {
			if must(in) {
				has[b] = true
			}
		}
	}
	seen := map[*ssa.BasicBlock]bool{}
	var walk func(b *ssa.BasicBlock) bool
	walk = func(b *ssa.BasicBlock) bool {
		if seen[b] || has[b] {
			return false
		}
		seen[b] = true
		if _, ok := b.Instrs[len(b.Instrs)-1].(*ssa.Return); ok {
			return true
		}
		for _, s := range b.Succs {
			if walk(s) {
				return true
			}
		}
		return false
	}
	return len(fn.Blocks) > 0 && walk(fn.Blocks[0])
}

// checkRingSlotFilledByDeepCopy: a frame enters the pre-trigger ring only as a deep copy. In the processor's methods the
// slot handed out by the ring's Current() is filled by the frame parser or by cptvframe.Frame.Copy; no method stores
// into the slot's fields itself or copies row tables into it (copy(slot.Pix, src.Pix) copies the row HEADERS: every slot
// would share its pixels with the caller's frame, and the pre-trigger frames of a recording would all show the last one).
func checkRingSlotFilledByDeepCopy(w *World, r *Report, runs *motionRuns, rule string) {
	c := runs.model.C
	fills, slots := 0, 0
	for fn := range w.AllFuncs {
		if rv := fn.Signature.Recv(); rv == nil || !isPtrTo(rv.Type(), c.T) || len(fn.Blocks) == 0 {
			continue
		}
		for _, b := range fn.Blocks {
			for _, in := range b.Instrs {
				cur, ok := in.(*ssa.Call)
				if !ok {
					continue
				}
				callee := cur.Call.StaticCallee()
				if callee == nil || callee.Name() != "Current" || len(cur.Call.Args) == 0 {
					continue
				}
				isRing := false
				switch a := cur.Call.Args[0].(type) {
				case *ssa.UnOp:
					if fa, ok := a.X.(*ssa.FieldAddr); ok && fa.Field == runs.model.ringFld && isPtrTo(fa.X.Type(), c.T) {
						isRing = true
					}
				case *ssa.FieldAddr:
					isRing = a.Field == runs.model.ringFld && isPtrTo(a.X.Type(), c.T)
				}
				if !isRing || cur.Referrers() == nil {
					continue
				}
				slots++
				for _, rf := range *cur.Referrers() {
					switch x := rf.(type) {
					case *ssa.FieldAddr:
						// slot.F: no store to it, and slot.Pix never the destination of a builtin copy
						if x.Referrers() == nil {
							continue
						}
						for _, u := range *x.Referrers() {
							if st, ok := u.(*ssa.Store); ok && st.Addr == ssa.Value(x) && isPixField(x) {
								r.Fail(rule, fn.Name()+": the ring slot is filled by a deep copy", w.InstrPos(st), "the row table of the slot is assigned (aliases the source's pixels)", "")
								fills++
							}
							if ld, ok := u.(*ssa.UnOp); ok && ld.Referrers() != nil {
								for _, uu := range *ld.Referrers() {
									if ia, ok := uu.(*ssa.IndexAddr); ok && ia.Referrers() != nil && isPixField(x) {
										// copy(slot.Pix[y], ...) row by row: a deep copy written out by hand
										for _, u3 := range *ia.Referrers() {
											if rowLd, ok := u3.(*ssa.UnOp); ok && rowLd.Referrers() != nil {
												for _, u4 := range *rowLd.Referrers() {
													if cc, ok := u4.(*ssa.Call); ok {
														if bi, ok := cc.Call.Value.(*ssa.Builtin); ok && bi.Name() == "copy" && cc.Call.Args[0] == ssa.Value(rowLd) {
															fills++
															r.Pass(rule, fn.Name()+": the ring slot is filled by a deep copy", w.InstrPos(cc), "row-by-row copy of the pixels")
														}
													}
												}
											}
										}
									}
									if cc, ok := uu.(*ssa.Call); ok {
										if bi, ok := cc.Call.Value.(*ssa.Builtin); ok && bi.Name() == "copy" && len(cc.Call.Args) == 2 && cc.Call.Args[0] == ssa.Value(ld) {
											r.Fail(rule, fn.Name()+": the ring slot is filled by a deep copy", w.InstrPos(cc), "copy() into the slot's "+structOf(x.X.Type()).Field(x.Field).Name()+" table copies row headers, not pixels", "")
											fills++
										}
									}
								}
							}
						}
					case *ssa.Call:
						if cd, _, okc := frameCopyOf(x.Call.StaticCallee(), x.Call.Args, 0); okc && cd == ssa.Value(cur) {
							fills++
							r.Pass(rule, fn.Name()+": the ring slot is filled by a deep copy", w.InstrPos(x), "frame copy ("+x.Call.StaticCallee().Name()+")")
						} else if x.Call.StaticCallee() == nil && !x.Call.IsInvoke() && len(x.Call.Args) >= 2 && x.Call.Args[1] == ssa.Value(cur) {
							fills++
							r.Pass(rule, fn.Name()+": the ring slot is filled by a deep copy", w.InstrPos(x), "frame parser")
						}
					}
				}
			}
		}
	}
	r.Check(slots >= 2 && fills >= 2, rule, "ring slots obtained and filled in the processor (live path and ProcessFrame)", "-", fmt.Sprintf("%d slots, %d fills", slots, fills))
}

// checkDetectorSeesEveryFrame: every accepted frame (Process with a successful parse, ProcessFrame) is handed to the
// detector exactly once, whatever else the call decides - the detector's state (previous-frame FFC flag, comparison
// ring, background, threshold) is defined frame by frame; a frame it never sees (skipped as a duplicate, skipped while
// the camera calibrates) shifts every later comparison. A rejected frame is never shown to it.
func checkDetectorSeesEveryFrame(w *World, r *Report, rule string) {
	runs, err := getMotionRuns(w)
	if err != nil {
		r.Unknown(rule, "motion.MotionProcessor", "-", "role resolution failed: "+err.Error())
		return
	}
	n, nrej := 0, 0
	var bad, badRej *Ctx
	for _, ev := range runs.fault.sortedEvents() {
		if ev.Kind != "exit" || (ev.Entry != "Process" && ev.Entry != "ProcessFrame") {
			continue
		}
		for _, cx := range ev.Ctxs {
			p, has := cx.Dec["parse"]
			accepted := ev.Entry == "ProcessFrame" || (has && p == 1)
			if accepted {
				n++
				if cx.Ghosts["detectCalls"] != 1 && bad == nil {
					bad = cx
				}
			} else if has && p == 0 {
				nrej++
				if cx.Ghosts["detectCalls"] != 0 && badRej == nil {
					badRej = cx
				}
			}
		}
	}
	name := "every accepted frame is handed to the detector exactly once"
	if bad != nil {
		r.Fail(rule, name, "-", fmt.Sprintf("a frame call ends with Detect called %d times: %s", bad.Ghosts["detectCalls"], describeCtx(bad)), bad.Trace)
	} else {
		r.Check(n > 0, rule, name, "-", fmt.Sprintf("%d exit contexts over all failure placements", n))
	}
	if badRej != nil {
		r.Fail(rule, "a rejected frame is never shown to the detector", "-", describeCtx(badRej), badRej.Trace)
	} else {
		r.Check(nrej > 0, rule, "a rejected frame is never shown to the detector", "-", fmt.Sprintf("%d exit contexts", nrej))
	}
	for _, ev := range eventsOfKind(runs.fault, "obs:detect", -1) {
		r.Check(ev.Arg == "cur", rule, "the detector is shown the frame just parsed (the ring's current slot)", w.InstrPos(ev.Instr), ev.Arg)
	}
}

// checkStopTaken: a frame call that writes the current frame to the motion recording tests the stop target, and the
// recording is stopped exactly when written >= target (non-strict: a counter that a failure left above the target
// still ends the recording).
func checkStopTaken(w *World, r *Report, runs *motionRuns, roles *motionRoles, rule string) {
	if roles.StopLabel == "" {
		r.Fail(rule, "stop guard", "-", "no comparison between the written counter and the stop target was found", "")
		return
	}
	// taken exactly when written >= target
	var badA, badB, badC *Ctx
	nA := 0
	for _, cx := range exitCtxs(runs.fault) {
		if cx.Ghosts["wcur:motion"] == 1 {
			out, present := cx.Dec[roles.StopLabel]
			if !present {
				if badC == nil {
					badC = cx
				}
				continue
			}
			nA++
			rel := relationOn(roles.StopLabel, roles.Written, out)
			stopped := cx.Ghosts["stop:motion"] >= 1
			switch rel {
			case ">=":
				if !stopped && badA == nil {
					badA = cx
				}
			case "<":
				if stopped && badB == nil {
					badB = cx
				}
			default:
				if badA == nil {
					badA = cx
				}
			}
		}
	}
	cl, _ := parseCmpLabel(roles.StopLabel)
	detail := fmt.Sprintf("decision '%s' in %d exit contexts: stop iff written >= target", cl.Raw, nA)
	switch {
	case badA != nil:
		r.Fail(rule, "stop taken exactly when written >= target", "-", "the comparison is not 'written >= target' (non-strict) or the stop is skipped when it holds: "+describeCtx(badA), badA.Trace)
	case badB != nil:
		r.Fail(rule, "stop taken exactly when written >= target", "-", "the recording is stopped although written < target: "+describeCtx(badB), badB.Trace)
	case badC != nil:
		r.Fail(rule, "stop taken exactly when written >= target", "-", "a frame call writes a frame to the recording without testing the stop target: "+describeCtx(badC), badC.Trace)
	default:
		r.Check(nA > 0, rule, "stop taken exactly when written >= target", "-", detail)
	}
}

// checkParserEdgeArg: the frame parser is always told the configured edge width - the detector's start offset, read at
// the call: which zero pixels make a frame "bad" must not depend on anything else (what happened to earlier frames, a
// mode flag): border pixels would then decide which frames are dropped and where recordings are cut.
func checkParserEdgeArg(w *World, r *Report, rule string) {
	runs, err := getMotionRuns(w)
	if err != nil {
		r.Unknown(rule, "motion.MotionProcessor", "-", "role resolution failed: "+err.Error())
		return
	}
	d := getDetector(w)
	if d == nil || d.Err != nil {
		r.Unknown(rule, "motion detector", "-", "roles not resolved")
		return
	}
	n := 0
	for _, ev := range eventsOfKind(runs.fault, "obs:parse", -1) {
		ci, ok := ev.Instr.(ssa.CallInstruction)
		if !ok || len(ci.Common().Args) < 3 {
			continue
		}
		n++
		e := newTermEnv(w)
		e.valueHelpers = true
		got := e.termOf(ci.Common().Args[2]).String()
		want := "motion.motionDetector." + d.fname("start") + "@"
		r.Check(strings.HasPrefix(got, want) && !strings.Contains(got, "select(") && !strings.Contains(got, "phi("), rule, "the parser is handed the configured edge width (the detector's bound, whatever happened before)", w.InstrPos(ev.Instr), got)
	}
	r.Check(n >= 1, rule, "parse call sites found", "-", fmt.Sprint(n))
}

// checkCounterWidths: a frame counter is as wide as the limit it is compared with. A counter field of the processor
// (a field that is incremented by one somewhere) never reaches a comparison through a widening conversion: a narrower
// counter wraps before a large limit (max-secs*fps at a high frame rate or a long max-secs) is reached, the file is
// never closed and the next start hits an open recording.
func checkCounterWidths(w *World, r *Report, c *Component, rule string) {
	arch := w.Arch
	if arch == "" {
		arch = "amd64"
	}
	sizes := types.SizesFor("gc", arch)
	counters := map[int]bool{}
	var methods []*ssa.Function
	for fn := range c.W.AllFuncs {
		if rv := fn.Signature.Recv(); rv != nil && isPtrTo(rv.Type(), c.T) && len(fn.Blocks) > 0 {
			methods = append(methods, fn)
		}
	}
	sort.Slice(methods, func(i, j int) bool { return methods[i].String() < methods[j].String() })
	for _, m := range methods {
		for _, b := range m.Blocks {
			for _, in := range b.Instrs {
				if st, ok := in.(*ssa.Store); ok {
					if fa, ok := st.Addr.(*ssa.FieldAddr); ok && isPtrTo(fa.X.Type(), c.T) && c.isIncrement(st, fa.Field) {
						counters[fa.Field] = true
					}
				}
			}
		}
	}
	n := 0
	for fi := range counters {
		bt, ok := c.St.Field(fi).Type().Underlying().(*types.Basic)
		if !ok || bt.Info()&types.IsInteger == 0 {
			continue
		}
		n++
		var bad ssa.Instruction
		for _, m := range methods {
			for _, b := range m.Blocks {
				for _, in := range b.Instrs {
					cv, ok := in.(*ssa.Convert)
					if !ok || c.loadedField(cv.X) != fi {
						continue
					}
					db, ok := cv.Type().Underlying().(*types.Basic)
					if ok && db.Info()&types.IsInteger != 0 && sizes.Sizeof(db) > sizes.Sizeof(bt) {
						// widened: is the wide value compared?
						if cv.Referrers() != nil {
							for _, rf := range *cv.Referrers() {
								if bo, ok := rf.(*ssa.BinOp); ok {
									switch bo.Op {
									case token.LSS, token.LEQ, token.GTR, token.GEQ, token.EQL, token.NEQ:
										bad = in
									}
								}
							}
						}
					}
				}
			}
		}
		name := "counter " + c.fieldName(fi) + " is as wide as the limit it is compared with"
		if bad != nil {
			r.Fail(rule, name, w.InstrPos(bad), "the counter ("+bt.String()+") is widened for a comparison: it wraps before a limit beyond its range is reached", "")
		} else {
			r.Pass(rule, name, "-", bt.String())
		}
	}
	r.Check(n >= 3, "G4", "frame counters of the processor found", "-", fmt.Sprint(n))
}

// checkNoDeferredFrameWork: the entry that parses raw bytes returns early on a bad frame; a step that writes frames or
// starts recordings must not be deferred (or handed to a goroutine) there - a deferred step also runs on the bad-frame
// return, with the half-parsed frame.
func checkNoDeferredFrameWork(w *World, r *Report, rule string) {
	var reaches func(fn *ssa.Function, seen map[*ssa.Function]bool) bool
	reaches = func(fn *ssa.Function, seen map[*ssa.Function]bool) bool {
		if fn == nil || seen[fn] || !w.IsRepoFunc(fn) {
			return false
		}
		seen[fn] = true
		for _, b := range fn.Blocks {
			for _, in := range b.Instrs {
				ci, ok := in.(ssa.CallInstruction)
				if !ok {
					continue
				}
				cc := ci.Common()
				if cc.IsInvoke() && (cc.Method.Name() == "WriteFrame" || cc.Method.Name() == "StartRecording") {
					return true
				}
				if reaches(cc.StaticCallee(), seen) {
					return true
				}
				if mc, ok := cc.Value.(*ssa.MakeClosure); ok && reaches(mc.Fn.(*ssa.Function), seen) {
					return true
				}
			}
		}
		return false
	}
	n := 0
	for _, fn := range w.RepoFuncs() {
		if fn.Pkg == nil || fn.Pkg.Pkg.Path() != modPath+"/motion" || fn.Signature.Recv() == nil || !typeIs(fn.Signature.Recv().Type(), modPath+"/motion", "MotionProcessor") {
			continue
		}
		raw := false
		for _, p := range fn.Params {
			if sl, ok := p.Type().Underlying().(*types.Slice); ok {
				if bt, ok := sl.Elem().Underlying().(*types.Basic); ok && bt.Kind() == types.Uint8 {
					raw = true
				}
			}
		}
		if !raw {
			continue
		}
		n++
		bad := ""
		for _, b := range fn.Blocks {
			for _, in := range b.Instrs {
				var cc *ssa.CallCommon
				switch x := in.(type) {
				case *ssa.Defer:
					cc = &x.Call
				case *ssa.Go:
					cc = &x.Call
				default:
					continue
				}
				callee := cc.StaticCallee()
				if mc, ok := cc.Value.(*ssa.MakeClosure); ok {
					callee = mc.Fn.(*ssa.Function)
				}
				if reaches(callee, map[*ssa.Function]bool{}) && bad == "" {
					bad = w.InstrPos(in)
				}
			}
		}
		name := "no step of " + fn.Name() + " that writes frames or starts recordings is deferred or handed to a goroutine (it would also run on the bad-frame return)"
		if bad != "" {
			r.Fail(rule, name, bad, "a deferred / asynchronous call reaches a recorder's WriteFrame or StartRecording: it runs after the early return of a frame that failed to parse, with that frame", "")
		} else {
			r.Pass(rule, name, w.Pos(fn.Pos()), "")
		}
	}
	if n == 0 {
		r.Unknown(rule, "raw-frame entry of the processor", "-", "no method of MotionProcessor takes raw bytes")
	}
}
