package main

import (
	"fmt"
	"go/constant"
	"go/token"
	"go/types"
	"sort"
	"strconv"
	"strings"

	"golang.org/x/tools/go/ssa"
)

func init() { register("C11", propC11) }

// storesInto returns, per field name, the terms stored into fields of values of struct type T
// (identified by package path + name) inside fn.
func storesInto(w *World, e *termEnv, fn *ssa.Function, pkgPath, typeName string) map[string][]string {
	out := map[string][]string{}
	for _, b := range fn.Blocks {
		for _, in := range b.Instrs {
			st, ok := in.(*ssa.Store)
			if !ok {
				continue
			}
			fa, ok := st.Addr.(*ssa.FieldAddr)
			if !ok || !typeIs(fa.X.Type(), pkgPath, typeName) {
				continue
			}
			name := structOf(fa.X.Type()).Field(fa.Field).Name()
			out[name] = append(out[name], e.termOf(st.Val).String())
		}
	}
	return out
}

func propC11(w *World, r *Report) {
	r.Explanation = "Decided clause — wiring/provenance only: (H1) each cptv.Header field is fed from its specified source (device name/id, preview-secs, camera fps, brand/model/serial/firmware arguments, location fields, YAML of the motion config plus 'triggeredthresh: <threshold argument>', background frame argument, resolution through the CameraSpec handed to NewFileWriter), all three recorder construction sites in the connection handler pass headerInfo's Brand/Model/CameraSerial/Firmware in that order, and the recorder's WriteFrame hands every frame to the CPTV writer once and returns its error; (H2) every HeaderInfo getter returns the field that ReadHeaderInfo fills from the like-named header key; (H3) ParseConfig, recorder.NewConfig, motion.NewConfig and throttle.NewConfig copy each setting from the like-named go-config field of the right config section, a section / sub-loader / window that fails aborts loading with its error, the configuration is read from the configured directory, and trigger-frames counts from the end of the previous recording; (H4) the connection handler loads the motion config for headerInfo.Model() before any recorder or the processor is built, all of them share that config object, and LoadMotionConfig stores motion.NewConfig's result; (H5) the parser selection maps (flir, lepton3|lepton3.5) to the Lepton parser, (flir, boson) to the Boson parser and everything else to 'cannot handle'. Rule: provenance normal forms compared against a table written from the statement. Also (H4, contradiction rule) the motion settings validator does not reject the zero value of a setting that the detector gives a meaning of its own."
	r.RuleText = "obligation per (rule, field / key / call site)"
	r.Assumptions = []string{"pixel/telemetry fidelity of the CPTV codec and the YAML encoders are dependencies and data dependent: not decided",
		"go-config's struct tags map TOML keys to the named fields (dependency)", "cross-reference (not a verdict): the error of LoadMotionConfig is dropped by the connection handler"}
	pkgRel := "cmd/thermal-recorder"
	e := newTermEnv(w)
	T := w.NamedType(pkgRel, "CPTVFileRecorder")
	ctor := w.ctorOf(T)
	if ctor == nil || T == nil {
		r.Unknown("roles", "NewCPTVFileRecorder", "-", "not found")
		return
	}
	cfg := "@param:main.Config"
	// parameter leaves of the constructor by position
	pl := func(i int) string { return e.termOf(ctor.Params[i]).String() }
	// the camera identification reaches the header either through a parameter each (checked against the caller's
	// arguments at the construction sites) or through the getters of a camera-description parameter
	camIdent := func(field, getter string) string {
		for i, p := range ctor.Params {
			if typeIs(p.Type(), modPath+"/headers", "HeaderInfo") {
				return "headers.HeaderInfo." + getter + "(" + pl(i) + ")"
			}
		}
		// ... or through the like-named field of a plain struct parameter of the repository's own that bundles them (what
		// the call sites put into it is checked end to end at the construction sites below)
		for i, p := range ctor.Params {
			n, isN := p.Type().(*types.Named)
			pst, isS := p.Type().Underlying().(*types.Struct)
			if !isN || !isS || n.Obj().Pkg() == nil || !strings.HasPrefix(n.Obj().Pkg().Path(), modPath) {
				continue
			}
			for k := 0; k < pst.NumFields(); k++ {
				fname := pst.Field(k).Name()
				if strings.EqualFold(fname, field) || (field == "CameraSerial" && strings.EqualFold(fname, "Serial")) {
					return typeShort(p.Type()) + "." + fname + "@" + pl(i)
				}
			}
		}
		want := map[string]int{"Brand": 2, "Model": 3, "CameraSerial": 4, "Firmware": 5}[field]
		if want < len(ctor.Params) {
			return pl(want)
		}
		return "<no source>"
	}
	camParam := -1
	confParam := -1
	for i, p := range ctor.Params {
		if typeIs(p.Type(), modPath+"/headers", "HeaderInfo") || typeIs(p.Type(), "github.com/TheCacophonyProject/go-cptv/cptvframe", "CameraSpec") {
			camParam = i
		}
		if typeIs(p.Type(), modPath+"/cmd/thermal-recorder", "Config") {
			confParam = i
		}
	}
	if camParam < 0 || confParam < 0 {
		r.Unknown("H1", "NewCPTVFileRecorder signature", w.Pos(ctor.Pos()), "expected a configuration and a camera description parameter")
		return
	}
	wantHeader := map[string]string{
		"DeviceName":   "main.Config.DeviceName" + cfg,
		"DeviceID":     "main.Config.DeviceID" + cfg,
		"PreviewSecs":  "recorder.RecorderConfig.PreviewSecs@main.Config.Recorder" + cfg,
		"MotionConfig": "#0(gopkg.in/yaml.v2.Marshal(main.Config.Motion" + cfg + "))",
		"Latitude":     "config.Location.Latitude@main.Config.Location" + cfg,
		"Longitude":    "config.Location.Longitude@main.Config.Location" + cfg,
		"LocTimestamp": "config.Location.Timestamp@main.Config.Location" + cfg,
		"Altitude":     "config.Location.Altitude@main.Config.Location" + cfg,
		"Accuracy":     "config.Location.Accuracy@main.Config.Location" + cfg,
		"FPS":          "cptvframe.CameraSpec.FPS()",
		"Brand":        camIdent("Brand", "Brand"),
		"Model":        camIdent("Model", "Model"),
		"CameraSerial": camIdent("CameraSerial", "CameraSerial"),
		"Firmware":     camIdent("Firmware", "Firmware"),
	}
	got := storesInto(w, e, ctor, "github.com/TheCacophonyProject/go-cptv", "Header")
	var names []string
	for k := range wantHeader {
		names = append(names, k)
	}
	sort.Strings(names)
	for _, f := range names {
		g := got[f]
		ok := len(g) == 1 && g[0] == wantHeader[f]
		if f == "MotionConfig" && len(g) == 1 {
			ok = strings.HasPrefix(g[0], "#0(") && strings.Contains(g[0], "yaml.v2.Marshal(main.Config.Motion"+cfg+")")
		}
		if f == "FPS" && len(g) == 1 && !ok {
			// the camera description's own frame rate, whatever the static type of the parameter
			ok = g[0] == "headers.HeaderInfo.FPS("+pl(camParam)+")" || g[0] == "cptvframe.CameraSpec.FPS("+pl(camParam)+")"
		}
		r.Check(ok, "H1", "header."+f+" <- its specified source", w.Pos(ctor.Pos()), strings.Join(g, " | ")+"  (want "+wantHeader[f]+")")
	}
	for f := range got {
		if _, known := wantHeader[f]; !known {
			r.Unknown("H1", "header."+f, w.Pos(ctor.Pos()), "header field set by the constructor but absent from the specification table: "+strings.Join(got[f], " | "))
		}
	}
	// the header object becomes the recorder's header; camera and motion YAML are remembered
	ce := newTermEnv(w)
	ci := ce.useCtor(T, ctor)
	st := T.Underlying().(*types.Struct)
	fieldOfType := func(pred func(t types.Type) bool) int {
		for i := 0; i < st.NumFields(); i++ {
			if pred(st.Field(i).Type()) {
				return i
			}
		}
		return -1
	}
	hdrF := fieldOfType(func(t types.Type) bool { return typeIs(t, "github.com/TheCacophonyProject/go-cptv", "Header") })
	camF := fieldOfType(func(t types.Type) bool {
		return typeIs(t, "github.com/TheCacophonyProject/go-cptv/cptvframe", "CameraSpec")
	})
	if hdrF < 0 || camF < 0 {
		r.Unknown("H1", "recorder fields", "-", "header / camera fields not found")
		return
	}
	r.Check(ci.Stores[camF] != nil && ci.Stores[camF].String() == pl(camParam), "H1", "the recorder keeps the camera description it was given", w.Pos(ctor.Pos()), fmt.Sprint(ci.Stores[camF]))
	// StartRecording
	start := findMethod(w.Prog, T, "StartRecording")
	if start == nil {
		r.Unknown("H1", "StartRecording", "-", "not found")
		return
	}
	se := newTermEnv(w)
	yamlF := -1
	for i := 0; i < st.NumFields(); i++ {
		if ci.Stores[i] != nil && strings.Contains(ci.Stores[i].String(), "yaml.v2.Marshal(main.Config.Motion") && i != hdrF {
			yamlF = i
		}
	}
	recv := "@recv:main.CPTVFileRecorder"
	// path form (helpers extracted from StartRecording are unfolded): on every successful path the header receives the
	// motion YAML + threshold line and the background argument, then the recorder's header is written
	var nfCall *ssa.Call
	for _, b := range start.Blocks {
		for _, in := range b.Instrs {
			if c, ok := in.(*ssa.Call); ok && calleeName(c) == "cptv.NewFileWriter" {
				nfCall = c
			}
		}
	}
	{
		paths, complete := enumPathsInl(se, start, 256, sameReceiverHelperOf(start))
		wantMC := ""
		if yamlF >= 0 {
			wantMC = `fmt.Sprintf("%striggeredthresh: %d\n", list(main.CPTVFileRecorder.` + st.Field(yamlF).Name() + recv + ", " + se.termOf(start.Params[2]).String() + "))"
		}
		wantBG := se.termOf(start.Params[1]).String()
		wantHdr := "main.CPTVFileRecorder." + st.Field(hdrF).Name() + recv
		nOK := 0
		okMC, okBG, okWH, okArg, okOrd := true, true, true, true, true
		var gotMC, gotBG, gotArg string
		for _, p := range paths {
			if p.Term(se, p.Ret.Results[0]).String() != "nil" {
				continue
			}
			nOK++
			var mc, bg []string
			var mcPieces []string
			wantPieces := []string{}
			if yamlF >= 0 {
				wantPieces = []string{"main.CPTVFileRecorder." + st.Field(yamlF).Name() + recv, `"triggeredthresh: "`, "dec(" + se.termOf(start.Params[2]).String() + ")", `"\n"`}
			}
			lastStore, wh := -1, -1
			for idx, in := range p.Instrs {
				switch x := in.(type) {
				case *ssa.Store:
					fa, ok := x.Addr.(*ssa.FieldAddr)
					if !ok || !typeIs(fa.X.Type(), "github.com/TheCacophonyProject/go-cptv", "Header") {
						continue
					}
					if c, isC := x.Val.(*ssa.Const); isC && c.Value == nil {
						continue // reset after the write
					}
					name := structOf(fa.X.Type()).Field(fa.Field).Name()
					t := p.Term(se, x.Val).String()
					switch name {
					case "MotionConfig":
						mc = append(mc, t)
						mcPieces = strPieces(p.Term(se, x.Val))
						lastStore = idx
					case "BackgroundFrame":
						bg = append(bg, t)
						lastStore = idx
					}
				case *ssa.Call:
					if calleeName(x) == "cptv.Writer.WriteHeader" {
						wh = idx
						gotArg = p.Term(se, x.Call.Args[1]).String()
						if gotArg != wantHdr {
							okArg = false
						}
					}
				}
			}
			gotMC, gotBG = strings.Join(mc, " | "), strings.Join(bg, " | ")
			if !(len(mc) == 1 && wantMC != "" && (mc[0] == wantMC || mcPieces != nil && strings.Join(mcPieces, "‖") == strings.Join(wantPieces, "‖"))) {
				okMC = false
			}
			if !(len(bg) >= 1 && bg[0] == wantBG) {
				okBG = false
			}
			if wh < 0 {
				okWH = false
			} else if lastStore > wh {
				okOrd = false
			}
		}
		r.Check(complete && nOK >= 1, "H1", "StartRecording has successful paths (loop-free)", w.Pos(start.Pos()), fmt.Sprintf("%d paths, %d successful", len(paths), nOK))
		r.Check(okMC && nOK >= 1, "H1", "header.MotionConfig at start = motion YAML + 'triggeredthresh: <threshold argument>'", w.Pos(start.Pos()), gotMC)
		r.Check(okBG && nOK >= 1, "H1", "header.BackgroundFrame at start = the background argument", w.Pos(start.Pos()), gotBG)
		if okWH && nOK >= 1 {
			r.Check(okArg, "H1", "the header written is the recorder's header", w.Pos(start.Pos()), gotArg)
			r.Check(okOrd, "H1", "threshold and background are put into the header before it is written", w.Pos(start.Pos()), "")
		} else {
			r.Fail("H1", "the header is written at start", w.Pos(start.Pos()), "a successful path of StartRecording has no WriteHeader call", "")
		}
	}
	if nfCall != nil {
		arg := se.termOf(nfCall.Call.Args[1]).String()
		r.Check(arg == "main.CPTVFileRecorder."+st.Field(camF).Name()+recv, "H1", "resolution: the file writer is created for the recorder's camera description", w.InstrPos(nfCall), arg)
	}
	// construction sites
	ci2 := analyseHandleConn(w)
	if ci2.err != nil {
		r.Unknown("H1", "connection handler", "-", ci2.err.Error())
		return
	}
	he := newTermEnv(w)
	hi := "global:main.headerInfo"
	canonCam := camCanon(w, ci2.setup)
	nSites := 0
	var loadCall *ssa.Call
	for _, b := range ci2.setup.Blocks {
		for _, in := range b.Instrs {
			c, ok := in.(*ssa.Call)
			if !ok {
				continue
			}
			if c.Call.StaticCallee() != nil && c.Call.StaticCallee().Name() == "LoadMotionConfig" {
				loadCall = c
			}
		}
	}
	var built []*ssa.Call
	// the calls of the set-up part: its own, and those of a wiring helper it calls once (a same-package function that
	// is handed the configuration / camera / recorders; its parameters are read as the arguments of that one call)
	type famCall struct {
		c    *ssa.Call
		env  *termEnv
		site *ssa.Call // the instruction of the set-up function through which c runs
		fn   *ssa.Function
	}
	var fam []famCall
	for _, b := range ci2.setup.Blocks {
		for _, in := range b.Instrs {
			c, ok := in.(*ssa.Call)
			if !ok {
				continue
			}
			fam = append(fam, famCall{c, he, c, ci2.setup})
			h := c.Call.StaticCallee()
			if h == nil || h.Pkg != ci2.setup.Pkg || h.Parent() != nil || len(h.Blocks) == 0 || h == ci2.fn || len(w.callersOf(h)) != 1 || ctorCallIn(ci2.setup, c, ctor) != nil {
				continue
			}
			nCalls := 0
			for _, b2 := range ci2.setup.Blocks {
				for _, in2 := range b2.Instrs {
					if c2, ok := in2.(*ssa.Call); ok && c2.Call.StaticCallee() == h {
						nCalls++
					}
				}
			}
			if nCalls != 1 {
				continue
			}
			ce := he.child()
			for i, p := range h.Params {
				if i < len(c.Call.Args) {
					ce.bind[p] = he.termOf(c.Call.Args[i])
				}
			}
			for _, hb := range h.Blocks {
				for _, hin := range hb.Instrs {
					if hc, ok := hin.(*ssa.Call); ok {
						fam = append(fam, famCall{hc, ce, c, h})
					}
				}
			}
		}
	}
	for _, fc := range fam {
		{
			c, he := fc.c, fc.env
			callee := c.Call.StaticCallee()
			if inner := ctorCallIn(fc.fn, c, ctor); inner != nil {
				nSites++
				built = append(built, fc.site)
				// end to end: what the constructor puts into the header / keeps as camera, read with its parameters bound
				// to this site's arguments
				fe := factoryEnv(he, c, inner)
				be := fe.child()
				for i, p := range ctor.Params {
					if i < len(inner.Call.Args) {
						be.bind[p] = fe.termOf(inner.Call.Args[i])
					}
				}
				hdr := storesInto(w, be, ctor, "github.com/TheCacophonyProject/go-cptv", "Header")
				var args, want []string
				for _, f := range []string{"Brand", "Model", "CameraSerial", "Firmware"} {
					g := "<unset>"
					if len(hdr[f]) == 1 {
						g = canonCam(hdr[f][0])
					}
					args = append(args, f+"="+g)
					want = append(want, f+"=headers.HeaderInfo."+f+"("+hi+")")
				}
				args = append(args, "conf="+fe.termOf(inner.Call.Args[confParam]).String(), "camera="+canonCam(fe.termOf(inner.Call.Args[camParam]).String()))
				want = append(want, "conf="+he.termOf(ci2.setup.Params[1]).String(), "camera="+hi)
				r.Check(strings.Join(args, " ; ") == strings.Join(want, " ; "), "H1", fmt.Sprintf("recorder construction site #%d: the header's brand/model/serial/firmware are headerInfo's, built from this configuration and camera description", nSites), w.InstrPos(c), strings.Join(args, " ; "))
			}
			if callee != nil && callee.Name() == "NewMotionProcessor" {
				built = append(built, fc.site)
				// shares conf
				a1, a2 := he.termOf(c.Call.Args[1]).String(), he.termOf(c.Call.Args[2]).String()
				p := he.termOf(ci2.setup.Params[1]).String()
				r.Check(a1 == "addr(main.Config.Motion@"+p+")" && a2 == "addr(main.Config.Recorder@"+p+")" && canonCam(he.termOf(c.Call.Args[6]).String()) == hi, "H4", "the processor is built from the same config object's motion and recorder settings and the connection's camera description", w.InstrPos(c), a1+" ; "+a2)
			}
		}
	}
	r.Check(nSites == 3, "H1", "three recorder construction sites (motion, continuous, test)", w.Pos(ci2.setup.Pos()), fmt.Sprint(nSites))
	// H4
	if loadCall == nil {
		r.Fail("H4", "camera-model motion defaults are loaded", w.Pos(ci2.setup.Pos()), "no LoadMotionConfig call in the connection handler", "")
	} else {
		arg := canonCam(he.termOf(loadCall.Call.Args[1]).String())
		r.Check(arg == "headers.HeaderInfo.Model("+hi+")" && he.termOf(loadCall.Call.Args[0]).String() == he.termOf(ci2.setup.Params[1]).String(), "H4", "motion config loaded for the connected camera's model into the shared config", w.InstrPos(loadCall), arg)
		okDom := true
		for _, c := range built {
			if !(loadCall.Block() == c.Block() && instrIndex(loadCall) < instrIndex(c) || loadCall.Block() != c.Block() && loadCall.Block().Dominates(c.Block())) {
				okDom = false
			}
		}
		r.Check(okDom && len(built) == 4, "H4", "the motion config is loaded before any recorder or the processor is built", w.InstrPos(loadCall), fmt.Sprintf("%d construction sites", len(built)))
		lm := loadCall.Call.StaticCallee()
		le := newTermEnv(w)
		okStore := false
		for _, b := range lm.Blocks {
			for _, in := range b.Instrs {
				if s, ok := in.(*ssa.Store); ok {
					if fa, ok := s.Addr.(*ssa.FieldAddr); ok && structOf(fa.X.Type()).Field(fa.Field).Name() == "Motion" && fa.X == ssa.Value(lm.Params[0]) {
						t := le.termOf(s.Val).String()
						okStore = strings.HasPrefix(t, "deref(#0(") && strings.Contains(t, "motion.NewConfig(") && strings.HasSuffix(t, ", "+le.termOf(lm.Params[1]).String()+")))")
						r.Check(okStore, "H4", "LoadMotionConfig stores motion.NewConfig(config, camera model) into Config.Motion", w.InstrPos(s), t)
					}
				}
			}
		}
		if !okStore {
			r.Floor("H4", 5)
		}
		checkValidatorVsConsumer(w, r, "H4")
	}
	// a file bears its final name only once its content is complete: closed (compressed, counts written) before the
	// rename (the stop-path rules of C10)
	linkObligations(w, r, propC10, "C10", func(o *Obligation) bool {
		return strings.HasPrefix(o.Construct, "the writer is closed before its file is renamed") || strings.HasPrefix(o.Construct, "FileWriter.Close compresses")
	}, "H1")
	// trigger-frames shapes which files are produced: a recording starts only on the frame that completes trigger-frames
	// motion frames counted since the previous recording ended (the counter rules of C04)
	linkObligations(w, r, propC04, "C04", func(o *Obligation) bool { return o.Rule == "C04.S3" || o.Rule == "C04.S4" }, "H3")
	// every frame of the stream reaches the files: the parsers reject exactly the frames with a zero pixel outside the
	// border (a valid frame that is rejected is missing from every recording)
	checkParsers(w, r, "H5")
	// preview-secs and min-secs also shape the files through the throttler: its minimum recording length is their sum
	checkThrottleWiringAs(w, r, "H4", false)
	// the throttler sits between the processor and the file recorder when activated: it must pass the trigger's
	// background and threshold through, also for files it re-opens mid-trigger
	if tr, err := getThrottleRuns(w); err == nil {
		checkThrottlePassThrough(w, r, tr, "H1")
	} else {
		r.Unknown("H1", "throttle pass-through", "-", err.Error())
	}
	if dd := getDetector(w); dd.Err == nil {
		checkProcessorStartArgs(w, r, dd, "H1") // the background frame / threshold stored in each file are the detector's, read at the start
	} else {
		r.Unknown("H1", "processor start arguments", "-", dd.Err.Error())
	}
	// "every frame of the finished file is a frame that was sent": header and frames come through one buffered reader
	if ci3 := analyseHandleConn(w); ci3.err == nil {
		checkSingleBufferedReader(w, r, newTermEnv(w), "H1", "the camera description and every recorded frame are read through the same bufio.Reader", ci3.handlerFuncs(), ci3.hdrCall, []*ssa.Call{ci3.probe, ci3.rest}, ci3.inSetup)
	}
	// "from the bytes on the frame socket": every frame read asks for exactly its bytes (a short read shifts every later frame)
	linkObligations(w, r, propC14, "C14", func(o *Obligation) bool { return o.Rule == "C14.M3" && strings.Contains(o.Construct, "is io.ReadFull") }, "H1")
	checkRecorderWriteDelivers(w, r, T, "H1")
	checkHeaderInfoGetters(w, r)
	checkConfigMapping(w, r)
	checkParserSelection(w, r, ci2)
	checkSettingsImmutable(w, r, "H3", "ThermalMotion", "RecorderConfig", "ThermalRecorder", "ThermalThrottler", "Windows", "Location", "Config")
}

// H2
func checkHeaderInfoGetters(w *World, r *Report) {
	T := w.NamedType("headers", "HeaderInfo")
	rh := w.Func("headers", "ReadHeaderInfo")
	if T == nil || rh == nil {
		r.Unknown("H2", "headers.HeaderInfo", "-", "not found")
		return
	}
	st := T.Underlying().(*types.Struct)
	// field <- key
	fieldKey := map[int]string{}
	var rhBlocks []*ssa.BasicBlock
	for _, f := range w.funcFamily(rh) {
		rhBlocks = append(rhBlocks, f.Blocks...)
	}
	for _, b := range rhBlocks {
		for _, in := range b.Instrs {
			s, ok := in.(*ssa.Store)
			if !ok {
				continue
			}
			fa, ok := s.Addr.(*ssa.FieldAddr)
			if !ok || !isPtrTo(fa.X.Type(), T) {
				continue
			}
			c, ok := s.Val.(*ssa.Call)
			if !ok {
				continue
			}
			// the look-up inside a small accessor that is handed the key: accessor(key) / table.accessor(key)
			if callee := c.Call.StaticCallee(); callee != nil && len(callee.Blocks) > 0 && w.IsRepoFunc(callee) {
				for ai, a := range c.Call.Args {
					k, isC := a.(*ssa.Const)
					if !isC || k.Value == nil || k.Value.Kind() != constant.String || ai >= len(callee.Params) {
						continue
					}
					for _, cb := range callee.Blocks {
						for _, cin := range cb.Instrs {
							if lk, isLk := cin.(*ssa.Lookup); isLk && lk.Index == ssa.Value(callee.Params[ai]) {
								fieldKey[fa.Field] = constant.StringVal(k.Value)
							}
						}
					}
				}
			}
			if len(c.Call.Args) != 1 {
				continue
			}
			lk, ok := c.Call.Args[0].(*ssa.Lookup)
			if !ok {
				continue
			}
			if k, ok := lk.Index.(*ssa.Const); ok && k.Value.Kind() == constant.String {
				fieldKey[fa.Field] = constant.StringVal(k.Value)
			}
		}
	}
	want := map[string]string{"ResX": "ResX", "ResY": "ResY", "FPS": "FPS", "FrameSize": "FrameSize", "Brand": "Brand", "Model": "Model", "Firmware": "Firmware", "CameraSerial": "CameraSerial"}
	var gs []string
	for g := range want {
		gs = append(gs, g)
	}
	sort.Strings(gs)
	for _, g := range gs {
		fn := findMethod(w.Prog, T, g)
		if fn == nil {
			r.Fail("H2", "getter "+g, "-", "method not found", "")
			continue
		}
		fi := -1
		for _, b := range fn.Blocks {
			if ret, ok := b.Instrs[len(b.Instrs)-1].(*ssa.Return); ok && len(ret.Results) == 1 {
				if u, ok := ret.Results[0].(*ssa.UnOp); ok {
					if fa, ok := u.X.(*ssa.FieldAddr); ok && isPtrTo(fa.X.Type(), T) {
						fi = fa.Field
					}
				}
			}
		}
		key := fieldKey[fi]
		fname := "?"
		if fi >= 0 {
			fname = st.Field(fi).Name()
		}
		r.Check(fi >= 0 && key == want[g], "H2", "getter "+g+"() returns the field filled from header key \""+want[g]+"\"", w.Pos(fn.Pos()), fmt.Sprintf("field %s <- key %q", fname, key))
	}
	// the key constants of package headers have these values
	hp := w.Pkg("headers")
	for name, val := range map[string]string{"XResolution": "ResX", "YResolution": "ResY", "FPS": "FPS", "FrameSize": "FrameSize", "Brand": "Brand", "Model": "Model", "Firmware": "Firmware", "Serial": "CameraSerial"} {
		c, ok := hp.Members[name].(*ssa.NamedConst)
		got := ""
		if ok {
			got = constant.StringVal(c.Value.Value)
		}
		r.Check(got == val, "H2", "headers."+name+" = \""+val+"\"", "-", got)
	}
}

// H3
func checkConfigMapping(w *World, r *Report) {
	e := newTermEnv(w)
	e.valueHelpers = true
	type m struct {
		pkg, fn, typPkg, typ string
		want                 map[string]string
	}
	gc := "github.com/TheCacophonyProject/go-config"
	tables := []m{
		{"cmd/thermal-recorder", "ParseConfig", modPath + "/cmd/thermal-recorder", "Config", map[string]string{
			"ConfigDir": "param:string", "DeviceID": "config.Device.ID@alloc:config.Device", "DeviceName": "config.Device.Name@alloc:config.Device",
			"FrameInput": "config.Lepton.FrameOutput@alloc:config.Lepton", "OutputDir": "config.ThermalRecorder.OutputDir@alloc:config.ThermalRecorder",
			"MinDiskSpace": "config.ThermalRecorder.MinDiskSpaceMB@alloc:config.ThermalRecorder", "Location": "local:config.Location"}},
		{"recorder", "NewConfig", modPath + "/recorder", "RecorderConfig", map[string]string{
			"MinSecs": "config.ThermalRecorder.MinSecs@alloc:config.ThermalRecorder", "MaxSecs": "config.ThermalRecorder.MaxSecs@alloc:config.ThermalRecorder",
			"PreviewSecs": "config.ThermalRecorder.PreviewSecs@alloc:config.ThermalRecorder", "ConstantRecorder": "config.ThermalRecorder.ConstantRecorder@alloc:config.ThermalRecorder"}},
	}
	for _, tb := range tables {
		fn := w.LoaderFunc(tb.pkg, tb.fn)
		if fn == nil {
			r.Unknown("H3", tb.pkg+"."+tb.fn, "-", "not found")
			continue
		}
		got := storesInto(w, e, fn, tb.typPkg, tb.typ)
		var ks []string
		for k := range tb.want {
			ks = append(ks, k)
		}
		sort.Strings(ks)
		for _, k := range ks {
			g := got[k]
			if len(g) == 0 && strings.HasPrefix(tb.want[k], "local:") {
				// the section decoded straight into the field (Unmarshal(key, &conf.K)) instead of through a local
				for _, b := range fn.Blocks {
					for _, in := range b.Instrs {
						if c, ok := in.(*ssa.Call); ok {
							_, tgt, isU := configUnmarshalArgs(w, c)
							if !isU {
								continue
							}
							if fa, ok := unwrapIface(tgt).(*ssa.FieldAddr); ok && structOf(fa.X.Type()) != nil && structOf(fa.X.Type()).Field(fa.Field).Name() == k && typeIs(fa.X.Type(), tb.typPkg, tb.typ) && "local:"+typeShort(fa.Type()) == tb.want[k] {
								g = []string{tb.want[k]}
							}
						}
					}
				}
			}
			r.Check(len(g) == 1 && g[0] == tb.want[k], "H3", tb.typ+"."+k+" <- like-named go-config setting", w.Pos(fn.Pos()), strings.Join(g, " | ")+" (want "+tb.want[k]+")")
		}
		// composite settings
		if tb.fn == "ParseConfig" {
			for k, sub := range map[string]string{"Recorder": "recorder.NewConfig(", "Throttler": "throttle.NewConfig("} {
				g := got[k]
				r.Check(len(g) == 1 && strings.HasPrefix(g[0], "deref(#0(") && strings.Contains(g[0], sub), "H3", "Config."+k+" <- "+sub+"...)", w.Pos(fn.Pos()), strings.Join(g, " | "))
			}
		}
		if tb.fn == "NewConfig" {
			g := got["Window"]
			okW := len(g) == 1 && strings.Contains(g[0], "window.New(config.Windows.StartRecording@alloc:config.Windows, config.Windows.StopRecording@alloc:config.Windows, config.Location.Latitude@alloc:config.Location, config.Location.Longitude@alloc:config.Location)")
			r.Check(okW, "H3", "RecorderConfig.Window <- window.New(windows.start-recording, windows.stop-recording, location lat/long)", w.Pos(fn.Pos()), strings.Join(g, " | "))
		}
	}
	// section keys: each Unmarshal(key, &x) uses the key belonging to x's type
	wantKey := map[string]string{"config.ThermalRecorder": "thermal-recorder", "config.Location": "location", "config.Windows": "windows", "config.Lepton": "lepton",
		"config.Device": "device", "config.ThermalThrottler": "thermal-throttler", "config.ThermalMotion": "thermal-motion"}
	n := 0
	loaders := map[*ssa.Function]bool{}
	defer func() {
		// ... and a loader that calls another loader (or opens the configuration) returns that one's error as well
		var ls []*ssa.Function
		for _, fn := range w.RepoFuncs() {
			nres := fn.Signature.Results().Len()
			if fn.Pkg == nil || nres == 0 || fn.Signature.Results().At(nres-1).Type().String() != "error" {
				continue
			}
			ls = append(ls, fn)
		}
		nSub := 0
		for _, fn := range ls {
			calls := false
			for _, b := range fn.Blocks {
				for _, in := range b.Instrs {
					if c, ok := in.(*ssa.Call); ok && c.Call.StaticCallee() != nil && loaders[c.Call.StaticCallee()] {
						calls = true
					}
				}
			}
			if !calls && !loaders[fn] || hasLoop(fn) {
				continue // (a function that reloads in a loop - the change watcher - is not a loader)
			}
			for _, b := range fn.Blocks {
				for _, in := range b.Instrs {
					c, ok := in.(*ssa.Call)
					if !ok || c.Call.StaticCallee() == nil {
						continue
					}
					cl := c.Call.StaticCallee()
					if loaders[cl] || cl.String() == "github.com/TheCacophonyProject/go-config.New" || cl.String() == "github.com/TheCacophonyProject/window.New" {
						nSub++
						r.Check(callErrorReturned(c), "H3", fn.Name()+": the error of "+cl.Name()+" ("+cl.Pkg.Pkg.Name()+") is returned", w.InstrPos(c), "")
					}
					// the configuration is opened in the directory the daemon was started with
					if cl.String() == "github.com/TheCacophonyProject/go-config.New" && len(c.Call.Args) == 1 {
						t := e.termOf(c.Call.Args[0]).String()
						r.Check(t == "param:string" || strings.HasPrefix(t, "main.Config.ConfigDir@"), "H3", fn.Name()+": the configuration is read from the configured directory", w.InstrPos(c), t)
					}
				}
			}
		}
		r.Check(nSub >= 4, "G4", "loader-in-loader calls found", "-", fmt.Sprint(nSub))
	}()
	for _, fn := range w.RepoFuncs() {
		if fn.Pkg == nil {
			continue
		}
		pp := fn.Pkg.Pkg.Path()
		if !(strings.HasSuffix(pp, "/cmd/thermal-recorder") || strings.HasSuffix(pp, "/recorder") || strings.HasSuffix(pp, "/motion") || strings.HasSuffix(pp, "/throttle")) {
			continue
		}
		for _, b := range fn.Blocks {
			for _, in := range b.Instrs {
				c, ok := in.(*ssa.Call)
				if !ok {
					continue
				}
				keyV, tgtV, isU := configUnmarshalArgs(w, c)
				if !isU {
					continue
				}
				n++
				key, _ := constString(e.termOf(keyV))
				target := unwrapIface(tgtV)
				tn := typeShort(target.Type())
				r.Check(wantKey[tn] == key && key != "", "H3", fn.Name()+": section \""+key+"\" is decoded into "+tn, w.InstrPos(c), "")
				// a section that cannot be decoded aborts loading: the error is tested and, when not nil, returned (the
				// reverse test, or a swallowed error, leaves the daemon running on defaults the file does not contain)
				r.Check(callErrorReturned(c), "H3", fn.Name()+": a decoding error of section \""+key+"\" is returned", w.InstrPos(c), "")
				loaders[fn] = true
			}
		}
	}
	r.Check(n >= 8, "G4", "config section reads found", "-", fmt.Sprint(n))
	// motion.NewConfig: defaults for the camera model, then the section
	mn := w.Func("motion", "NewConfig")
	if mn != nil {
		okD := false
		for _, b := range mn.Blocks {
			for _, in := range b.Instrs {
				if c, ok := in.(*ssa.Call); ok && calleeName(c) == "config.DefaultThermalMotion" {
					okD = c.Call.Args[0] == ssa.Value(mn.Params[1])
				}
			}
		}
		r.Check(okD, "H3", "motion.NewConfig starts from the camera-model defaults", w.Pos(mn.Pos()), "")
	}
	_ = gc
}

// H5
func checkParserSelection(w *World, r *Report, ci *connInfo) {
	sel := findParserSelector(w)
	if sel == nil {
		r.Unknown("H5", "frameParser", "-", "not found")
		return
	}
	e := newTermEnv(w)
	outs, complete := selectorOutcomes(e, sel)
	if !complete {
		r.Unknown("H5", "frameParser", w.Pos(sel.Pos()), "not loop-free")
		return
	}
	l3 := w.SSAPkgs["github.com/TheCacophonyProject/lepton3"]
	cval := func(name string) string {
		if l3 == nil {
			return "?"
		}
		if c, ok := l3.Members[name].(*ssa.NamedConst); ok {
			return c.Value.Value.ExactString()
		}
		return "?"
	}
	var brand, model string
	if len(sel.Params) == 2 {
		brand, model = e.termOf(sel.Params[0]).String(), e.termOf(sel.Params[1]).String()
	} else {
		// the selector is handed the camera description and asks it for brand and model itself
		cam := e.termOf(sel.Params[0]).String()
		brand, model = "headers.HeaderInfo.Brand("+cam+")", "headers.HeaderInfo.Model("+cam+")"
	}
	flir := eqStr(`"flir"`, brand)
	m3, m35, boson := eqStr(cval("Model"), model), eqStr(cval("Model35"), model), eqStr(`"boson"`, model)
	for i, o := range outs {
		ret := o.ret
		isFlir := hasCond(o.conds, flir)
		var want string
		switch {
		case !isFlir:
			want = "nil"
		case hasCond(o.conds, m3) || hasCond(o.conds, m35):
			want = "func:github.com/TheCacophonyProject/lepton3.ParseRawFrame"
		case hasCond(o.conds, boson):
			want = "func:<the repository's own Boson parser>"
			if strings.HasPrefix(ret, "func:"+modPath+"/cmd/thermal-recorder.") {
				want = ret // identified structurally; its little-endian decoding and border predicate are C13.B1's
			}
		default:
			want = "nil"
		}
		cs := append([]string{}, o.conds...)
		sort.Strings(cs)
		r.Check(ret == want, "H5", fmt.Sprintf("parser selection path %d [%s]", i+1, strings.Join(cs, " ∧ ")), w.InstrPos(o.pos), ret)
		// every condition is one of the four specified tests
		for _, s := range o.conds {
			if strings.HasPrefix(s, "ne(") {
				s = "eq(" + strings.TrimPrefix(s, "ne(")
			}
			r.Check(s == flir || s == m3 || s == m35 || s == boson, "H5", "selection only tests brand == flir and model in {lepton3, lepton3.5, boson}", w.InstrPos(o.pos), s)
		}
	}
	paths := outs
	r.Check(len(paths) == 5, "H5", "five selection outcomes", w.Pos(sel.Pos()), fmt.Sprint(len(paths)))
	// the handler refuses an unknown camera before building anything and passes the selected parser on
	he := newTermEnv(w)
	if he.forceInline == nil {
		he.forceInline = map[*ssa.Function]bool{}
	}
	he.forceInline[sel] = false // the selection stays a call, however small its body is
	for _, b := range ci.setup.Blocks {
		for _, in := range b.Instrs {
			if c, ok := in.(*ssa.Call); ok && c.Call.StaticCallee() != nil && c.Call.StaticCallee().Name() == "NewMotionProcessor" {
				t := camCanon(w, ci.setup)(he.termOf(c.Call.Args[0]).String())
				hi := "global:main.headerInfo"
				r.Check(strings.HasSuffix(t, "."+sel.Name()+"(headers.HeaderInfo.Brand("+hi+"), headers.HeaderInfo.Model("+hi+"))") || strings.HasSuffix(t, "."+sel.Name()+"("+hi+")"), "H5", "the processor parses with the parser selected for headerInfo's brand and model", w.InstrPos(c), t)
				gs := he.guardsOf(b)
				okNil := false
				for _, g := range gs {
					if strings.HasPrefix(g.String(), "ne(") && strings.Contains(g.String(), "."+sel.Name()+"(") {
						okNil = true
					}
				}
				r.Check(okNil, "H5", "an unsupported camera is refused before the processor is built", w.InstrPos(c), "")
			}
		}
	}
}

// strPieces: a string-valued term as the sequence of pieces it concatenates — constants (adjacent ones merged), values,
// and dec(x) for a decimal rendering of an integer — through +, fmt.Sprintf with a constant format made of %s/%d/%v
// verbs, strconv.Itoa / FormatInt / FormatUint (base 10) and fmt.Sprint of one value. nil when the term has another form.
func strPieces(t *Term) []string {
	var out []string
	push := func(p string) {
		if n := len(out); n > 0 && strings.HasPrefix(p, `"`) && strings.HasPrefix(out[n-1], `"`) {
			a, _ := strconv.Unquote(out[n-1])
			b, _ := strconv.Unquote(p)
			out[n-1] = strconv.Quote(a + b)
			return
		}
		out = append(out, p)
	}
	stripConv := func(x *Term) *Term {
		for (x.Op == "call" || x.Op == "conv" || x.Op == "trunc") && len(x.Args) == 1 && (x.Op != "call" || strings.HasPrefix(x.Name, "convert")) {
			x = x.Args[0]
		}
		return x
	}
	var walk func(x *Term) bool
	walk = func(x *Term) bool {
		if _, ok := constString(x); ok {
			push(x.Name)
			return true
		}
		switch {
		case x.Op == "concat" && len(x.Args) == 2:
			return walk(x.Args[0]) && walk(x.Args[1])
		case x.Op == "call" && strings.HasSuffix(x.Name, "fmt.Sprintf") && len(x.Args) == 2 && x.Args[1].Op == "list":
			f, ok := constString(x.Args[0])
			if !ok {
				return false
			}
			args := x.Args[1].Args
			ai := 0
			for len(f) > 0 {
				i := strings.IndexByte(f, '%')
				if i < 0 {
					push(strconv.Quote(f))
					break
				}
				if i > 0 {
					push(strconv.Quote(f[:i]))
				}
				if i+1 >= len(f) || ai >= len(args) {
					return false
				}
				switch f[i+1] {
				case 's':
					push(args[ai].String())
				case 'd':
					push("dec(" + stripConv(args[ai]).String() + ")")
				default:
					return false
				}
				ai++
				f = f[i+2:]
			}
			return ai == len(args)
		case x.Op == "call" && (strings.HasSuffix(x.Name, "strconv.FormatUint") || strings.HasSuffix(x.Name, "strconv.FormatInt")) && len(x.Args) == 2 && x.Args[1].String() == "10":
			push("dec(" + stripConv(x.Args[0]).String() + ")")
			return true
		case x.Op == "call" && strings.HasSuffix(x.Name, "strconv.Itoa") && len(x.Args) == 1:
			push("dec(" + stripConv(x.Args[0]).String() + ")")
			return true
		}
		push(x.String())
		return true
	}
	if !walk(t) {
		return nil
	}
	return out
}

// camCanon: the camera description of a connection is the value the handler reads with headers.ReadHeaderInfo and
// publishes in the package variable headerInfo (its only store in the program). Code of the handler may use either the
// variable or the local it was stored from; terms are compared after rewriting the local's term to the variable.
func camCanon(w *World, setup *ssa.Function) func(string) string {
	e := newTermEnv(w)
	var vals []string
	n := 0
	for _, fn := range w.RepoFuncs() {
		for _, b := range fn.Blocks {
			for _, in := range b.Instrs {
				if st, ok := in.(*ssa.Store); ok {
					if g, ok := st.Addr.(*ssa.Global); ok && g.Name() == "headerInfo" && g.Pkg == setup.Pkg {
						n++
						if fn == setup {
							vals = append(vals, e.termOf(st.Val).String())
						}
					}
				}
			}
		}
	}
	if n != 1 || len(vals) != 1 || !strings.Contains(vals[0], "headers.ReadHeaderInfo(") {
		return func(t string) string { return t }
	}
	return func(t string) string { return strings.ReplaceAll(t, vals[0], "global:main.headerInfo") }
}

// checkRecorderWriteDelivers: every frame the file recorder is handed reaches the CPTV writer: on every path of
// WriteFrame that does not fail beforehand the frame argument is passed to the file writer's WriteFrame exactly once,
// and what that call returns is what WriteFrame returns (a swallowed frame or a swallowed error both leave a file that
// does not hold what was recorded).
func checkRecorderWriteDelivers(w *World, r *Report, T *types.Named, rule string) {
	fn := findMethod(w.Prog, T, "WriteFrame")
	if fn == nil || len(fn.Params) < 2 {
		r.Unknown(rule, "CPTVFileRecorder.WriteFrame", "-", "method not found")
		return
	}
	e := newTermEnv(w)
	paths, complete := enumPathsInl(e, fn, 64, sameReceiverHelperOf(fn))
	if !complete || len(paths) == 0 {
		r.Unknown(rule, "CPTVFileRecorder.WriteFrame", w.Pos(fn.Pos()), "paths not enumerable")
		return
	}
	for i, p := range paths {
		var deliver []*ssa.Call
		for _, in := range p.Instrs {
			c, ok := in.(*ssa.Call)
			if !ok {
				continue
			}
			cl := c.Call.StaticCallee()
			if cl != nil && cl.Name() == "WriteFrame" && cl.Signature.Recv() != nil && (typeIs(cl.Signature.Recv().Type(), "github.com/TheCacophonyProject/go-cptv", "FileWriter") || typeIs(cl.Signature.Recv().Type(), "github.com/TheCacophonyProject/go-cptv", "Writer")) {
				if len(c.Call.Args) >= 2 && p.Origin(c.Call.Args[1]) == ssa.Value(fn.Params[1]) {
					deliver = append(deliver, c)
				}
			}
		}
		rv := p.Origin(p.Ret.Results[0])
		name := fmt.Sprintf("the recorder's WriteFrame path %d hands the frame to the CPTV writer once and returns that call's error", i+1)
		switch {
		case len(deliver) == 1 && (rv == ssa.Value(deliver[0]) || isNilConst(rv) && pathOnNilEdge(p, deliver[0])):
			r.Pass(rule, name, w.InstrPos(p.Ret), "")
		case len(deliver) == 0 && provablyNonNilError(e, p.Ret.Block(), p.Ret.Results[0]):
			r.Pass(rule, name, w.InstrPos(p.Ret), "refused before writing, with an error")
		default:
			r.Fail(rule, name, w.InstrPos(p.Ret), fmt.Sprintf("%d delivering calls, returns %s", len(deliver), p.Term(e, p.Ret.Results[0]).String()), "")
		}
	}
}

// pathOnNilEdge: the path tested the error of call c against nil and went on where it IS nil.
func pathOnNilEdge(p *Path, c *ssa.Call) bool {
	for _, g := range p.Conds {
		bo, ok := g.If.Cond.(*ssa.BinOp)
		if !ok {
			continue
		}
		if (isErrResultOf(bo.X, c) && isNilConst(bo.Y)) || (isErrResultOf(bo.Y, c) && isNilConst(bo.X)) {
			if (bo.Op == token.EQL && g.Pos) || (bo.Op == token.NEQ && !g.Pos) {
				return true
			}
		}
	}
	return false
}

func errorIface() *types.Interface {
	return types.Universe.Lookup("error").Type().Underlying().(*types.Interface)
}

// checkValidatorVsConsumer is a contradiction rule (two places of the repository stating opposite beliefs about one
// value): where the detector gives the zero value of a motion setting a meaning of its own ("if d.tempThreshMax != 0":
// zero = no maximum), zero is an in-range value of that setting, and the validator of the motion settings must not
// reject it - every rejecting path of the validator that looks at the setting is guarded by "setting != 0" (or > 0).
// Rejected, the loader fails, the connection handler goes on, and the files carry all-zero motion settings.
func checkValidatorVsConsumer(w *World, r *Report, rule string) {
	vc := w.Func("motion", "validateConfig")
	ctor := w.Func("motion", "NewMotionDetector")
	if vc == nil || ctor == nil {
		r.Unknown(rule, "motion settings validator / detector constructor", "-", "not found")
		return
	}
	e := newTermEnv(w)
	// detector field -> setting it is initialised from (constructor stores)
	fromSetting := map[string]string{}
	for _, b := range ctor.Blocks {
		for _, in := range b.Instrs {
			st, ok := in.(*ssa.Store)
			if !ok {
				continue
			}
			fa, ok := st.Addr.(*ssa.FieldAddr)
			if !ok || !typeIs(fa.X.Type(), modPath+"/motion", "motionDetector") {
				continue
			}
			t := e.termOf(st.Val).String()
			if i := strings.Index(t, "ThermalMotion."); i >= 0 && !strings.ContainsAny(t, "(+*") {
				f := t[i+len("ThermalMotion."):]
				if j := strings.IndexAny(f, "@) ,"); j >= 0 {
					f = f[:j]
				}
				fromSetting[structOf(fa.X.Type()).Field(fa.Field).Name()] = f
			}
		}
	}
	// settings whose zero value the detector singles out
	special := map[string]string{}
	for _, fn := range w.RepoFuncs() {
		if fn.Pkg == nil || fn.Pkg.Pkg.Path() != modPath+"/motion" {
			continue
		}
		for _, b := range fn.Blocks {
			iff, ok := b.Instrs[len(b.Instrs)-1].(*ssa.If)
			if !ok {
				continue
			}
			bo, ok := iff.Cond.(*ssa.BinOp)
			if !ok || (bo.Op != token.NEQ && bo.Op != token.EQL) {
				continue
			}
			for _, pair := range [][2]ssa.Value{{bo.X, bo.Y}, {bo.Y, bo.X}} {
				c, isC := pair[1].(*ssa.Const)
				if !isC || c.Value == nil || c.Value.Kind() != constant.Int || constant.Sign(c.Value) != 0 {
					continue
				}
				if u, ok := pair[0].(*ssa.UnOp); ok && u.Op == token.MUL {
					if fa, ok := u.X.(*ssa.FieldAddr); ok && typeIs(fa.X.Type(), modPath+"/motion", "motionDetector") {
						if s, ok := fromSetting[structOf(fa.X.Type()).Field(fa.Field).Name()]; ok {
							special[s] = w.InstrPos(iff)
						}
					}
				}
			}
		}
	}
	paths, complete := enumPaths(e, vc, 128)
	if !complete {
		r.Unknown(rule, "motion settings validator", w.Pos(vc.Pos()), "not loop-free")
		return
	}
	var names []string
	for s := range special {
		names = append(names, s)
	}
	sort.Strings(names)
	for _, s := range names {
		bad := ""
		for _, p := range paths {
			if len(p.Ret.Results) == 0 {
				continue
			}
			if c, ok := p.Ret.Results[len(p.Ret.Results)-1].(*ssa.Const); ok && c.IsNil() {
				continue
			}
			looks, excluded := false, false
			for _, g := range p.Conds {
				gs := g.String()
				if !strings.Contains(gs, "ThermalMotion."+s+"@") {
					continue
				}
				looks = true
				// "x < setting" cannot hold for setting = 0 when the setting is unsigned
				if strings.HasPrefix(gs, "lt(") && strings.HasSuffix(gs, ", config.ThermalMotion."+s+"@param:config.ThermalMotion)") && unsignedSetting(vc, s) {
					excluded = true
				}
				for _, pre := range []string{"ne(0, ", "lt(0, ", "gt("} {
					if strings.HasPrefix(gs, pre) && strings.Count(gs, "ThermalMotion.") == 1 && (pre != "gt(" || strings.HasSuffix(gs, ", 0)")) {
						excluded = true
					}
				}
			}
			if looks && !excluded && bad == "" {
				bad = strings.Join(guardStrings(p.Conds), " ∧ ")
			}
		}
		name := "the validator does not reject " + s + " = 0, which the detector gives a meaning of its own"
		if bad != "" {
			r.Fail(rule, name, w.Pos(vc.Pos()), "a rejecting path looks at "+s+" without excluding 0 ["+bad+"], while the detector singles out 0 at "+special[s]+": a configuration that leaves the setting at 0 fails to load, the handler goes on, and the files carry all-zero motion settings", "")
		} else {
			r.Pass(rule, name, w.Pos(vc.Pos()), fmt.Sprintf("%d validator paths; zero singled out at %s", len(paths), special[s]))
		}
	}
	r.Check(len(names) >= 1, "G4", "settings whose zero value the detector singles out", "-", strings.Join(names, ","))
}

func unsignedSetting(vc *ssa.Function, field string) bool {
	if len(vc.Params) == 0 {
		return false
	}
	st := structOf(vc.Params[0].Type())
	if st == nil {
		return false
	}
	for i := 0; i < st.NumFields(); i++ {
		if st.Field(i).Name() == field {
			bt, ok := st.Field(i).Type().Underlying().(*types.Basic)
			return ok && bt.Info()&types.IsUnsigned != 0
		}
	}
	return false
}
