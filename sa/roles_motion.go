package main

import (
	"fmt"
	"sort"
	"strings"
)

// motionRoles: private fields of MotionProcessor identified by what they do (G2), from the
// census of the fix-point, never by name.
type motionRoles struct {
	Written   string // +1 exactly with each current-frame write to the motion sink
	Target    string // compared with Written in the stop guard
	StopLabel string // decision label of that comparison
	Trig      string // +1 exactly on frames with detect=T
	TrigLimit string // compared with Trig before a start
	TrigLabel string
	CRCount   string // +1 exactly with each write to the continuous sink
	CRLabel   string
	CRLimit   string
	SNCount   string
	SNLabel   string
	SNLimit   string
	Problems  []string
}

type cmpLabel struct {
	Raw, X, Op, Y string
}

func parseCmpLabel(l string) (cmpLabel, bool) {
	if !strings.HasPrefix(l, "cmp ") {
		return cmpLabel{}, false
	}
	parts := strings.Split(strings.TrimPrefix(l, "cmp "), " ")
	if len(parts) != 3 {
		return cmpLabel{}, false
	}
	return cmpLabel{Raw: l, X: parts[0], Op: parts[1], Y: parts[2]}, true
}

func resolveMotionRoles(run *tsRun) *motionRoles {
	r := &motionRoles{}
	// collect exit contexts of frame calls
	var exits []*Ctx
	for _, ev := range run.Events {
		if ev.Kind == "exit" {
			exits = append(exits, ev.Ctxs...)
		}
	}
	incFields := map[string]bool{}
	for _, c := range exits {
		for g := range c.Ghosts {
			if strings.HasPrefix(g, "inc:") {
				incFields[strings.TrimPrefix(g, "inc:")] = true
			}
		}
	}
	var fields []string
	for f := range incFields {
		fields = append(fields, f)
	}
	sort.Strings(fields)
	correlated := func(f string, other func(c *Ctx) (int8, bool)) bool {
		seen := false
		for _, c := range exits {
			o, applicable := other(c)
			if !applicable {
				continue
			}
			if c.Ghosts["inc:"+f] != o {
				return false
			}
			if o > 0 {
				seen = true
			}
		}
		return seen
	}
	pick := func(what string, other func(c *Ctx) (int8, bool)) string {
		var got []string
		for _, f := range fields {
			if correlated(f, other) {
				got = append(got, f)
			}
		}
		if len(got) != 1 {
			r.Problems = append(r.Problems, fmt.Sprintf("role %s: %d candidate counter fields %v", what, len(got), got))
			return ""
		}
		return got[0]
	}
	r.Written = pick("frames-written counter", func(c *Ctx) (int8, bool) { return c.Ghosts["wcur:motion"], true })
	r.Trig = pick("consecutive-motion counter", func(c *Ctx) (int8, bool) {
		d, ok := c.Dec["detect"]
		if !ok {
			return 0, false
		}
		return d, true
	})
	r.CRCount = pick("continuous frame counter", func(c *Ctx) (int8, bool) { return c.Ghosts["wcur:continuous"], c.Present[roleContinuous] == 1 })
	r.SNCount = pick("test-recording frame counter", func(c *Ctx) (int8, bool) { return c.Ghosts["wcur:test"], c.Present[roleTest] == 1 })
	// comparison labels
	labels := map[string]bool{}
	for _, ev := range run.Events {
		if strings.HasPrefix(ev.Kind, "dec:") {
			labels[strings.TrimPrefix(ev.Kind, "dec:")] = true
		}
	}
	find := func(counter, what string) (label, other string) {
		if counter == "" {
			return "", ""
		}
		var got []cmpLabel
		for l := range labels {
			cl, ok := parseCmpLabel(l)
			if !ok {
				continue
			}
			if cl.X == "f:"+counter || cl.Y == "f:"+counter {
				got = append(got, cl)
			}
		}
		if len(got) != 1 {
			var raws []string
			for _, g := range got {
				raws = append(raws, g.Raw)
			}
			sort.Strings(raws)
			r.Problems = append(r.Problems, fmt.Sprintf("role %s: expected exactly one comparison of %s with a limit, found %v", what, counter, raws))
			return "", ""
		}
		if got[0].X == "f:"+counter {
			return got[0].Raw, got[0].Y
		}
		return got[0].Raw, got[0].X
	}
	r.StopLabel, r.Target = find(r.Written, "stop target")
	r.Target = strings.TrimPrefix(r.Target, "f:")
	r.TrigLabel, r.TrigLimit = find(r.Trig, "trigger limit")
	r.CRLabel, r.CRLimit = find(r.CRCount, "continuous file limit")
	r.SNLabel, r.SNLimit = find(r.SNCount, "test recording limit")
	return r
}

// cmpHolds evaluates "counter OP limit" style facts from a decision: given the label and the
// recorded outcome, reports whether counter >= limit (ge), counter > limit (gt) etc. is known.
// normalise: returns the relation "counter REL limit" that holds on the given outcome.
func relationOn(label, counter string, outcome int8) string {
	cl, ok := parseCmpLabel(label)
	if !ok {
		return "?"
	}
	op := cl.Op
	if cl.Y == "f:"+counter { // limit OP counter  => counter flip(OP) limit
		op = map[string]string{"<": ">", ">": "<", "<=": ">=", ">=": "<=", "==": "==", "!=": "!="}[op]
	}
	if outcome == 0 {
		op = map[string]string{"<": ">=", ">": "<=", "<=": ">", ">=": "<", "==": "!=", "!=": "=="}[op]
	}
	return op
}
