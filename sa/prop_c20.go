package main

import (
	"fmt"
	"go/token"
	"go/types"
	"sort"
	"strings"

	"golang.org/x/tools/go/ssa"
)

func init() { register("C20", propC20) }

func propC20(w *World, r *Report) {
	r.Explanation = "Decided clause: in LogLimiter.Print (G1) the only path that skips log.Print is guarded by exactly 'now - previousTime < interval' (strict) AND 'message == previousEntry', every other path prints; (G2) the printed argument is the parameter unmodified and Printf is Print(Sprintf(format, args...)); (G3) both state fields are stored on every printing path (the clock value read for the comparison, and the message) and on no suppressing path; (G4) the clock is read exactly once per call; (G5) the constructor stores the interval and time.Now, and MotionProcessor builds its limiter with one minute. Rule: exhaustive path enumeration of the loop-free function with normalised guards (finite; all orderings of the two comparisons). Also (G1, linked from C17.V3) the processor never re-raises its own test-recording request (two alternating lines per frame are never suppressed)."
	r.RuleText = "obligation per (rule, path/construct); the function is loop-free so its paths are enumerated completely"
	r.Assumptions = []string{"log.Print writes its argument (standard library)"}
	T := w.NamedType("loglimiter", "LogLimiter")
	pkg := w.Pkg("loglimiter")
	if T == nil || pkg == nil {
		r.Unknown("roles", "loglimiter.LogLimiter", "-", "type not found")
		return
	}
	print := findMethod(w.Prog, T, "Print")
	printf := findMethod(w.Prog, T, "Printf")
	if print == nil || printf == nil {
		r.Unknown("roles", "LogLimiter.Print/Printf", "-", "methods not found")
		return
	}
	e := newTermEnv(w)
	// Print may delegate to a helper of the package that does the work: follow straight-line delegation that
	// hands the message on unchanged
	core, msgParam := print, print.Params[1]
	for depth := 0; depth < 3; depth++ {
		if len(core.Blocks) != 1 {
			break
		}
		var next *ssa.Function
		var nextParam *ssa.Parameter
		for _, in := range core.Blocks[0].Instrs {
			if c, ok := in.(*ssa.Call); ok {
				callee := c.Call.StaticCallee()
				if callee == nil || callee.Pkg != pkg || len(callee.Blocks) == 0 {
					continue
				}
				for i, a := range c.Call.Args {
					if a == ssa.Value(msgParam) {
						next, nextParam = callee, callee.Params[i]
					}
				}
			}
		}
		if next == nil {
			break
		}
		core, msgParam = next, nextParam
	}
	if core != print {
		r.Note("Print delegates to %s; the decision procedure is analysed there", core.Name())
	}
	paths, complete := enumPathsInl(e, core, 64, sameReceiverHelperOf(core))
	if !complete {
		r.Unknown("G1", "LogLimiter.Print", w.Pos(core.Pos()), "the function is not loop-free: paths cannot be enumerated")
		return
	}
	r.Extra["paths_enumerated"] = len(paths)
	msg := e.termOf(msgParam).String()
	st := T.Underlying().(*types.Struct)
	// roles of the fields by type: time.Time = last print time, string = last entry, time.Duration = interval, func = clock
	var fTime, fEntry, fInterval, fClock string
	for i := 0; i < st.NumFields(); i++ {
		f := st.Field(i)
		leaf := "loglimiter.LogLimiter." + f.Name() + "@recv:loglimiter.LogLimiter"
		switch {
		case typeIs(f.Type(), "time", "Time"):
			fTime = leaf
		case typeIs(f.Type(), "time", "Duration"):
			fInterval = leaf
		default:
			if b, ok := f.Type().Underlying().(*types.Basic); ok && b.Info()&types.IsString != 0 {
				fEntry = leaf
			}
			if _, ok := f.Type().Underlying().(*types.Signature); ok {
				fClock = leaf
			}
		}
	}
	if fTime == "" || fEntry == "" || fInterval == "" || fClock == "" {
		r.Unknown("roles", "LogLimiter fields", "-", "could not resolve time/entry/interval/clock fields by type")
		return
	}
	// the limiter's memory is written by the printing procedure and by nobody else: a second writer (a "restart", a
	// "touch") moves the last-print time or text without a line having been printed, and a repeat that is due is swallowed
	{
		nW := 0
		for _, fn := range w.RepoFuncs() {
			for _, b := range fn.Blocks {
				for _, in := range b.Instrs {
					st2, ok := in.(*ssa.Store)
					if !ok {
						continue
					}
					fa, ok := st2.Addr.(*ssa.FieldAddr)
					if !ok || !isPtrTo(fa.X.Type(), T) {
						continue
					}
					leaf := "loglimiter.LogLimiter." + st.Field(fa.Field).Name() + "@recv:loglimiter.LogLimiter"
					if leaf != fTime && leaf != fEntry {
						continue
					}
					nW++
					r.Check(fn == core, "G3", "the last-print memory ("+st.Field(fa.Field).Name()+") is written only by the printing procedure", w.InstrPos(st2), "written in "+fn.String())
				}
			}
		}
		r.Check(nW >= 2, "G4", "writes of the limiter's memory found", "-", fmt.Sprint(nW))
	}
	// the limiter has no lock of its own: its memory stays consistent because one goroutine - the frame loop - uses it.
	// A use from a service goroutine makes the memory a shared location (reported by the race rule of C16)
	linkObligationsOpt(w, r, propC16, "C16", func(o *Obligation) bool { return o.Rule == "C16.R1" && strings.Contains(o.Construct, "LogLimiter") }, "G3")
	// "a single condition recurring on every frame produces at most one log line per interval": a failing test-recording
	// start logs two different lines, so it may happen once per request only - the processor never re-raises its own
	// request (C17.V3); two lines alternating on every frame are never suppressed by the limiter
	linkObligations(w, r, propC17, "C17", func(o *Obligation) bool {
		return o.Rule == "C17.V3" && strings.Contains(o.Construct, "leaves the request flag idle")
	}, "G1")
	now := "dynamic(" + fClock + ")"
	condA := "lt(time.Time.Sub(" + now + ", " + fTime + "), " + fInterval + ")"
	eqArgs := []*Term{tleaf(msg), tleaf(fEntry)}
	sortTerms(eqArgs)
	condB := "eq(" + eqArgs[0].String() + ", " + eqArgs[1].String() + ")"
	suppressed := 0
	for i, p := range paths {
		name := fmt.Sprintf("path %d [%s]", i+1, strings.Join(guardStrings(p.Conds), " ∧ "))
		var prints, clock, stT, stE int
		var printedArg, storedT, storedE string
		for _, in := range p.Instrs {
			switch x := in.(type) {
			case *ssa.Call:
				switch calleeName(x) {
				case "log.Print":
					prints++
					// variadic: list(arg)
					printedArg = e.termOf(x.Call.Args[0]).String()
				case "log.Printf":
					// log.Printf("%s", msg) prints the message verbatim, exactly like log.Print(msg)
					if f, isC := constString(e.termOf(x.Call.Args[0])); isC && f == "%s" && len(x.Call.Args) == 2 {
						prints++
						printedArg = e.termOf(x.Call.Args[1]).String()
						break
					}
					r.Fail("G1", name+": the message is emitted unmodified (log.Print of the message itself)", w.InstrPos(x), "the message is handed to log.Printf: it is re-interpreted (format verbs) or decorated instead of printed verbatim", "")
				case "dynamic":
					if e.termOf(x.Call.Value).String() == fClock {
						clock++
					}
				default:
					// any other output call of package log (Printf, Println, Fatal...) with the message among its
					// arguments does not print it unmodified: a format-interpreting call rewrites '%' sequences
					if cn := calleeName(x); strings.HasPrefix(cn, "log.") || strings.HasPrefix(cn, "log.Logger.") {
						for _, a := range x.Call.Args {
							if strings.Contains(e.termOf(a).String(), msg) {
								r.Fail("G1", name+": the message is emitted unmodified (log.Print of the message itself)", w.InstrPos(x), "the message is handed to "+cn+": it is re-interpreted (format verbs) or decorated instead of printed verbatim", "")
								prints++
								printedArg = "via " + cn
							}
						}
					}
				}
			case *ssa.Store:
				if fa, ok := x.Addr.(*ssa.FieldAddr); ok && isPtrTo(fa.X.Type(), T) {
					leaf := "loglimiter.LogLimiter." + st.Field(fa.Field).Name() + "@recv:loglimiter.LogLimiter"
					switch leaf {
					case fTime:
						stT++
						storedT = e.termOf(x.Val).String()
					case fEntry:
						stE++
						storedE = e.termOf(x.Val).String()
					}
				}
			}
		}
		pos := w.InstrPos(p.Ret)
		r.Check(clock == 1, "G4", name+": clock read exactly once", pos, fmt.Sprintf("%d reads", clock))
		if prints == 0 {
			suppressed++
			conds := guardStrings(p.Conds)
			ok := len(conds) == 2 && hasGuard(p.Conds, condA) && hasGuard(p.Conds, condB)
			r.Check(ok, "G1", name+": a suppressing path is guarded by exactly (now-prev < interval) ∧ (msg == prev entry)", pos, "want {"+condA+" ; "+condB+"}")
			r.Check(stT == 0 && stE == 0, "G3", name+": no state update when suppressing", pos, fmt.Sprintf("%d/%d stores", stT, stE))
		} else {
			// a printing path must not satisfy both conditions
			both := hasGuard(p.Conds, condA) && hasGuard(p.Conds, condB)
			r.Check(!both && prints == 1, "G1", name+": prints once", pos, fmt.Sprintf("%d prints", prints))
			r.Check(printedArg == "list("+msg+")", "G2", name+": the printed text is the message, unmodified", pos, printedArg)
			r.Check(stT == 1 && storedT == now && stE == 1 && storedE == msg, "G3", name+": last-print time <- the clock value read, last entry <- message", pos, "time <- "+storedT+" ; entry <- "+storedE)
		}
		// every condition on every path is one of A, B (no extra gate)
		for _, g := range p.Conds {
			s := g.Cond.String()
			if n := tnot(g.Cond).String(); n == condA || n == condB {
				s = n // the same comparison written in its negated form
			}
			r.Check(s == condA || s == condB, "G1", name+": only the two stated comparisons gate printing", pos, s)
		}
	}
	r.Check(suppressed == 1 && len(paths) == 3, "G1", "exactly one suppressing path among three (A false; A true ∧ B false; A true ∧ B true)", w.Pos(core.Pos()), fmt.Sprintf("%d paths, %d suppressing", len(paths), suppressed))
	// Printf = Print(Sprintf(format, v...))
	pe := newTermEnv(w)
	okPf := false
	for _, b := range printf.Blocks {
		for _, in := range b.Instrs {
			if call, ok := in.(*ssa.Call); ok && (call.Call.StaticCallee() == print || call.Call.StaticCallee() == core) {
				idx := 1
				if call.Call.StaticCallee() == core {
					for i, p := range core.Params {
						if p == msgParam {
							idx = i
						}
					}
				}
				t := pe.termOf(call.Call.Args[idx]).String()
				okPf = t == "fmt.Sprintf("+pe.termOf(printf.Params[1]).String()+", "+pe.termOf(printf.Params[2]).String()+")"
				r.Check(okPf, "G2", "Printf prints Sprintf(format, args...) through Print", w.InstrPos(call), t)
			}
		}
	}
	if !okPf {
		r.Floor("G2", 4)
	}
	// G5: constructor and the interval used by the recorder
	var ctor *ssa.Function
	for _, mem := range pkg.Members {
		if fn, ok := mem.(*ssa.Function); ok && fn.Signature.Results().Len() == 1 && isPtrTo(fn.Signature.Results().At(0).Type(), T) {
			ctor = fn
		}
	}
	if ctor == nil {
		r.Unknown("G5", "LogLimiter constructor", "-", "not found")
		return
	}
	ce := newTermEnv(w)
	ci := ce.useCtor(T, ctor)
	for i := 0; i < st.NumFields(); i++ {
		leaf := "loglimiter.LogLimiter." + st.Field(i).Name() + "@recv:loglimiter.LogLimiter"
		got := "<unset>"
		if ci.Stores[i] != nil {
			got = ci.Stores[i].String()
		}
		switch leaf {
		case fTime, fEntry:
			// a fresh limiter has printed nothing: its "last print" is the zero time and the empty text, so whatever
			// comes first is printed (a constructor that stamps the time would swallow a first message equal to the
			// remembered text for a whole interval)
			r.Check(got == "<unset>", "G5", "constructor leaves the last-print memory ("+st.Field(i).Name()+") at its zero value", w.Pos(ctor.Pos()), got)
		case fInterval:
			r.Check(got == "param:time.Duration" && !ci.Mutable[i], "G5", "constructor stores the interval parameter (immutable)", w.Pos(ctor.Pos()), got)
		case fClock:
			r.Check(got == "func:time.Now" && !ci.Mutable[i], "G5", "constructor wires time.Now as the clock (immutable outside tests)", w.Pos(ctor.Pos()), got)
		}
	}
	n := 0
	nInstall := 0
	for _, fn := range w.RepoFuncs() {
		for _, b := range fn.Blocks {
			for _, in := range b.Instrs {
				if call, ok := in.(*ssa.Call); ok && call.Call.StaticCallee() == ctor {
					if _, isParam := call.Call.Args[0].(*ssa.Parameter); isParam && fn.Parent() != nil && fn.Parent().Name() == "init" {
						continue // a forwarding literal kept in a package variable (a test seam): its call sites carry the interval
					}
					n++
					t := newTermEnv(w).termOf(call.Call.Args[0]).String()
					r.Check(t == "60000000000", "G5", "limiter built in "+fn.Name()+" with one minute", w.InstrPos(call), t+" ns")
				}
				// the limiter's memory (last message, last print time) lives as long as its owner: a limiter is built and
				// installed only while the owner is constructed, never replaced afterwards (a fresh one has forgotten
				// what was printed, so a recurring message would be printed again inside the interval)
				if call, ok := in.(*ssa.Call); ok && call.Call.StaticCallee() == ctor {
					r.Check(fn.Signature.Recv() == nil && !inLoop(b), "G3", "limiter built once, in a constructor (not in a method or loop)", w.InstrPos(call), fn.String())
				}
				if st, ok := in.(*ssa.Store); ok && (isPtrTo(st.Val.Type(), T) || limBehindIface(st.Val, T)) {
					if _, isField := st.Addr.(*ssa.FieldAddr); isField {
						nInstall++
						r.Check(fn.Signature.Recv() == nil && !inLoop(b), "G3", "limiter installed in its owner only at construction (never replaced)", w.InstrPos(st), fn.String())
					}
				}
			}
		}
	}
	// the limiter recognises a recurring condition by its exact text: what the callers print for a per-frame condition
	// must not embed a value read from the clock (a time, a duration until something): the text would differ on every
	// frame and nothing would ever be suppressed
	nSites := 0
	for _, fn := range w.RepoFuncs() {
		for _, b := range fn.Blocks {
			for _, in := range b.Instrs {
				call, ok := in.(*ssa.Call)
				if !ok {
					continue
				}
				callee := call.Call.StaticCallee()
				mname, margs := "", call.Call.Args
				switch {
				case callee != nil && callee.Signature.Recv() != nil && isPtrTo(callee.Signature.Recv().Type(), T) && !(fn.Signature.Recv() != nil && isPtrTo(fn.Signature.Recv().Type(), T)):
					mname, margs = callee.Name(), call.Call.Args[1:]
				case call.Call.IsInvoke() && limIfaces(w, T)[call.Call.Value.Type().String()]:
					mname = call.Call.Method.Name() // the limiter behind an interface of the owner's own
				default:
					continue
				}
				if mname != "Printf" && mname != "Print" {
					continue
				}
				nSites++
				src := ""
				for _, a := range margs {
					if s := clockSourceOf(w, a, map[ssa.Value]bool{}, 0); s != "" {
						src = s
					}
				}
				r.Check(src == "", "G2", "text handed to the limiter in "+fn.Name()+" does not embed a clock reading or per-frame telemetry", w.InstrPos(call), src)
			}
		}
	}
	r.Check(nSites >= 5, "G4", "call sites of the limiter found", "-", fmt.Sprint(nSites))
	// the owner's per-frame code logs only through its limiter: a direct log.Print in a method reached from the frame
	// entry points would print on every frame whatever the limiter remembers
	nOwners := 0
	for _, p := range w.Repo {
		sp := w.SSAPkgs[p.PkgPath]
		for _, mem := range sp.Members {
			tp, ok := mem.(*ssa.Type)
			if !ok {
				continue
			}
			named, ok := tp.Type().(*types.Named)
			if !ok {
				continue
			}
			ost, ok := named.Underlying().(*types.Struct)
			if !ok {
				continue
			}
			owns := false
			for i := 0; i < ost.NumFields(); i++ {
				if isPtrTo(ost.Field(i).Type(), T) || limIfaces(w, T)[ost.Field(i).Type().String()] {
					owns = true
				}
			}
			if !owns {
				continue
			}
			nOwners++
			// methods reachable from the exported frame entry points (names starting with Process) on the same receiver
			reach := map[*ssa.Function]bool{}
			var walk func(fn *ssa.Function)
			walk = func(fn *ssa.Function) {
				if fn == nil || reach[fn] || len(fn.Blocks) == 0 {
					return
				}
				reach[fn] = true
				for _, b := range fn.Blocks {
					for _, in := range b.Instrs {
						if c, ok := in.(ssa.CallInstruction); ok {
							if cl := c.Common().StaticCallee(); cl != nil && cl.Signature.Recv() != nil && isPtrTo(cl.Signature.Recv().Type(), named) {
								walk(cl)
							}
						}
					}
				}
			}
			ms := w.Prog.MethodSets.MethodSet(types.NewPointer(named))
			for i := 0; i < ms.Len(); i++ {
				if strings.HasPrefix(ms.At(i).Obj().Name(), "Process") {
					walk(w.Prog.MethodValue(ms.At(i)))
				}
			}
			var fns []*ssa.Function
			for fn := range reach {
				fns = append(fns, fn)
			}
			sort.Slice(fns, func(i, j int) bool { return fns[i].String() < fns[j].String() })
			nDirect := 0
			for _, fn := range fns {
				for _, b := range fn.Blocks {
					for _, in := range b.Instrs {
						if c, ok := in.(ssa.CallInstruction); ok {
							if cl := c.Common().StaticCallee(); cl != nil && cl.Pkg != nil && cl.Pkg.Pkg.Path() == "log" && cl.Signature.Recv() == nil {
								nDirect++
								r.Fail("G1", "per-frame code of "+named.Obj().Name()+" logs only through its limiter", w.InstrPos(in), fn.Name()+" calls "+cl.String()+" directly", "")
							}
						}
					}
				}
			}
			if nDirect == 0 {
				r.Check(len(fns) >= 3, "G1", "per-frame code of "+named.Obj().Name()+" logs only through its limiter", "-", fmt.Sprintf("%d methods reachable from the frame entry points", len(fns)))
			}
		}
	}
	r.Check(nOwners >= 1, "G4", "a type owns a limiter", "-", fmt.Sprint(nOwners))
	r.Check(n >= 1, "G4", "the recorder builds a limiter", "-", fmt.Sprint(n))
	r.Check(nInstall >= 1, "G4", "the limiter is installed in an owner", "-", fmt.Sprint(nInstall))
}

// clockSourceOf: does v (a message argument) derive from a reading of the clock? Followed backwards through
// conversions, interface boxing, variadic argument lists, phis, string building calls and the results of repository
// functions (error values built by helpers). Returns a description of the clock call reached, "" when none.
func clockSourceOf(w *World, v ssa.Value, seen map[ssa.Value]bool, depth int) string {
	if v == nil || seen[v] || depth > 12 {
		return ""
	}
	seen[v] = true
	switch x := v.(type) {
	case *ssa.MakeInterface:
		return clockSourceOf(w, x.X, seen, depth+1)
	case *ssa.ChangeInterface:
		return clockSourceOf(w, x.X, seen, depth+1)
	case *ssa.ChangeType:
		return clockSourceOf(w, x.X, seen, depth+1)
	case *ssa.Convert:
		return clockSourceOf(w, x.X, seen, depth+1)
	case *ssa.Extract:
		return clockSourceOf(w, x.Tuple, seen, depth+1)
	case *ssa.Phi:
		for _, e := range x.Edges {
			if s := clockSourceOf(w, e, seen, depth+1); s != "" {
				return s
			}
		}
	case *ssa.BinOp:
		if s := clockSourceOf(w, x.X, seen, depth+1); s != "" {
			return s
		}
		return clockSourceOf(w, x.Y, seen, depth+1)
	case *ssa.Slice:
		return clockSourceOf(w, x.X, seen, depth+1)
	case *ssa.Alloc:
		// a variadic argument array / a local: whatever is stored into it
		if refs := x.Referrers(); refs != nil {
			for _, rf := range *refs {
				switch y := rf.(type) {
				case *ssa.Store:
					if s := clockSourceOf(w, y.Val, seen, depth+1); s != "" {
						return s
					}
				case *ssa.IndexAddr:
					if y.Referrers() != nil {
						for _, u := range *y.Referrers() {
							if st, ok := u.(*ssa.Store); ok {
								if s := clockSourceOf(w, st.Val, seen, depth+1); s != "" {
									return s
								}
							}
						}
					}
				}
			}
		}
	case *ssa.UnOp:
		if al, ok := x.X.(*ssa.Alloc); ok {
			return clockSourceOf(w, al, seen, depth+1)
		}
		// the camera's own clock and counters: telemetry of the frame at hand differs on every frame as well
		if fa, ok := x.X.(*ssa.FieldAddr); ok && x.Op == token.MUL {
			if st := structOf(fa.X.Type()); st != nil {
				if typeIs(fa.X.Type(), "github.com/TheCacophonyProject/go-cptv/cptvframe", "Telemetry") {
					return "per-frame telemetry " + st.Field(fa.Field).Name()
				}
			}
		}
	case *ssa.Field:
		if typeIs(x.X.Type(), "github.com/TheCacophonyProject/go-cptv/cptvframe", "Telemetry") {
			return "per-frame telemetry (field of a Telemetry value)"
		}
		return clockSourceOf(w, x.X, seen, depth+1)
	case *ssa.Call:
		callee := x.Call.StaticCallee()
		name := calleeNameCI(x)
		if callee != nil && callee.Pkg != nil {
			pp := callee.Pkg.Pkg.Path()
			res := callee.Signature.Results()
			timeLike := false
			for i := 0; i < res.Len(); i++ {
				ts := res.At(i).Type().String()
				if ts == "time.Time" || ts == "time.Duration" {
					timeLike = true
				}
			}
			if pp == "time" && (callee.Name() == "Now" || callee.Name() == "Since" || callee.Name() == "Until") {
				return "clock read through " + name
			}
			if pp == "github.com/TheCacophonyProject/window" && timeLike {
				return "clock-relative value " + name
			}
		}
		if x.Call.IsInvoke() {
			return ""
		}
		// arguments of formatting / arithmetic helpers, receivers of time methods
		for _, a := range x.Call.Args {
			if s := clockSourceOf(w, a, seen, depth+1); s != "" {
				return s
			}
		}
		// the results of a repository function: what it returns
		if callee != nil && w.IsRepoFunc(callee) && len(callee.Blocks) > 0 {
			for _, b := range callee.Blocks {
				if ret, ok := b.Instrs[len(b.Instrs)-1].(*ssa.Return); ok {
					for _, rv := range ret.Results {
						if s := clockSourceOf(w, rv, seen, depth+1); s != "" {
							return s
						}
					}
				}
			}
		}
	}
	return ""
}

func limBehindIface(v ssa.Value, T *types.Named) bool {
	mi, ok := v.(*ssa.MakeInterface)
	return ok && isPtrTo(mi.X.Type(), T)
}

var limIfaceCache = map[*World]map[string]bool{}

// limIfaces: the non-empty interface types a *LogLimiter is converted to in the repository (an interface extracted for
// the limiter by its owner); a field of such a type holds the limiter, a call through it is a call on the limiter.
func limIfaces(w *World, T *types.Named) map[string]bool {
	if m, ok := limIfaceCache[w]; ok {
		return m
	}
	m := map[string]bool{}
	for _, fn := range w.RepoFuncs() {
		for _, b := range fn.Blocks {
			for _, in := range b.Instrs {
				if mi, ok := in.(*ssa.MakeInterface); ok && isPtrTo(mi.X.Type(), T) {
					if it, ok := mi.Type().Underlying().(*types.Interface); ok && it.NumMethods() > 0 {
						m[mi.Type().String()] = true
					}
				}
			}
		}
	}
	limIfaceCache[w] = m
	return m
}
