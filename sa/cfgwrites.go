package main

import (
	"fmt"
	"go/ast"
	"go/types"
	"sort"
	"strings"

	"golang.org/x/tools/go/ssa"
)

// cfgWrite is one write to a value of a settings struct type found in the repository's own functions.
type cfgWrite struct {
	Fn    *ssa.Function
	Instr ssa.Instruction
	Field string // "" for a whole-value store
	Val   string // normal form of the stored value
}

// settingsWrites lists every store (field or whole value) into a value of the named struct type, over all functions of
// the repository (tests excluded: they are not part of the build that is analysed).
func settingsWrites(w *World, e *termEnv, pkgPath, typeName string) []cfgWrite {
	var out []cfgWrite
	for _, fn := range w.RepoFuncs() {
		for _, b := range fn.Blocks {
			for _, in := range b.Instrs {
				st, ok := in.(*ssa.Store)
				if !ok {
					continue
				}
				if fa, ok := st.Addr.(*ssa.FieldAddr); ok && typeIs(fa.X.Type(), pkgPath, typeName) {
					out = append(out, cfgWrite{fn, in, structOf(fa.X.Type()).Field(fa.Field).Name(), e.termOf(st.Val).String()})
					continue
				}
				if typeIs(st.Addr.Type(), pkgPath, typeName) {
					out = append(out, cfgWrite{fn, in, "", e.termOf(st.Val).String()})
				}
			}
		}
	}
	sort.Slice(out, func(i, j int) bool { return w.InstrPos(out[i].Instr) < w.InstrPos(out[j].Instr) })
	return out
}

// settingsType names a settings struct and the field writes the repository is allowed to make to it.
type settingsType struct {
	pkgPath, name string
	// allowed field writes: "pkgrel.Func" -> field -> required normal form of the value ("" = any value)
	fields map[string]map[string]string
	// fields that may be written anywhere (they do not influence recording behaviour)
	free map[string]bool
}

const goConfigPath = "github.com/TheCacophonyProject/go-config"

var settingsTypes = map[string]settingsType{
	"ThermalThrottler": {pkgPath: goConfigPath, name: "ThermalThrottler"},
	"ThermalRecorder":  {pkgPath: goConfigPath, name: "ThermalRecorder"},
	"Location":         {pkgPath: goConfigPath, name: "Location"},
	"Windows":          {pkgPath: goConfigPath, name: "Windows"},
	"ThermalMotion":    {pkgPath: goConfigPath, name: "ThermalMotion", free: map[string]bool{"Verbose": true}},
	"RecorderConfig": {pkgPath: modPath + "/recorder", name: "RecorderConfig", fields: map[string]map[string]string{
		"recorder.NewConfig": {
			"MinSecs":          "config.ThermalRecorder.MinSecs@alloc:config.ThermalRecorder",
			"MaxSecs":          "config.ThermalRecorder.MaxSecs@alloc:config.ThermalRecorder",
			"PreviewSecs":      "config.ThermalRecorder.PreviewSecs@alloc:config.ThermalRecorder",
			"ConstantRecorder": "config.ThermalRecorder.ConstantRecorder@alloc:config.ThermalRecorder",
			"Window":           "",
		}}},
	"Config": {pkgPath: modPath + "/cmd/thermal-recorder", name: "Config", free: map[string]bool{"Verbose": true}, fields: map[string]map[string]string{
		"cmd/thermal-recorder.ParseConfig": {"ConfigDir": "", "DeviceID": "", "DeviceName": "", "FrameInput": "", "OutputDir": "", "MinDiskSpace": "",
			"Recorder": "", "Throttler": "", "Location": ""},
		"cmd/thermal-recorder.LoadMotionConfig": {"Motion": ""},
	}},
}

// checkSettingsImmutable: between the configuration file and its consumers nobody rewrites a setting. For each named
// settings type, over ALL functions of the repository: (a) a field is stored only by the type's loader, with the
// like-named source where the table says so; (b) a whole-value store is either a copy (load / parameter: value
// preserving) or the go-config default placed in a fresh local BEFORE it is handed to Unmarshal.
func checkSettingsImmutable(w *World, r *Report, rule string, names ...string) {
	e := newTermEnv(w)
	for _, nm := range names {
		// "Type:FieldA|FieldB" restricts field writes to the settings this property depends on
		var only map[string]bool
		if i := strings.Index(nm, ":"); i >= 0 {
			only = map[string]bool{}
			for _, f := range strings.Split(nm[i+1:], "|") {
				only[f] = true
			}
			nm = nm[:i]
		}
		st, ok := settingsTypes[nm]
		if !ok {
			r.Unknown(rule, "settings type "+nm, "-", "not in the table")
			continue
		}
		ws := settingsWrites(w, e, st.pkgPath, st.name)
		nfield, ncopy, ndef := 0, 0, 0
		for _, cw := range ws {
			key := relPkg(cw.Fn) + "." + cw.Fn.Name()
			if cw.Field != "" {
				if st.free[cw.Field] || (only != nil && !only[cw.Field]) {
					continue
				}
				construct := fmt.Sprintf("%s.%s written in %s", st.name, cw.Field, key)
				want, allowed := st.fields[key][cw.Field]
				if !allowed {
					// a stage function split off the loader: an unexported function of the loader's package that is
					// called from nowhere but the loader (or other such stages)
					for lk, fields := range st.fields {
						if wv, ok := fields[cw.Field]; ok && inLoaderFamily(w, lk, cw.Fn) {
							want, allowed = wv, true
							if wv != "" {
								// the source may now be a parameter of the stage instead of the loader's local
								want = ""
								if !strings.HasPrefix(cw.Val, strings.SplitN(wv, "@", 2)[0]+"@") {
									want = wv
								}
							}
						}
					}
				}
				switch {
				case !allowed:
					r.Fail(rule, construct, w.InstrPos(cw.Instr), "the setting is overwritten outside its loader: "+st.name+"."+cw.Field+" <- "+cw.Val, "")
				case want != "" && cw.Val != want:
					r.Fail(rule, construct, w.InstrPos(cw.Instr), "the setting is not the like-named configuration value: "+cw.Val+" (want "+want+")", "")
				default:
					nfield++
					r.Pass(rule, construct, w.InstrPos(cw.Instr), cw.Val)
				}
				continue
			}
			sto := cw.Instr.(*ssa.Store)
			construct := fmt.Sprintf("whole %s stored in %s #%d", st.name, key, wholeStoreOrdinal(sto))
			switch classifyWholeStore(sto) {
			case "copy":
				ncopy++
			case "default-before-unmarshal":
				ndef++
				r.Pass(rule, construct, w.InstrPos(cw.Instr), cw.Val+" (defaults placed before Unmarshal reads the section)")
			case "default-late":
				r.Fail(rule, construct, w.InstrPos(cw.Instr), "the defaults are stored after the value was handed to a call (Unmarshal): the configured settings are wiped: "+cw.Val, "")
			default:
				r.Fail(rule, construct, w.InstrPos(cw.Instr), "a whole "+st.name+" is replaced by a value that is neither a copy nor the initial default: "+cw.Val, "")
			}
		}
		r.Pass(rule, "no function of the repository rewrites a "+st.name+" setting after it is loaded", "-", fmt.Sprintf("%d writes examined: %d loader field stores, %d value-preserving copies, %d default initialisations", len(ws), nfield, ncopy, ndef))
	}
}

// classifyWholeStore: "copy" (the value is loaded from memory, a parameter, or a phi of those), "default-before-unmarshal"
// (a go-config Default*() result stored into a local in the entry block before any call receives that local),
// "default-late", or "other".
func classifyWholeStore(st *ssa.Store) string {
	var isCopy func(v ssa.Value, depth int) bool
	isCopy = func(v ssa.Value, depth int) bool {
		if depth > 4 {
			return false
		}
		switch x := v.(type) {
		case *ssa.UnOp:
			return x.Op.String() == "*"
		case *ssa.Parameter, *ssa.FreeVar:
			return true
		case *ssa.Phi:
			for _, e := range x.Edges {
				if !isCopy(e, depth+1) {
					return false
				}
			}
			return true
		case *ssa.Extract:
			return false
		}
		return false
	}
	if isCopy(st.Val, 0) {
		return "copy"
	}
	call, ok := st.Val.(*ssa.Call)
	if !ok {
		return "other"
	}
	callee := call.Call.StaticCallee()
	if callee == nil || callee.Pkg == nil || callee.Pkg.Pkg.Path() != goConfigPath || !strings.HasPrefix(callee.Name(), "Default") {
		return "other"
	}
	al, ok := st.Addr.(*ssa.Alloc)
	if !ok {
		return "default-late"
	}
	// no call that can execute before the store may already hold the local
	holds := map[ssa.Value]bool{al: true}
	for _, ref := range *al.Referrers() {
		if mi, ok := ref.(*ssa.MakeInterface); ok {
			holds[mi] = true
		}
	}
	before := map[*ssa.BasicBlock]bool{}
	var walk func(b *ssa.BasicBlock)
	walk = func(b *ssa.BasicBlock) {
		for _, p := range b.Preds {
			if !before[p] {
				before[p] = true
				walk(p)
			}
		}
	}
	walk(st.Block())
	callHolds := func(in ssa.Instruction) bool {
		if c, ok := in.(ssa.CallInstruction); ok {
			for _, a := range c.Common().Args {
				if holds[a] {
					return true
				}
			}
		}
		return false
	}
	for b := range before {
		for _, in := range b.Instrs {
			if callHolds(in) {
				return "default-late"
			}
		}
	}
	if !before[st.Block()] {
		for _, in := range st.Block().Instrs {
			if in == ssa.Instruction(st) {
				break
			}
			if callHolds(in) {
				return "default-late"
			}
		}
	}
	// exactly one whole-value store to this local
	n := 0
	for _, ref := range *al.Referrers() {
		if s2, ok := ref.(*ssa.Store); ok && s2.Addr == ssa.Value(al) {
			n++
		}
	}
	if n != 1 {
		return "default-late"
	}
	return "default-before-unmarshal"
}

func relPkg(fn *ssa.Function) string {
	if fn.Pkg == nil {
		if fn.Parent() != nil {
			return relPkg(fn.Parent())
		}
		return "?"
	}
	p := fn.Pkg.Pkg.Path()
	if strings.HasPrefix(p, modPath+"/") {
		return strings.TrimPrefix(p, modPath+"/")
	}
	return p
}

func wholeStoreOrdinal(st *ssa.Store) int {
	n := 0
	for _, b := range st.Parent().Blocks {
		for _, in := range b.Instrs {
			if s2, ok := in.(*ssa.Store); ok && types.Identical(s2.Addr.Type(), st.Addr.Type()) {
				if _, isFA := s2.Addr.(*ssa.FieldAddr); isFA {
					continue
				}
				n++
				if s2 == st {
					return n
				}
			}
		}
	}
	return n
}

var loaderFamilies = map[string]map[*ssa.Function]bool{}

// inLoaderFamily: fn is the loader "pkgrel.Func" itself or an unexported function of its package whose every call
// site lies in the loader or in another member of the family (a stage split off the loader).
func inLoaderFamily(w *World, loaderKey string, fn *ssa.Function) bool {
	fam, ok := loaderFamilies[loaderKey+fmt.Sprintf("%p", w)]
	if !ok {
		fam = map[*ssa.Function]bool{}
		i := strings.LastIndex(loaderKey, ".")
		if i > 0 {
			if l := w.Func(loaderKey[:i], loaderKey[i+1:]); l != nil {
				fam[l] = true
				for changed := true; changed; {
					changed = false
					for _, f := range w.RepoFuncs() {
						if fam[f] || f.Pkg != l.Pkg || ast.IsExported(f.Name()) || f.Parent() != nil {
							continue
						}
						cs := w.callersOf(f)
						all := len(cs) > 0
						for _, c := range cs {
							if !fam[c] {
								all = false
							}
						}
						if all {
							fam[f] = true
							changed = true
						}
					}
				}
			}
		}
		loaderFamilies[loaderKey+fmt.Sprintf("%p", w)] = fam
	}
	return fam[fn]
}
