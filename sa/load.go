package main

// E1: loader / resolver. Loads /repo's current working tree (type-checked syntax
// + SSA) together with the source of the pinned dependencies whose bodies some
// rules look into. Nothing under the repository is executed or written.

import (
	"fmt"
	"go/ast"
	"go/token"
	"go/types"
	"os"
	"path/filepath"
	"sort"
	"strings"

	"golang.org/x/tools/go/packages"
	"golang.org/x/tools/go/ssa"
	"golang.org/x/tools/go/ssa/ssautil"
)

const modPath = "github.com/TheCacophonyProject/thermal-recorder"

// Dependency packages that are loaded with syntax (function bodies) because
// rules follow calls into them.
var depPatterns = []string{
	"github.com/TheCacophonyProject/go-cptv",
	"github.com/TheCacophonyProject/go-cptv/cptvframe",
	"github.com/TheCacophonyProject/lepton3",
	"github.com/juju/ratelimit",
	"github.com/TheCacophonyProject/go-config",
}

type World struct {
	RepoDir  string
	Fset     *token.FileSet
	Pkgs     []*packages.Package // all initial packages (repo + deps with syntax)
	Repo     []*packages.Package // repo packages only
	Prog     *ssa.Program
	SSAPkgs  map[string]*ssa.Package      // by import path
	PkgBy    map[string]*packages.Package // by import path
	Arch     string
	AllFuncs map[*ssa.Function]bool
	srcCache map[string][]byte
	Overlay  map[string][]byte
	Notes    []string // normalisations applied before analysis
}

func envFor(arch string) []string {
	env := []string{}
	for _, e := range os.Environ() {
		if strings.HasPrefix(e, "GOWORK=") || strings.HasPrefix(e, "GOFLAGS=") || strings.HasPrefix(e, "GOARCH=") ||
			strings.HasPrefix(e, "GOPROXY=") || strings.HasPrefix(e, "GOSUMDB=") || strings.HasPrefix(e, "GOTOOLCHAIN=") || strings.HasPrefix(e, "CGO_ENABLED=") {
			continue
		}
		env = append(env, e)
	}
	env = append(env, "GOWORK=off", "GOFLAGS=-mod=mod", "GOPROXY=off", "GOSUMDB=off", "GOTOOLCHAIN=local")
	if arch != "" {
		env = append(env, "GOARCH="+arch, "GOOS=linux", "CGO_ENABLED=0")
	}
	return env
}

// LoadWorld loads the repository. overlay maps absolute file names to replacement
// contents (used by the sensitivity battery; never written to disk).
func LoadWorld(repo string, overlay map[string][]byte, arch string) (*World, error) {
	w, err := loadWorld(repo, overlay, arch, true)
	if err != nil {
		return nil, err
	}
	return w, nil
}

func loadWorld(repo string, overlay map[string][]byte, arch string, normalise bool) (*World, error) {
	cfg := &packages.Config{
		Mode:    packages.LoadSyntax | packages.NeedModule,
		Dir:     repo,
		Env:     envFor(arch),
		Overlay: overlay,
		Tests:   false,
	}
	pats := append([]string{"./..."}, depPatterns...)
	pkgs, err := packages.Load(cfg, pats...)
	if err != nil {
		return nil, fmt.Errorf("packages.Load: %v", err)
	}
	w := &World{RepoDir: repo, Arch: arch, SSAPkgs: map[string]*ssa.Package{}, PkgBy: map[string]*packages.Package{}, srcCache: map[string][]byte{}, Overlay: overlay}
	var errs []string
	for _, p := range pkgs {
		for _, e := range p.Errors {
			errs = append(errs, e.Error())
		}
		if p.Fset != nil {
			w.Fset = p.Fset
		}
	}
	if len(errs) > 0 {
		sort.Strings(errs)
		if len(errs) > 8 {
			errs = errs[:8]
		}
		return nil, fmt.Errorf("type-check/load errors:\n  %s", strings.Join(errs, "\n  "))
	}
	sort.Slice(pkgs, func(i, j int) bool { return pkgs[i].PkgPath < pkgs[j].PkgPath })
	w.Pkgs = pkgs
	for _, p := range pkgs {
		w.PkgBy[p.PkgPath] = p
		if p.PkgPath == modPath || strings.HasPrefix(p.PkgPath, modPath+"/") {
			w.Repo = append(w.Repo, p)
		}
	}
	if len(w.Repo) < 9 {
		return nil, fmt.Errorf("expected at least 9 repository packages, loaded %d", len(w.Repo))
	}
	if normalise {
		cur, curOverlay := w, overlay
		var notes []string
		// E1b: grouped fields of component structs are analysed as top-level fields (see flatten.go)
		if extra, n1 := groupedFieldOverlays(w.Fset, w.Repo, overlay); len(extra) > 0 {
			notes = append(notes, n1...)
			merged := map[string][]byte{}
			for k, v := range overlay {
				merged[k] = v
			}
			for k, v := range extra {
				merged[k] = v
			}
			if w2, err2 := loadWorld(repo, merged, arch, false); err2 == nil {
				cur, curOverlay = w2, merged
			} else {
				notes = append(notes, "grouped-field normalisation abandoned (the rewritten source does not compile): "+strings.Split(err2.Error(), "\n")[0])
			}
		} else {
			notes = append(notes, n1...)
		}
		// E1c: function variables that are test seams are analysed as direct calls (see seams.go)
		if extra, n2 := funcVarSeamOverlays(cur.Fset, cur.Repo, curOverlay); len(extra) > 0 {
			merged := map[string][]byte{}
			for k, v := range curOverlay {
				merged[k] = v
			}
			for k, v := range extra {
				merged[k] = v
			}
			if w3, err3 := loadWorld(repo, merged, arch, false); err3 == nil {
				cur = w3
				notes = append(notes, n2...)
			} else {
				notes = append(notes, "function-variable normalisation abandoned (the rewritten source does not compile): "+strings.Split(err3.Error(), "\n")[0])
			}
		}
		if cur != w {
			cur.Notes = notes
			return cur, nil
		}
		w.Notes = notes
	}
	// G1/soundness caveat: no unsafe, no cgo, no build-constrained files in repo packages.
	for _, p := range w.Repo {
		for _, f := range p.Syntax {
			for _, im := range f.Imports {
				if im.Path.Value == `"unsafe"` || im.Path.Value == `"C"` {
					return nil, fmt.Errorf("%s imports %s: outside the analysed fragment", w.Fset.Position(f.Pos()).Filename, im.Path.Value)
				}
			}
		}
		if len(p.IgnoredFiles) > 0 {
			return nil, fmt.Errorf("package %s has files excluded by build constraints: %v", p.PkgPath, p.IgnoredFiles)
		}
	}
	prog, spkgs := ssautil.Packages(pkgs, ssa.InstantiateGenerics)
	for i, sp := range spkgs {
		if sp == nil {
			return nil, fmt.Errorf("no SSA package for %s", pkgs[i].PkgPath)
		}
		w.SSAPkgs[pkgs[i].PkgPath] = sp
	}
	prog.Build()
	w.Prog = prog
	w.AllFuncs = ssautil.AllFunctions(prog)
	nilWorld = w
	return w, nil
}

func (w *World) Pkg(rel string) *ssa.Package {
	p := modPath
	if rel != "" {
		p += "/" + rel
	}
	return w.SSAPkgs[p]
}

func (w *World) TPkg(rel string) *packages.Package {
	p := modPath
	if rel != "" {
		p += "/" + rel
	}
	return w.PkgBy[p]
}

func (w *World) IsRepoPkg(p *ssa.Package) bool {
	if p == nil || p.Pkg == nil {
		return false
	}
	pp := p.Pkg.Path()
	return pp == modPath || strings.HasPrefix(pp, modPath+"/")
}

func (w *World) IsRepoFunc(f *ssa.Function) bool {
	if f == nil {
		return false
	}
	if f.Pkg != nil {
		return w.IsRepoPkg(f.Pkg)
	}
	if f.Parent() != nil {
		return w.IsRepoFunc(f.Parent())
	}
	if o := f.Origin(); o != nil && o != f {
		return w.IsRepoFunc(o)
	}
	return false
}

// Pos renders a position relative to the repository (or module cache) root.
func (w *World) Pos(p token.Pos) string {
	if !p.IsValid() {
		return "-"
	}
	pos := w.Fset.Position(p)
	return fmt.Sprintf("%s:%d", w.short(pos.Filename), pos.Line)
}

func (w *World) short(f string) string {
	if r, err := filepath.Rel(w.RepoDir, f); err == nil && !strings.HasPrefix(r, "..") {
		return r
	}
	if i := strings.Index(f, "/pkg/mod/"); i >= 0 {
		return f[i+len("/pkg/mod/"):]
	}
	return f
}

// FuncPos gives a position for a function even when the instruction has none.
func (w *World) InstrPos(in ssa.Instruction) string {
	if in.Pos().IsValid() {
		return w.Pos(in.Pos())
	}
	// fall back to the nearest instruction with a position in the same block, then the function
	if b := in.Block(); b != nil {
		for _, x := range b.Instrs {
			if x.Pos().IsValid() {
				return w.Pos(x.Pos())
			}
		}
		return w.Pos(b.Parent().Pos())
	}
	return "-"
}

// Func looks up a package-level function or a method "T.m" / "(*T).m" in a repo package.
func (w *World) Func(rel, name string) *ssa.Function {
	p := w.Pkg(rel)
	if p == nil {
		return nil
	}
	return lookupFunc(p, name)
}

func lookupFunc(p *ssa.Package, name string) *ssa.Function {
	if i := strings.Index(name, "."); i >= 0 {
		tn, mn := name[:i], name[i+1:]
		t := p.Type(tn)
		if t == nil {
			return nil
		}
		return findMethod(p.Prog, t.Type(), mn)
	}
	return p.Func(name)
}

// FuncDecl returns the syntax of a function.
func (w *World) FuncDecl(fn *ssa.Function) *ast.FuncDecl {
	if fn == nil {
		return nil
	}
	if d, ok := fn.Syntax().(*ast.FuncDecl); ok {
		return d
	}
	return nil
}

// NamedType finds a named type in a repo package.
func (w *World) NamedType(rel, name string) *types.Named {
	p := w.Pkg(rel)
	if p == nil {
		return nil
	}
	t := p.Type(name)
	if t == nil {
		return nil
	}
	n, _ := t.Type().(*types.Named)
	return n
}

// RepoFuncs returns all functions (including anonymous ones) defined in repo packages, sorted.
func (w *World) RepoFuncs() []*ssa.Function {
	var out []*ssa.Function
	for f := range w.AllFuncs {
		if w.IsRepoFunc(f) && len(f.Blocks) > 0 && f.Synthetic == "" {
			out = append(out, f)
		}
	}
	sort.Slice(out, func(i, j int) bool { return out[i].String() < out[j].String() })
	return out
}

func fieldIndex(st *types.Struct, name string) int {
	for i := 0; i < st.NumFields(); i++ {
		if st.Field(i).Name() == name {
			return i
		}
	}
	return -1
}

func structOf(t types.Type) *types.Struct {
	if p, ok := t.Underlying().(*types.Pointer); ok {
		t = p.Elem()
	}
	s, _ := t.Underlying().(*types.Struct)
	return s
}

func isPtrTo(t types.Type, T types.Type) bool {
	p, ok := t.(*types.Pointer)
	return ok && types.Identical(p.Elem(), T)
}

// typeIs reports whether t (possibly a pointer) is the named type pkgPath.name.
func typeIs(t types.Type, pkgPath, name string) bool {
	if p, ok := t.(*types.Pointer); ok {
		t = p.Elem()
	}
	n, ok := t.(*types.Named)
	if !ok {
		return false
	}
	o := n.Obj()
	return o.Name() == name && o.Pkg() != nil && o.Pkg().Path() == pkgPath
}

// calleeIs reports whether fn is the function/method pkgPath.(recv).name.
func calleeIs(fn *ssa.Function, pkgPath, recv, name string) bool {
	if fn == nil || fn.Name() != name {
		return false
	}
	if fn.Pkg == nil || fn.Pkg.Pkg.Path() != pkgPath {
		// methods of instantiated or synthetic wrappers
		if fn.Object() == nil || fn.Object().Pkg() == nil || fn.Object().Pkg().Path() != pkgPath {
			return false
		}
	}
	r := fn.Signature.Recv()
	if recv == "" {
		return r == nil
	}
	if r == nil {
		return false
	}
	return typeIs(r.Type(), pkgPath, recv)
}

// findMethod looks a method up in the method sets of *T and T without panicking when absent.
func findMethod(prog *ssa.Program, T types.Type, name string) *ssa.Function {
	for _, t := range []types.Type{types.NewPointer(T), T} {
		ms := prog.MethodSets.MethodSet(t)
		for i := 0; i < ms.Len(); i++ {
			if ms.At(i).Obj().Name() == name {
				return prog.MethodValue(ms.At(i))
			}
		}
	}
	return nil
}

// ctorOf returns the package-level function of the type's package whose single (or first) result is *T.
func (w *World) ctorOf(T *types.Named) *ssa.Function {
	if T == nil || T.Obj().Pkg() == nil {
		return nil
	}
	sp := w.SSAPkgs[T.Obj().Pkg().Path()]
	if sp == nil {
		return nil
	}
	var names []string
	for n := range sp.Members {
		names = append(names, n)
	}
	sort.Strings(names)
	for _, n := range names {
		if fn, ok := sp.Members[n].(*ssa.Function); ok && fn.Signature.Results().Len() >= 1 && isPtrTo(fn.Signature.Results().At(0).Type(), T) {
			return fn
		}
	}
	return nil
}

// funcsInPkg returns the package-level functions and methods (with bodies) of a repo package, sorted.
func (w *World) funcsInPkg(rel string) []*ssa.Function {
	sp := w.Pkg(rel)
	var out []*ssa.Function
	for _, fn := range w.RepoFuncs() {
		if fn.Pkg == sp {
			out = append(out, fn)
		}
	}
	return out
}

// callersOf returns the repo functions containing a static call of fn.
func (w *World) callersOf(fn *ssa.Function) []*ssa.Function {
	var out []*ssa.Function
	for _, f := range w.RepoFuncs() {
		found := false
		for _, b := range f.Blocks {
			for _, in := range b.Instrs {
				if ci, ok := in.(ssa.CallInstruction); ok && ci.Common().StaticCallee() == fn {
					found = true
				}
			}
		}
		if found {
			out = append(out, f)
		}
	}
	return out
}

// funcFamily: root plus the unexported functions and methods of its package that it reaches through static calls
// (three levels): the places a refactoring may have moved parts of root's body to.
func (w *World) funcFamily(root *ssa.Function) []*ssa.Function {
	out := []*ssa.Function{root}
	seen := map[*ssa.Function]bool{root: true}
	var walk func(fn *ssa.Function, depth int)
	walk = func(fn *ssa.Function, depth int) {
		if depth > 3 {
			return
		}
		for _, b := range fn.Blocks {
			for _, in := range b.Instrs {
				ci, ok := in.(ssa.CallInstruction)
				if !ok {
					continue
				}
				callee := ci.Common().StaticCallee()
				if callee == nil || seen[callee] || callee.Pkg == nil || callee.Pkg != root.Pkg || len(callee.Blocks) == 0 {
					continue
				}
				if ast.IsExported(callee.Name()) && callee.Parent() == nil {
					continue
				}
				seen[callee] = true
				out = append(out, callee)
				walk(callee, depth+1)
			}
		}
	}
	walk(root, 0)
	return out
}

// forwardsTo: fn does nothing but hand its parameters to one function of its own package and return that function's
// results unchanged (an exported constructor kept as a thin front of an unexported one, e.g. behind an interface for
// its argument). Returns that function, or nil.
func forwardsTo(fn *ssa.Function) *ssa.Function {
	if fn == nil || len(fn.Blocks) != 1 {
		return nil
	}
	var call *ssa.Call
	for _, in := range fn.Blocks[0].Instrs {
		switch x := in.(type) {
		case *ssa.Call:
			if call != nil {
				return nil
			}
			call = x
		case *ssa.Extract, *ssa.MakeInterface, *ssa.ChangeInterface, *ssa.ChangeType, *ssa.DebugRef:
		case *ssa.Return:
			if call == nil {
				return nil
			}
			g := call.Call.StaticCallee()
			if g == nil || g.Pkg != fn.Pkg || len(g.Blocks) == 0 {
				return nil
			}
			for i, rv := range x.Results {
				if len(x.Results) == 1 && rv == ssa.Value(call) {
					continue
				}
				ex, ok := rv.(*ssa.Extract)
				if !ok || ex.Tuple != ssa.Value(call) || ex.Index != i {
					return nil
				}
			}
			return g
		default:
			return nil
		}
	}
	return nil
}

// LoaderFunc: the function whose body does the work of the named loader (forwarding fronts are seen through).
func (w *World) LoaderFunc(rel, name string) *ssa.Function {
	fn := w.Func(rel, name)
	for i := 0; i < 3 && fn != nil; i++ {
		g := forwardsTo(fn)
		if g == nil {
			break
		}
		fn = g
	}
	return fn
}

// configUnmarshalArgs: c decodes a configuration section: (*config.Config).Unmarshal(key, target), also through an
// interface of the repository's own that *config.Config satisfies.
func configUnmarshalArgs(w *World, c *ssa.Call) (key, target ssa.Value, ok bool) {
	cc := c.Common()
	if cc.IsInvoke() {
		if cc.Method.Name() != "Unmarshal" || len(cc.Args) != 2 {
			return nil, nil, false
		}
		it, isI := cc.Value.Type().Underlying().(*types.Interface)
		if !isI {
			return nil, nil, false
		}
		for _, p := range w.Prog.AllPackages() {
			if p.Pkg.Path() == "github.com/TheCacophonyProject/go-config" {
				if tn, ok := p.Members["Config"].(*ssa.Type); ok && types.Implements(types.NewPointer(tn.Type()), it) {
					return cc.Args[0], cc.Args[1], true
				}
			}
		}
		return nil, nil, false
	}
	if calleeName(c) == "config.Config.Unmarshal" && len(cc.Args) == 3 {
		return cc.Args[1], cc.Args[2], true
	}
	return nil, nil, false
}
