package main

import (
	"fmt"
	"go/ast"
	"go/token"
	"go/types"
	"sort"
	"strings"

	"golang.org/x/tools/go/ssa"
)

func init() { register("C16", propC16) }

func propC16(w *World, r *Report) {
	r.Explanation = "Decided clause: (R1) lock consistency: for every global of cmd/thermal-recorder and every field of a repo-defined struct reachable from more than one goroutine root (main frame loop, `go` statements, D-Bus exported methods — each D-Bus method also concurrent with itself), all conflicting accesses (at least one write) share a mutex or are all sync/atomic; (R2) CopyRecent reads the slot before the current one under the lock Move holds and returns a fresh copy; (R3) every write into a slot of the pre-trigger ring by the frame loop targets Current() (so, for capacity >= 2, never the slot CopyRecent reads; the lock hand-over orders the completed fill before the copy); (R4) the snapshot requesters hold the package mutex for their whole body and never wait while holding it; every mutex acquired in the daemon / motion package is released on every path (no return with it possibly held, no second acquisition while held); on the request side a pointer the frame loop publishes per connection is used only where it was found non-nil. Rule: Eraser-style must-lockset dataflow over the call graph per goroutine root, with 1-level receiver sensitivity for FrameLoop and the usual ownership exemption for objects under construction."
	r.RuleText = "obligation per shared location (R1) and per structural site (R2-R4)"
	r.Assumptions = []string{"locations are globals and fields of repo-defined types; pixel contents of cptvframe.Frame (dependency heap) are covered by R2+R3, not by locksets",
		"capacity 1 (preview-secs 0 and trigger-frames 1) makes Current() and the 'previous' slot coincide: configuration, not schedule; not decided",
		"godbus runs every exported method call in its own goroutine (conn.go handleCall), reflection-based dispatch is modelled by the Export root rule",
		"interface calls are resolved by CHA over repo types"}
	a, err := newLockAnalysis(w, "cmd/thermal-recorder")
	if err != nil {
		r.Unknown("roots", "cmd/thermal-recorder", "-", err.Error())
		return
	}
	var roots []string
	for _, rt := range a.Roots {
		s := rt.Name
		if rt.Self {
			s += " (self-concurrent)"
		}
		roots = append(roots, s)
	}
	r.Extra["roots"] = roots
	hasDbus, hasGo := 0, 0
	for _, rt := range a.Roots {
		if strings.HasPrefix(rt.Name, "dbus:") {
			hasDbus++
		}
		if strings.HasPrefix(rt.Name, "go:") {
			hasGo++
		}
	}
	r.Check(hasDbus >= 3, "G4", "D-Bus exported method roots found", "-", fmt.Sprint(hasDbus))
	r.Check(hasGo >= 1, "G4", "go-statement roots found", "-", fmt.Sprint(hasGo))
	races, shared, nloc := a.Races()
	r.Extra["accesses"] = len(a.Acc)
	r.Extra["locations"] = nloc
	r.Extra["shared_locations"] = shared
	racy := map[string][]lsRace{}
	for _, rc := range races {
		racy[rc.Loc] = append(racy[rc.Loc], rc)
	}
	for _, l := range shared {
		if rs, bad := racy[l]; bad {
			var ds []string
			for i, x := range rs {
				if i < 3 {
					ds = append(ds, x.Detail)
				}
			}
			r.Fail("R1", "location="+l, rs[0].A.Pos, fmt.Sprintf("%d conflicting access pair(s) without a common lock: %s", len(rs), strings.Join(ds, " || ")), "")
		} else {
			// summarise the protection
			locks := map[string]bool{}
			writes := 0
			for _, x := range a.Acc {
				if x.Loc == l {
					if x.Write {
						writes++
					}
					for _, k := range strings.Split(x.Locks, ",") {
						if k != "" {
							locks[k] = true
						}
					}
				}
			}
			var ls []string
			for k := range locks {
				ls = append(ls, k)
			}
			sort.Strings(ls)
			how := "consistently protected by {" + strings.Join(ls, ",") + "}"
			if writes == 0 {
				how = "read-only after construction"
			}
			r.Pass("R1", "location="+l, "-", how)
		}
	}
	r.Check(len(shared) >= 5, "G4", "shared locations found", "-", fmt.Sprint(len(shared)))
	// positive control (G4): the analysis must flag a known-racy toy location — accesses of the two
	// roots to a synthetic location with disjoint locksets
	ctl := &lockAnalysis{Roots: []lsRoot{{Name: "x"}, {Name: "y"}}, Acc: []lsAccess{{Loc: "ctl", Write: true, Root: "x", Locks: "", Fn: "f"}, {Loc: "ctl", Write: false, Root: "y", Locks: "global:mu", Fn: "g"}}}
	cr, _, _ := ctl.Races()
	r.Check(len(cr) == 1, "G4", "positive control: an unprotected write/read pair is reported", "-", fmt.Sprint(len(cr)))
	// R4: requesters hold the package mutex
	// the requesters: functions of the recorder package, reached from D-Bus roots, that touch package-level state
	reqs := map[string][2]int{}
	var reqLocks = map[string]string{}
	for _, x := range a.Acc {
		if !strings.HasPrefix(x.Root, "dbus:") || !strings.HasPrefix(x.Loc, "global:main.") {
			continue
		}
		c := reqs[x.Fn]
		c[0]++
		if strings.Contains(x.Locks, "global:main.") {
			c[1]++
			reqLocks[x.Fn] = x.Locks
		}
		reqs[x.Fn] = c
	}
	var rn []string
	for k := range reqs {
		rn = append(rn, k)
	}
	sort.Strings(rn)
	for i, name := range rn {
		c := reqs[name]
		r.Check(c[0] == c[1], "R4", fmt.Sprintf("service requester #%d accesses package-level state only while holding the package mutex", i+1), "-", fmt.Sprintf("%s: %d accesses, %d under {%s}", name, c[0], c[1], reqLocks[name]))
	}
	r.Check(len(rn) >= 2, "G4", "service requesters found", "-", fmt.Sprint(rn))
	// ... and never wait while they hold it: the frame loop takes the same mutex for every connection (and the other
	// requesters for every call), so a requester that blocks on a channel, a wait group or a sleep stalls the pipeline.
	// Non-blocking selects (with a default case) are fine.
	nReqFns := 0
	for _, root := range a.Roots {
		if !strings.HasPrefix(root.Name, "dbus:") {
			continue
		}
		var fns []*ssa.Function
		for fn := range a.Funcs[root.Name] {
			fns = append(fns, fn)
		}
		sort.Slice(fns, func(i, j int) bool { return fns[i].String() < fns[j].String() })
		for _, fn := range fns {
			nReqFns++
			for _, b := range fn.Blocks {
				for _, in := range b.Instrs {
					what := ""
					switch x := in.(type) {
					case *ssa.Send:
						what = "channel send"
					case *ssa.UnOp:
						if x.Op == token.ARROW {
							what = "channel receive"
						}
					case *ssa.Select:
						if x.Blocking {
							what = "blocking select"
						}
					case *ssa.Call:
						if c := x.Call.StaticCallee(); c != nil {
							switch c.String() {
							case "time.Sleep", "(*sync.WaitGroup).Wait", "(*sync.Cond).Wait":
								what = "call of " + c.String()
							}
						}
					}
					if what != "" {
						r.Fail("R4", fmt.Sprintf("request path %s never waits: %s in %s", root.Name, what, fn.Name()), w.InstrPos(in), "a service request that blocks while the package mutex is held stalls the frame loop (which takes the mutex for every connection) and every other request", "")
					}
				}
			}
		}
	}
	r.Check(nReqFns >= 3, "R4", "functions on the request paths scanned for blocking operations", "-", fmt.Sprint(nReqFns))
	checkLockPairing(w, r, "R4")
	checkSharedPointerGuards(w, r, "R4", a)
	// R2: CopyRecent (shared with C19.Q6)
	if ri, err := resolveRing(w); err != nil {
		r.Unknown("R2", "motion.FrameLoop", "-", err.Error())
	} else {
		e := newTermEnv(w)
		for _, m := range []string{"CopyRecent", "Move"} {
			fn := ri.methods[m]
			paths, _ := enumPathsInl(e, fn, 16, ringHelper(ri, fn))
			okLock := len(paths) > 0
			for _, p := range paths {
				var calls []string
				for _, in := range p.Instrs {
					switch x := in.(type) {
					case *ssa.Call:
						calls = append(calls, calleeName(x))
					case *ssa.Defer:
						calls = append(calls, "defer "+calleeName(x))
					}
				}
				if !(len(calls) >= 2 && calls[0] == "sync.Mutex.Lock" && calls[1] == "defer sync.Mutex.Unlock") {
					okLock = false
				}
			}
			r.Check(okLock, "R2", m+" runs entirely under the ring's mutex", w.Pos(fn.Pos()), "")
		}
		paths, _ := enumPathsInl(e, ri.methods["CopyRecent"], 16, ringHelper(ri, ri.methods["CopyRecent"]))
		for _, p := range paths {
			ret := p.Term(e, p.Ret.Results[0]).String()
			prev := "rem((" + ri.CUR + " + " + ri.N + " + -1), " + ri.N + ")"
			r.Check(ret == "cptvframe.Frame.CreateCopy(index("+ri.FR+", "+prev+"))", "R2", "CopyRecent returns a fresh copy of the slot before the current one", w.InstrPos(p.Ret), ret)
		}
	}
	// R3: destinations of frame writes in MotionProcessor are Current() of the pre-trigger ring
	runs, err := getMotionRuns(w)
	if err != nil {
		r.Unknown("R3", "MotionProcessor", "-", err.Error())
		return
	}
	c := runs.model.C
	// R5: the slot "before the current one" is a completed frame only if the ring position advances solely by Move
	checkRingUsage(w, r, runs.fault, "R5")
	checkRingMove(w, r, "R5")
	// ... and only when a frame was accepted: a rejected (half-overwritten) slot must never become "the previous frame"
	checkRingAdvancesOncePerFrame(w, r, runs, "R5", true, true)
	checkSinksDistinct(w, r, runs, "R5") // a test recording has a recorder of its own: serving a request never drives the motion recording's file
	// ... and the request path asks the ring on every request: the frame handed out is the result of a CopyRecent call
	// made in this very request (a frame remembered from an earlier request may be older than the last completed one)
	{
		ringFld := runs.model.ringFld
		nCalls := 0
		for fn := range w.AllFuncs {
			if rv := fn.Signature.Recv(); rv == nil || !isPtrTo(rv.Type(), c.T) || len(fn.Blocks) == 0 || fn.Signature.Results().Len() == 0 {
				continue
			}
			// methods of the processor that hand out a *Frame
			idx := -1
			for i := 0; i < fn.Signature.Results().Len(); i++ {
				if typeIs(fn.Signature.Results().At(i).Type(), "github.com/TheCacophonyProject/go-cptv/cptvframe", "Frame") {
					idx = i
				}
			}
			if idx < 0 || !ast.IsExported(fn.Name()) {
				continue
			}
			for _, b := range fn.Blocks {
				ret, ok := b.Instrs[len(b.Instrs)-1].(*ssa.Return)
				if !ok {
					continue
				}
				nCalls++
				okFresh := false
				if call, ok := ret.Results[idx].(*ssa.Call); ok && call.Block() != nil {
					if callee := call.Call.StaticCallee(); callee != nil && callee.Name() == "CopyRecent" && len(call.Call.Args) == 1 {
						if u, ok := call.Call.Args[0].(*ssa.UnOp); ok {
							if fa, ok := u.X.(*ssa.FieldAddr); ok && fa.Field == ringFld && fa.X == ssa.Value(fn.Params[0]) {
								okFresh = true
							}
						}
						if fa, ok := call.Call.Args[0].(*ssa.FieldAddr); ok && fa.Field == ringFld && fa.X == ssa.Value(fn.Params[0]) {
							okFresh = true
						}
					}
				}
				r.Check(okFresh, "R5", fn.Name()+": the frame handed out is this request's own CopyRecent() of the pre-trigger ring", w.InstrPos(ret), newTermEnv(w).termOf(ret.Results[idx]).String())
			}
		}
		r.Check(nCalls >= 1, "G4", "a processor method hands out the recent frame", "-", fmt.Sprint(nCalls))
	}
	n, nParse := 0, 0
	for fn := range w.AllFuncs {
		if rv := fn.Signature.Recv(); rv == nil || !isPtrTo(rv.Type(), c.T) || len(fn.Blocks) == 0 {
			continue
		}
		for _, b := range fn.Blocks {
			for _, in := range b.Instrs {
				call, ok := in.(*ssa.Call)
				if !ok {
					continue
				}
				var dst ssa.Value
				what := ""
				if callee := call.Call.StaticCallee(); callee != nil && callee.Name() == "Copy" && callee.Signature.Recv() != nil && typeIs(callee.Signature.Recv().Type(), "github.com/TheCacophonyProject/go-cptv/cptvframe", "Frame") {
					dst, what = call.Call.Args[0], "Frame.Copy destination"
				} else if call.Call.StaticCallee() == nil && !call.Call.IsInvoke() {
					if u, ok := call.Call.Value.(*ssa.UnOp); ok {
						if fa, ok := u.X.(*ssa.FieldAddr); ok && fa.Field == runs.model.parseFld && len(call.Call.Args) >= 2 {
							dst, what = call.Call.Args[1], "parser destination"
							nParse++
						}
					}
				}
				if dst == nil {
					continue
				}
				n++
				okd := false
				if dc, ok := dst.(*ssa.Call); ok {
					if callee := dc.Call.StaticCallee(); callee != nil && callee.Name() == "Current" {
						if u, ok := dc.Call.Args[0].(*ssa.UnOp); ok {
							if fa, ok := u.X.(*ssa.FieldAddr); ok && fa.Field == runs.model.ringFld {
								okd = true
							}
						}
					}
				}
				r.Check(okd, "R3", fn.Name()+": "+what+" is the pre-trigger ring's current slot", w.InstrPos(call), newTermEnv(w).termOf(dst).String())
			}
		}
	}
	r.Check(n >= 1 && nParse >= 1, "G4", "frame write sites in MotionProcessor (the live path's parser call among them)", "-", fmt.Sprintf("%d sites, %d parser", n, nParse))
	// ... and that is the only way the processor writes a frame: a frame handed to one of its methods is a slot of the
	// pre-trigger ring - once the ring has moved on it is the slot CopyRecent copies under the lock, and a plain store
	// into it (a status field stamped, a pixel patched) races with the snapshot and alters what it returns
	nFr := 0
	var ms []*ssa.Function
	for fn := range w.AllFuncs {
		if rv := fn.Signature.Recv(); rv != nil && isPtrTo(rv.Type(), c.T) && len(fn.Blocks) > 0 {
			ms = append(ms, fn)
		}
	}
	sort.Slice(ms, func(i, j int) bool { return ms[i].String() < ms[j].String() })
	for _, fn := range ms {
		for pi, p := range fn.Params {
			if pi == 0 || !typeIs(p.Type(), "github.com/TheCacophonyProject/go-cptv/cptvframe", "Frame") {
				continue
			}
			nFr++
			var bad ssa.Instruction
			for _, b := range fn.Blocks {
				for _, in := range b.Instrs {
					st, ok := in.(*ssa.Store)
					if !ok {
						continue
					}
					root := st.Addr
					for i := 0; i < 8; i++ {
						switch x := root.(type) {
						case *ssa.FieldAddr:
							root = x.X
							continue
						case *ssa.IndexAddr:
							root = x.X
							continue
						case *ssa.UnOp:
							if x.Op == token.MUL {
								root = x.X
								continue
							}
						}
						break
					}
					if root == ssa.Value(p) {
						bad = in
					}
				}
			}
			// ... nor handed to anything that may keep or modify it: a frame parameter is read, passed on to another method of
			// the processor, shown to the detector, written to a sink or used as the source of a copy - nothing else (handed
			// to a recorder's StartRecording as "background", go-cptv stamps the background flag into it: the ring slot stays
			// flagged, snapshots and later recordings carry a frame that is not the frame received)
			var handed []string
			aliases := map[ssa.Value]bool{p: true}
			workv := []ssa.Value{p}
			for len(workv) > 0 {
				v := workv[len(workv)-1]
				workv = workv[:len(workv)-1]
				if v.Referrers() == nil {
					continue
				}
				for _, rf := range *v.Referrers() {
					switch u := rf.(type) {
					case *ssa.Phi:
						if !aliases[u] {
							aliases[u] = true // "background = frame" on one branch: what the merged value is used for counts
							workv = append(workv, u)
						}
					case *ssa.FieldAddr, *ssa.DebugRef, *ssa.BinOp:
					case *ssa.UnOp:
					case *ssa.Call:
						cl := u.Call.StaticCallee()
						switch {
						case u.Call.IsInvoke() && u.Call.Method.Name() == "WriteFrame":
						case cl != nil && cl.Signature.Recv() != nil && isPtrTo(cl.Signature.Recv().Type(), c.T):
						case cl != nil && cl.Name() == "Detect":
						case cl != nil && cl.Name() == "Copy" && len(u.Call.Args) == 2 && aliases[u.Call.Args[1]] && !aliases[u.Call.Args[0]]:
						default:
							// a copy helper (library Copy, wrapper or hand-written deep copy) with the frame as its SOURCE
							if cd, cs, okc := frameCopyOf(cl, u.Call.Args, 0); okc && aliases[cs] && !aliases[cd] {
								break
							}
							handed = append(handed, calleeNameCI(u)+" at "+w.InstrPos(u))
						}
					default:
						handed = append(handed, fmt.Sprintf("%T at %s", rf, w.InstrPos(rf)))
					}
				}
			}
			sort.Strings(handed)
			r.Check(len(handed) == 0, "R3", fn.Name()+": the frame parameter "+p.Name()+" (a ring slot) is only read, written to a sink, shown to the detector or passed on inside the processor", w.Pos(fn.Pos()), strings.Join(handed, " ; "))
			name := fn.Name() + ": the frame parameter " + p.Name() + " (a ring slot) is never stored into"
			if bad != nil {
				r.Fail("R3", name, w.InstrPos(bad), "a store into a frame the processor was handed: after the ring has advanced this is the slot a concurrent snapshot copies", "")
			} else {
				r.Pass("R3", name, w.Pos(fn.Pos()), "")
			}
		}
	}
	r.Check(nFr >= 3, "G4", "processor methods that are handed a frame", "-", fmt.Sprint(nFr))
}

// checkLockPairing: every acquisition of a mutex in the recorder daemon and in the motion package is released on every
// path: no return with the mutex possibly held (unless a deferred Unlock registered on all paths releases it), and no
// second acquisition of a mutex that may still be held (self-deadlock). A lock left held stalls the next requester and
// the frame loop's next connection for good.
func checkLockPairing(w *World, r *Report, rule string) {
	nLock := 0
	for _, fn := range w.RepoFuncs() {
		if fn.Pkg == nil {
			continue
		}
		pp := fn.Pkg.Pkg.Path()
		if !(strings.HasSuffix(pp, "/cmd/thermal-recorder") || strings.HasSuffix(pp, "/motion")) {
			continue
		}
		has := false
		locksHere := map[string]bool{}
		for _, b := range fn.Blocks {
			for _, in := range b.Instrs {
				if c, ok := in.(*ssa.Call); ok && (isMutexOp(c.Call.StaticCallee(), "Lock") || isMutexOp(c.Call.StaticCallee(), "RLock")) {
					has = true
					locksHere[lsLockName(c.Call.Args[0], "")] = true
				}
			}
		}
		if !has {
			continue
		}
		nb := len(fn.Blocks)
		mayIn := make([]map[string]bool, nb) // locks that may be held
		defIn := make([]map[string]bool, nb) // deferred unlocks registered on all paths
		mayOut := make([]map[string]bool, nb)
		defOut := make([]map[string]bool, nb)
		reached := make([]bool, nb)
		reached[0] = true
		mayIn[0], defIn[0] = map[string]bool{}, map[string]bool{}
		type finding struct {
			pos  string
			what string
		}
		var finds []finding
		for iter, changed := 0, true; changed && iter < 50; iter++ {
			changed = false
			finds = nil
			for _, b := range fn.Blocks {
				i := b.Index
				if i != 0 {
					var m, d map[string]bool
					for _, p := range b.Preds {
						if mayOut[p.Index] == nil {
							continue
						}
						reached[i] = true
						if m == nil {
							m, d = copySet(mayOut[p.Index]), copySet(defOut[p.Index])
						} else {
							for k := range mayOut[p.Index] {
								m[k] = true
							}
							for k := range d {
								if !defOut[p.Index][k] {
									delete(d, k)
								}
							}
						}
					}
					if m == nil {
						continue
					}
					mayIn[i], defIn[i] = m, d
				}
				cur, def := copySet(mayIn[i]), copySet(defIn[i])
				for _, in := range b.Instrs {
					switch x := in.(type) {
					case *ssa.Defer:
						if c := x.Call.StaticCallee(); isMutexOp(c, "Unlock") || isMutexOp(c, "RUnlock") {
							def[lsLockName(x.Call.Args[0], "")] = true
						} else {
							var body *ssa.Function = c
							if mc, ok := x.Call.Value.(*ssa.MakeClosure); ok {
								body, _ = mc.Fn.(*ssa.Function)
							}
							for _, l := range alwaysUnlocks(w, body) {
								def[l] = true // a deferred closure / helper every path of which releases the mutex
							}
						}
					case *ssa.Call:
						c := x.Call.StaticCallee()
						switch {
						case isMutexOp(c, "Lock") || isMutexOp(c, "RLock"):
							l := lsLockName(x.Call.Args[0], "")
							if cur[l] {
								finds = append(finds, finding{w.InstrPos(x), "acquires " + l + " while it may still be held (the goroutine would wait for itself)"})
							}
							cur[l] = true
							nLock++
						case isMutexOp(c, "Unlock") || isMutexOp(c, "RUnlock"):
							l := lsLockName(x.Call.Args[0], "")
							if !cur[l] && locksHere[l] {
								finds = append(finds, finding{w.InstrPos(x), "releases " + l + " where it cannot be held (a second Unlock: the runtime aborts the daemon)"})
							}
							delete(cur, l)
						default:
							for _, l := range alwaysUnlocks(w, c) {
								delete(cur, l) // a helper every path of which releases the mutex
							}
						}
					case *ssa.Return:
						for l := range cur {
							if !def[l] {
								finds = append(finds, finding{w.InstrPos(x), "returns with " + l + " possibly still held (no Unlock on this path and no deferred one)"})
							}
						}
					}
				}
				if !sameSet(cur, mayOut[i]) || !sameSet(def, defOut[i]) {
					mayOut[i], defOut[i] = cur, def
					changed = true
				}
			}
		}
		name := "every mutex acquired in " + fn.String() + " is released on every path"
		if len(finds) > 0 {
			sort.Slice(finds, func(i, j int) bool { return finds[i].pos+finds[i].what < finds[j].pos+finds[j].what })
			r.Fail(rule, name, finds[0].pos, finds[0].what, "")
		} else {
			r.Pass(rule, name, w.Pos(fn.Pos()), "")
		}
	}
	r.Check(nLock >= 5, "G4", "mutex acquisitions found", "-", fmt.Sprint(nLock))
}

func sameSet(a, b map[string]bool) bool {
	if b == nil {
		return false
	}
	if len(a) != len(b) {
		return false
	}
	for k := range a {
		if !b[k] {
			return false
		}
	}
	return true
}

// checkSharedPointerGuards: the package-level pointers the frame loop publishes per connection (the processor, the
// camera description) are nil until the first camera connects. Every function reached from a service request uses such a
// pointer (method call, field access) only where a test against nil of that very load has excluded nil - a request that
// arrives early is refused with an error, it does not take the daemon down with a nil dereference.
func checkSharedPointerGuards(w *World, r *Report, rule string, a *lockAnalysis) {
	pkg := w.Pkg("cmd/thermal-recorder")
	if pkg == nil {
		return
	}
	// the request side: functions reached from a D-Bus method or from a goroutine other than the frame loop's (main)
	reqSide := map[*ssa.Function]bool{}
	for _, root := range a.Roots {
		if root.Name == "main" {
			continue
		}
		for f := range a.Funcs[root.Name] {
			reqSide[f] = true
		}
	}
	// pointers stored by the connection handler family under the mutex: globals of pointer type to repo structs
	nUse := 0
	for _, fn := range w.funcsInPkg("cmd/thermal-recorder") {
		if !reqSide[fn] {
			continue
		}
		// requester side only: functions that never store to the global
		for _, b := range fn.Blocks {
			for _, in := range b.Instrs {
				ld, ok := in.(*ssa.UnOp)
				if !ok || ld.Op != token.MUL {
					continue
				}
				g, ok := ld.X.(*ssa.Global)
				if !ok || g.Pkg != pkg {
					continue
				}
				pt, ok := g.Type().(*types.Pointer)
				if !ok {
					continue
				}
				if _, isPtr := pt.Elem().Underlying().(*types.Pointer); !isPtr {
					continue
				}
				publishedAtRunTime := false
				for _, f2 := range w.funcsInPkg("cmd/thermal-recorder") {
					if f2.Name() != "init" && storesGlobal(f2, g) {
						publishedAtRunTime = true
					}
				}
				if !publishedAtRunTime {
					continue // set once by the package initialiser: never nil afterwards
				}
				if storesGlobal(fn, g) || ld.Referrers() == nil {
					continue // the publishing side: it has just stored a non-nil value itself
				}
				for _, rf := range *ld.Referrers() {
					deref := false
					switch u := rf.(type) {
					case *ssa.FieldAddr:
						deref = u.X == ssa.Value(ld)
					case *ssa.Call:
						if cl := u.Call.StaticCallee(); cl != nil && cl.Signature.Recv() != nil && len(u.Call.Args) > 0 && u.Call.Args[0] == ssa.Value(ld) {
							deref = !nilSafeMethod(cl)
						}
					case *ssa.UnOp:
						deref = u.Op == token.MUL && u.X == ssa.Value(ld)
					}
					if !deref {
						continue
					}
					nUse++
					ui := rf.(ssa.Instruction)
					guarded := false
					for _, gd := range newTermEnv(w).guardsOf(ui.Block()) {
						bo, ok := gd.If.Cond.(*ssa.BinOp)
						if !ok {
							continue
						}
						sameLoad := func(v ssa.Value) bool {
							u, ok := v.(*ssa.UnOp)
							return ok && u.Op == token.MUL && u.X == ssa.Value(g)
						}
						if (sameLoad(bo.X) && isNilConst(bo.Y)) || (sameLoad(bo.Y) && isNilConst(bo.X)) {
							if (bo.Op == token.NEQ && gd.Pos) || (bo.Op == token.EQL && !gd.Pos) {
								guarded = true
							}
						}
					}
					r.Check(guarded, rule, "request side: "+g.Name()+" is used in "+fn.Name()+" only where it was found non-nil", w.InstrPos(ui), "")
				}
			}
		}
	}
	r.Check(nUse >= 2, "G4", "uses of the published pointers on the request side found", "-", fmt.Sprint(nUse))
}

func storesGlobal(fn *ssa.Function, g *ssa.Global) bool {
	for _, b := range fn.Blocks {
		for _, in := range b.Instrs {
			if st, ok := in.(*ssa.Store); ok && st.Addr == ssa.Value(g) {
				return true
			}
		}
	}
	return false
}

// nilSafeMethod: a pointer-receiver method that tests its receiver against nil before anything else.
func nilSafeMethod(fn *ssa.Function) bool {
	if len(fn.Blocks) == 0 || len(fn.Params) == 0 {
		return false
	}
	if iff, ok := fn.Blocks[0].Instrs[len(fn.Blocks[0].Instrs)-1].(*ssa.If); ok {
		if bo, ok := iff.Cond.(*ssa.BinOp); ok && (bo.X == ssa.Value(fn.Params[0]) && isNilConst(bo.Y) || bo.Y == ssa.Value(fn.Params[0]) && isNilConst(bo.X)) {
			return true
		}
	}
	return false
}

// alwaysUnlocks: the package-level mutexes that every execution of fn (a repository function or closure) releases: an
// Unlock on a global mutex in a block that dominates every return.
func alwaysUnlocks(w *World, fn *ssa.Function) []string {
	if fn == nil || len(fn.Blocks) == 0 || !w.IsRepoFunc(fn) {
		return nil
	}
	var out []string
	for _, b := range fn.Blocks {
		all := true
		for _, rb := range fn.Blocks {
			if _, isRet := rb.Instrs[len(rb.Instrs)-1].(*ssa.Return); isRet && !(b == rb || b.Dominates(rb)) {
				all = false
			}
		}
		if !all {
			continue
		}
		for _, in := range b.Instrs {
			if c, ok := in.(*ssa.Call); ok && (isMutexOp(c.Call.StaticCallee(), "Unlock") || isMutexOp(c.Call.StaticCallee(), "RUnlock")) {
				if _, isG := c.Call.Args[0].(*ssa.Global); isG {
					out = append(out, lsLockName(c.Call.Args[0], ""))
				}
			}
		}
	}
	return out
}
