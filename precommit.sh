#!/bin/bash
# runs every quick check on the unchanged tree + schema validation; non-zero if anything is not silent
cd "$(dirname "$0")"
fail=0
for p in C01 C02 C03 C04 C05 C06 C07 C08 C09 C10 C11 C12 C13 C14 C15 C16 C17 C18 C19 C20; do
  ./run.sh $p quick > /tmp/pc.$p.out 2>&1 || { echo "FAIL $p"; grep -E "^VIOL|^NOT|BROKEN" /tmp/pc.$p.out | head -3; fail=1; }
done
python3-vt validate.py || fail=1
exit $fail
