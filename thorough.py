#!/usr/bin/env python3
"""thorough tier: the quick obligations on the host architecture, the same obligations
for GOARCH=arm (the Raspberry Pi target, 32-bit int), and the sensitivity battery: every
seed mutant of the property (seeds/<id>/*.json, a textual replacement applied to the
CURRENT tree as an in-memory overlay, never written under /repo) must be reported
against the expected rule. A seed whose pattern no longer occurs is skipped and listed;
a seed that applies but is not reported makes the check fail as BROKEN (exit 2, no
VIOLATION line). The battery only runs when the tree itself is clean."""
import json, os, shutil, subprocess, sys, tempfile, time, glob, concurrent.futures

def main():
    pid, repo = sys.argv[1], sys.argv[2]
    here = os.path.dirname(os.path.abspath(__file__))
    trsa = os.path.join(here, "bin", "trsa")
    t0 = time.time()
    base = [trsa, "-prop", pid, "-repo", repo, "-verif", here]
    p = subprocess.run(base + ["-tier", "thorough"], stdout=subprocess.PIPE, stderr=subprocess.STDOUT, text=True)
    sys.stdout.write(p.stdout)
    if p.returncode != 0:
        sys.exit(p.returncode)
    # second architecture
    arm = subprocess.run(base + ["-tier", "thorough", "-arch", "arm", "-no-evidence"], stdout=subprocess.PIPE, stderr=subprocess.STDOUT, text=True)
    print("-- GOARCH=arm --")
    sys.stdout.write(arm.stdout)
    if arm.returncode != 0:
        sys.exit(arm.returncode)
    # sensitivity battery
    seeds = sorted(glob.glob(os.path.join(here, "seeds", pid, "*.json")))
    results = []
    def run_seed(path):
        sd = json.load(open(path))
        name = os.path.basename(path)[:-5]
        args = []
        tmps = []
        srcs = {}
        for ed in sd["edits"]:
            f = os.path.join(repo, ed["file"])
            if f not in srcs:
                srcs[f] = open(f).read()
            if srcs[f].count(ed["old"]) < 1:
                return dict(seed=name, status="skipped", why="pattern not found in " + ed["file"])
            srcs[f] = srcs[f].replace(ed["old"], ed["new"], 1)
        for f, src in srcs.items():
            tf = tempfile.NamedTemporaryFile("w", suffix=".go", delete=False, dir=tempfile.gettempdir())
            tf.write(src); tf.close(); tmps.append(tf.name)
            args += ["-overlay", f + "=" + tf.name]
        try:
            q = subprocess.run(base + ["-tier", "quick", "-no-evidence"] + args, stdout=subprocess.PIPE, stderr=subprocess.STDOUT, text=True)
        finally:
            for t in tmps:
                os.unlink(t)
        out = q.stdout
        if "type-check/load errors" in out:
            return dict(seed=name, status="skipped", why="mutant does not type-check on this tree")
        hit = [l for l in out.splitlines() if (l.startswith("VIOLATED") or l.startswith("NOT-ESTABLISHED")) and any(e in l for e in sd["expect"])]
        if q.returncode == 1 and hit:
            return dict(seed=name, status="detected", by=hit[0][:200], what=sd.get("what", ""))
        anyv = [l for l in out.splitlines() if l.startswith("VIOLATED") or l.startswith("NOT-ESTABLISHED")]
        return dict(seed=name, status="MISSED", expected=sd["expect"], got=anyv[:3], what=sd.get("what", ""))
    # independent mutants kept under seeded/: applied (patch.diff) to temporary copies of the touched files
    def run_mutant(d):
        name = "seeded/" + os.path.basename(d)
        meta = json.load(open(os.path.join(d, "meta.json")))
        expect = [c for c in meta.get("caught_by", []) if c.startswith(pid + ".")]
        if not expect:
            return None
        patch = open(os.path.join(d, "patch.diff")).read()
        files = [l[6:].strip() for l in patch.splitlines() if l.startswith("+++ b/")]
        tmp = tempfile.mkdtemp()
        try:
            for f in files:
                os.makedirs(os.path.dirname(os.path.join(tmp, f)), exist_ok=True)
                shutil.copy(os.path.join(repo, f), os.path.join(tmp, f))
            pr = subprocess.run(["patch", "-p1", "-s", "-d", tmp], input=patch, text=True, stdout=subprocess.PIPE, stderr=subprocess.STDOUT)
            if pr.returncode != 0:
                return dict(seed=name, status="skipped", why="patch no longer applies to this tree")
            args = []
            for f in files:
                args += ["-overlay", os.path.join(repo, f) + "=" + os.path.join(tmp, f)]
            q = subprocess.run(base + ["-tier", "quick", "-no-evidence"] + args, stdout=subprocess.PIPE, stderr=subprocess.STDOUT, text=True)
        finally:
            shutil.rmtree(tmp, ignore_errors=True)
        out = q.stdout
        if "type-check/load errors" in out:
            return dict(seed=name, status="skipped", why="mutant does not type-check on this tree")
        hit = [l for l in out.splitlines() if (l.startswith("VIOLATED") or l.startswith("NOT-ESTABLISHED")) and any(e in l for e in expect)]
        if q.returncode == 1 and hit:
            return dict(seed=name, status="detected", by=hit[0][:200], what=meta.get("needs_to_manifest", ""))
        anyv = [l for l in out.splitlines() if l.startswith("VIOLATED") or l.startswith("NOT-ESTABLISHED")]
        return dict(seed=name, status="MISSED", expected=expect, got=anyv[:3])
    with concurrent.futures.ThreadPoolExecutor(max_workers=8) as ex:
        results = list(ex.map(run_seed, seeds))
        results += [x for x in ex.map(run_mutant, sorted(glob.glob(os.path.join(here, "seeded", "*-*")))) if x]
    missed = [r for r in results if r["status"] == "MISSED"]
    detected = [r for r in results if r["status"] == "detected"]
    skipped = [r for r in results if r["status"] == "skipped"]
    print("-- sensitivity battery: %d seeds, %d detected, %d skipped, %d missed --" % (len(results), len(detected), len(skipped), len(missed)))
    for r in results:
        print("   %-9s %s %s" % (r["status"], r["seed"], r.get("by", r.get("why", r.get("got", "")))))
    # extend the evidence written by the analyser
    evp = os.path.join(here, "evidence", pid + ".json")
    ev = json.load(open(evp))
    ev["coverage"]["goarch_arm"] = "same obligations discharged for GOARCH=arm"
    ev["coverage"]["seeds_applied"] = len(detected) + len(missed)
    ev["coverage"]["seeds_detected"] = len(detected)
    ev["coverage"]["seeds_skipped"] = [r["seed"] for r in skipped]
    ev["coverage"]["seed_results"] = results
    ev["wall_s"] = time.time() - t0
    json.dump(ev, open(evp, "w"), indent=1)
    if missed:
        print("BROKEN: the check does not detect seeded mutant(s) %s" % [r["seed"] for r in missed])
        sys.exit(2)
    sys.exit(0)

main()
