#!/usr/bin/env python3
"""False-alarm battery: applies each behaviour-preserving edit of seeds/benign/ to the CURRENT tree as an
in-memory overlay and runs ALL checks; every check must stay silent. Exit 0 = no false alarm."""
import json, os, subprocess, sys, tempfile, glob, concurrent.futures
here = os.path.dirname(os.path.abspath(__file__))
repo = sys.argv[1] if len(sys.argv) > 1 and sys.argv[1].startswith("/") else "/repo"
only = [a for a in sys.argv[1:] if not a.startswith("/")]  # optional: names of edits to run
trsa = os.path.join(here, "bin", "trsa")
def run(path):
    sd = json.load(open(path)); name = os.path.basename(path)[:-5]
    srcs = {}
    for ed in sd["edits"]:
        f = os.path.join(repo, ed["file"])
        srcs.setdefault(f, open(f).read())
        if srcs[f].count(ed["old"]) < 1:
            return name, "skipped", "pattern not found in " + ed["file"]
        srcs[f] = srcs[f].replace(ed["old"], ed["new"]) if ed.get("all") else srcs[f].replace(ed["old"], ed["new"], 1)
    args, tmps = [], []
    for f, src in srcs.items():
        tf = tempfile.NamedTemporaryFile("w", suffix=".go", delete=False); tf.write(src); tf.close(); tmps.append(tf.name)
        args += ["-overlay", f + "=" + tf.name]
    try:
        q = subprocess.run([trsa, "-prop", "all", "-repo", repo, "-verif", here, "-no-evidence"] + args, stdout=subprocess.PIPE, stderr=subprocess.STDOUT, text=True)
    finally:
        for t in tmps: os.unlink(t)
    if "type-check/load errors" in q.stdout:
        return name, "skipped", "edit does not type-check"
    alarms = [l[:220] for l in q.stdout.splitlines() if l.startswith("VIOLATED") or l.startswith("NOT-ESTABLISHED")]
    return name, ("FALSE-ALARM" if alarms else "silent"), alarms[:4]
with concurrent.futures.ThreadPoolExecutor(max_workers=6) as ex:
    files = sorted(glob.glob(os.path.join(here, "seeds", "benign", "*.json")))
    if only:
        files = [f for f in files if os.path.basename(f)[:-5] in only]
    res = list(ex.map(run, files))
bad = 0
for name, st, info in res:
    print("%-12s %s %s" % (st, name, info if st != "silent" else ""))
    bad += st == "FALSE-ALARM"
print("%d benign edits, %d false alarms" % (len(res), bad))
sys.exit(1 if bad else 0)
