#!/usr/bin/env python3
"""False-alarm battery: applies each behaviour-preserving edit of seeds/benign/ to the CURRENT tree as an
in-memory overlay and runs ALL checks; every check must stay silent. Exit 0 = no false alarm."""
import json, os, subprocess, sys, tempfile, glob, concurrent.futures
here = os.path.dirname(os.path.abspath(__file__))
repo = sys.argv[1] if len(sys.argv) > 1 and sys.argv[1].startswith("/") else "/repo"
only = [a for a in sys.argv[1:] if not a.startswith("/")]  # optional: names of edits to run
trsa = os.path.join(here, "bin", "trsa")
def run(path):
    sd = json.load(open(path)); name = os.path.basename(path)[:-5]
    srcs = {}
    for ed in sd["edits"]:
        f = os.path.join(repo, ed["file"])
        srcs.setdefault(f, open(f).read())
        if srcs[f].count(ed["old"]) < 1:
            return name, "skipped", "pattern not found in " + ed["file"]
        srcs[f] = srcs[f].replace(ed["old"], ed["new"]) if ed.get("all") else srcs[f].replace(ed["old"], ed["new"], 1)
    args, tmps = [], []
    for f, src in srcs.items():
        tf = tempfile.NamedTemporaryFile("w", suffix=".go", delete=False); tf.write(src); tf.close(); tmps.append(tf.name)
        args += ["-overlay", f + "=" + tf.name]
    try:
        q = subprocess.run([trsa, "-prop", "all", "-repo", repo, "-verif", here, "-no-evidence"] + args, stdout=subprocess.PIPE, stderr=subprocess.STDOUT, text=True)
    finally:
        for t in tmps: os.unlink(t)
    if "type-check/load errors" in q.stdout:
        return name, "skipped", "edit does not type-check"
    alarms = [l[:220] for l in q.stdout.splitlines() if l.startswith("VIOLATED") or l.startswith("NOT-ESTABLISHED")]
    return name, ("FALSE-ALARM" if alarms else "silent"), alarms[:4]
def run_patch(path):
    """an independent behaviour-preserving refactoring (seeded/refactors/<area>/rN.diff): applied to temporary copies"""
    import shutil
    name = os.path.relpath(path, os.path.join(here, "seeded"))[:-5].replace("/", "-")
    patch = open(path).read()
    files = [l[6:].strip() for l in patch.splitlines() if l.startswith("+++ b/")]
    tmp = tempfile.mkdtemp()
    try:
        for f in files:
            os.makedirs(os.path.dirname(os.path.join(tmp, f)), exist_ok=True)
            if os.path.exists(os.path.join(repo, f)):
                shutil.copy(os.path.join(repo, f), os.path.join(tmp, f))
        pr = subprocess.run(["patch", "-p1", "-s", "-d", tmp], input=patch, text=True, stdout=subprocess.PIPE, stderr=subprocess.STDOUT)
        if pr.returncode != 0:
            return name, "skipped", "patch no longer applies"
        args = []
        for f in files:
            args += ["-overlay", os.path.join(repo, f) + "=" + os.path.join(tmp, f)]
        q = subprocess.run([trsa, "-prop", "all", "-repo", repo, "-verif", here, "-no-evidence"] + args, stdout=subprocess.PIPE, stderr=subprocess.STDOUT, text=True)
    finally:
        shutil.rmtree(tmp, ignore_errors=True)
    if "type-check/load errors" in q.stdout:
        return name, "skipped", "does not type-check on this tree"
    alarms = [l[:220] for l in q.stdout.splitlines() if l.startswith("VIOLATED") or l.startswith("NOT-ESTABLISHED")]
    return name, ("FALSE-ALARM" if alarms else "silent"), alarms[:4]
with concurrent.futures.ThreadPoolExecutor(max_workers=6) as ex:
    files = sorted(glob.glob(os.path.join(here, "seeds", "benign", "*.json")))
    if only:
        files = [f for f in files if os.path.basename(f)[:-5] in only]
    res = list(ex.map(run, files))
    pfiles = sorted(glob.glob(os.path.join(here, "seeded", "refactors*", "*", "r*.diff")))
    if only:
        pfiles = [f for f in pfiles if os.path.relpath(f, os.path.join(here, "seeded"))[:-5].replace("/", "-") in only]
    res += list(ex.map(run_patch, pfiles))
bad = 0
known = json.load(open(os.path.join(here, "seeds", "known_limitations.json")))
nk = 0
for name, st, info in res:
    if st == "FALSE-ALARM" and name in known:
        # a refactoring the machinery is known not to see through (documented in DESIGN.md section 8): still an alarm,
        # listed separately so that a NEW false alarm stands out
        print("%-12s %s %s" % ("KNOWN-LIMIT", name, known[name]))
        nk += 1
        continue
    if st == "silent" and name in known:
        print("%-12s %s (listed as a known limitation but silent now: remove it from seeds/known_limitations.json)" % ("silent", name))
        continue
    print("%-12s %s %s" % (st, name, info if st != "silent" else ""))
    bad += st == "FALSE-ALARM"
print("%d benign edits, %d false alarms, %d known limitations" % (len(res), bad, nk))
sys.exit(1 if bad else 0)
