// Demonstration of the C14 finding D7 against the real code: a camera serial that does not fit
// the platform's int is lost on the way from leptond's YAML camera description to the recorder.
package demos

import (
	"bufio"
	"bytes"
	"math"
	"testing"

	"github.com/TheCacophonyProject/thermal-recorder/headers"
	yaml "gopkg.in/yaml.v1"
)

func TestD7CameraSerialBeyondInt(t *testing.T) {
	// leptond: serial is a uint64 (lepton3.GetSerial) placed in a map[string]interface{} and marshalled with yaml.v1
	serial := uint64(math.MaxInt) + 1 // 2^31 on the 32-bit Raspberry Pi, 2^63 on amd64
	specs := map[string]interface{}{headers.XResolution: 160, headers.YResolution: 120, headers.FPS: 9, headers.FrameSize: 39040,
		headers.Brand: "flir", headers.Model: "lepton3", headers.Serial: serial, headers.Firmware: "1.2.3"}
	y, err := yaml.Marshal(specs)
	if err != nil {
		t.Fatal(err)
	}
	h, err := headers.ReadHeaderInfo(bufio.NewReader(bytes.NewReader(append(y, '\n'))))
	if err != nil {
		t.Fatal(err)
	}
	if uint64(h.CameraSerial()) != serial {
		t.Errorf("serial sent %d, received %d", serial, h.CameraSerial())
	}
	if h.ResX() != 160 || h.Model() != "lepton3" {
		t.Errorf("control fields did not round-trip")
	}
}
