// Demonstrations of the C15 defects D3 and D4 (DESIGN.md section 5) against the real code.
package demos

import (
	"testing"
	"time"

	config "github.com/TheCacophonyProject/go-config"
	"github.com/TheCacophonyProject/go-cptv/cptvframe"
	"github.com/TheCacophonyProject/thermal-recorder/motion"
	"github.com/TheCacophonyProject/thermal-recorder/recorder"
	"github.com/TheCacophonyProject/window"
)

type threshSink struct {
	recorder.NoWriteRecorder
	thresh []uint16
}

func (s *threshSink) StartRecording(bg *cptvframe.Frame, th uint16) error {
	s.thresh = append(s.thresh, th)
	return nil
}

func mkFrame(base uint16, hot int) *cptvframe.Frame {
	f := cptvframe.NewFrame(cam{})
	f.Status.TimeOn = time.Hour
	f.Status.LastFFCTime = time.Minute
	for y := range f.Pix {
		for x := range f.Pix[y] {
			f.Pix[y][x] = base
		}
	}
	if hot >= 0 {
		for y := 4; y < 8; y++ {
			for x := hot; x < hot+4 && x < 15; x++ {
				f.Pix[y][x] = base + 1500
			}
		}
	}
	return f
}

func run(t *testing.T, min, max uint16, preview int, warm int) *threshSink {
	mc := config.DefaultThermalMotion("lepton3")
	mc.DynamicThreshold = true
	mc.TempThreshMin = min
	mc.TempThreshMax = max
	mc.EdgePixels = 1
	mc.TriggerFrames = 1
	mc.UseOneDiffOnly = true
	w, _ := window.New("12:00", "12:00", 0, 0)
	rc := &recorder.RecorderConfig{MinSecs: 1, MaxSecs: 2, PreviewSecs: preview, Window: *w}
	s := &threshSink{}
	p := motion.NewMotionProcessor(nil, &mc, rc, &config.Location{}, nil, s, cam{}, nil, nil)
	for i := 0; i < warm; i++ {
		p.ProcessFrame(mkFrame(uint16(2000-i%2), -1))
	}
	for i := 0; i < 8 && len(s.thresh) == 0; i++ {
		p.ProcessFrame(mkFrame(2000, 2+i))
	}
	if len(s.thresh) == 0 {
		t.Fatal("no recording was triggered")
	}
	return s
}

// D3: temp-thresh-min is ignored whenever temp-thresh-max is set.
func TestD3MinIgnoredWhenMaxSet(t *testing.T) {
	s := run(t, 2800, 3200, 1, 30)
	if s.thresh[0] != 2800 {
		t.Errorf("threshold stored with the recording = %d, want 2800 (mean ~2000 limited to [2800,3200])", s.thresh[0])
	}
}

// D4: with preview-secs = 0 the threshold is recomputed from the seed frame with mean 0.
func TestD4SeedFrameMeanZero(t *testing.T) {
	// one seed frame only, then motion: the threshold in force must be the mean (~2000), not 0
	s := run(t, 0, 0, 0, 1)
	if s.thresh[0] < 1990 || s.thresh[0] > 2100 {
		t.Errorf("threshold stored with the recording = %d, want ~2000 (mean of the background)", s.thresh[0])
	}
}
