module demos

go 1.15

require (
	github.com/TheCacophonyProject/go-config v1.6.4
	github.com/TheCacophonyProject/go-cptv v0.0.0-20211109233846-8c32a5d161f7
	github.com/TheCacophonyProject/thermal-recorder v0.0.0
	github.com/TheCacophonyProject/window v0.0.0-20200312071457-7fc8799fdce7
	gopkg.in/yaml.v1 v1.0.0-20140924161607-9f9df34309c0
)

replace github.com/TheCacophonyProject/thermal-recorder => /repo

replace periph.io/x/periph => github.com/TheCacophonyProject/periph v2.1.1-0.20200615222341-6834cd5be8c1+incompatible
