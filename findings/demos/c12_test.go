// Demonstrations (against the real code in /repo) of the C12 defects D1 and D2
// described in DESIGN.md section 5. They fail on the pinned commit and pass
// after the corresponding "fix:" commits. Not part of the deciding machinery.
package demos

import (
	"errors"
	"testing"

	config "github.com/TheCacophonyProject/go-config"
	"github.com/TheCacophonyProject/go-cptv/cptvframe"
	"github.com/TheCacophonyProject/thermal-recorder/motion"
	"github.com/TheCacophonyProject/thermal-recorder/recorder"
	"github.com/TheCacophonyProject/window"
)

type cam struct{}

func (cam) ResX() int { return 16 }
func (cam) ResY() int { return 12 }
func (cam) FPS() int  { return 9 }

// sink checks the recorder protocol the way CPTVFileRecorder relies on it.
type sink struct {
	t        *testing.T
	name     string
	open     bool
	starts   int
	lens     []int
	cur      int
	failStop bool
}

func (s *sink) StopRecording() error {
	if s.open {
		s.lens = append(s.lens, s.cur)
	}
	s.open = false
	if s.failStop {
		return errors.New("stop failed")
	}
	return nil
}
func (s *sink) StartRecording(*cptvframe.Frame, uint16) error {
	if s.open {
		s.t.Errorf("%s: StartRecording while a recording is open", s.name)
	}
	s.open = true
	s.starts++
	s.cur = 0
	return nil
}
func (s *sink) WriteFrame(*cptvframe.Frame) error {
	if !s.open {
		s.t.Errorf("%s: WriteFrame on a closed recorder (nil writer in CPTVFileRecorder => panic)", s.name)
	}
	s.cur++
	return nil
}
func (s *sink) CheckCanRecord() error { return nil }

func newProc(t *testing.T, bad *bool, cont, test *sink) *motion.MotionProcessor {
	mc := config.DefaultThermalMotion("lepton3")
	w, _ := window.New("12:00", "12:00", 0, 0)
	rc := &recorder.RecorderConfig{MinSecs: 1, MaxSecs: 2, PreviewSecs: 1, Window: *w}
	parse := func(raw []byte, f *cptvframe.Frame, edge int) error {
		if *bad {
			return errors.New("bad frame")
		}
		return nil
	}
	var c recorder.Recorder
	if cont != nil {
		c = cont
	}
	return motion.NewMotionProcessor(parse, &mc, rc, &config.Location{}, nil, new(recorder.NoWriteRecorder), cam{}, c, test)
}

func TestD1ContinuousSinkAfterBadFrame(t *testing.T) {
	bad := false
	cont := &sink{t: t, name: "continuous"}
	test := &sink{t: t, name: "test"}
	p := newProc(t, &bad, cont, test)
	p.Process(nil)
	bad = true
	p.Process(nil)
	bad = false
	p.Process(nil)
}

func TestD1ContinuousSinkAfterFailedStop(t *testing.T) {
	bad := false
	cont := &sink{t: t, name: "continuous", failStop: true}
	test := &sink{t: t, name: "test"}
	p := newProc(t, &bad, cont, test)
	for i := 0; i < 2*9+3; i++ {
		p.Process(nil)
	}
}

func TestD2SecondTestRecordingRequest(t *testing.T) {
	bad := false
	test := &sink{t: t, name: "test"}
	p := newProc(t, &bad, nil, test)
	p.RequestSnapshot()
	p.Process(nil)
	p.RequestSnapshot()
	p.Process(nil)
}

func TestD2TestRecordingLengthAfterFailedStop(t *testing.T) {
	bad := false
	test := &sink{t: t, name: "test", failStop: true}
	p := newProc(t, &bad, nil, test)
	for r := 0; r < 2; r++ {
		p.RequestSnapshot()
		for i := 0; i < 30; i++ {
			p.Process(nil)
		}
	}
	for _, n := range test.lens {
		if n != 21 {
			t.Errorf("test recording lengths %v, want 21 each", test.lens)
			break
		}
	}
}
