#!/bin/bash
# usage: ./run.sh <property-id> quick|thorough|replay [replay-file]
# Builds the analyser if it is stale and runs the property's check against /repo's
# current working tree. Exit 0 = held, 1 = violation (VIOLATION line printed), 2 = broken.
set -u
cd "$(dirname "$0")"
export GOFLAGS=-mod=mod GOPROXY=off GOSUMDB=off GOTOOLCHAIN=local GOWORK=off
unset GOARCH GOOS
ID=${1:?property id}
TIER=${2:-quick}
REPO=${VERIF_REPO:-/repo}
build() {
  if [ ! -x bin/trsa ] || [ -n "$(find sa -newer bin/trsa -name '*.go' -print -quit 2>/dev/null)" ] || [ sa/go.mod -nt bin/trsa ]; then
    mkdir -p bin
    (cd sa && go build -o ../bin/trsa.tmp.$$ . && mv ../bin/trsa.tmp.$$ ../bin/trsa) || { echo "BROKEN: analyser does not build"; exit 2; }
  fi
}
build
case "$TIER" in
  quick)
    exec bin/trsa -prop "$ID" -tier quick -repo "$REPO" -verif "$PWD"
    ;;
  thorough)
    exec python3 thorough.py "$ID" "$REPO"
    ;;
  replay)
    F=${3:?replay file}
    echo "replaying $(jq -r '.rule + " " + .construct' "$F") on the current tree"
    bin/trsa -prop "$ID" -tier quick -repo "$REPO" -verif "$PWD" -no-evidence | grep -F -A2 "$(jq -r '.rule + " " + .construct' "$F")"
    [ $? -eq 0 ] && exit 1 || { echo "not reproduced on the current tree"; exit 0; }
    ;;
  *) echo "unknown tier $TIER"; exit 2;;
esac
