#!/usr/bin/env python3
"""sweep.py <muts.jsonl> <out.jsonl> [workers]
Mechanical sensitivity sweep (development tool; decides nothing, is not a registered check).
For every mutant of bin/mutgen: apply it to a scratch copy of /repo (under /tmp/sweep, removed at the end), and
  1. go build ./...                          -> 'nocompile'
  2. go test -vet=off -count=1 ./...         -> 'tests' (the existing suite notices it)
  3. bin/trsa -prop all -repo <copy>         -> 'caught' (+ the rules that report it) or 'SURVIVED'
Only mutants that compile AND leave the suite green reach step 3: those are the changes the static checks exist for.
Survivors are reviewed by hand (equivalent / outside every property / a gap) in sweep/REVIEW.md."""
import json, os, shutil, subprocess, sys, threading, queue, time
muts = [json.loads(l) for l in open(sys.argv[1])]
out = sys.argv[2]
nw = int(sys.argv[3]) if len(sys.argv) > 3 else 12
SKIP = ("cmd/thermal-recorder/cptvplaybacktester.go", "motion/debugtracker.go", "cmd/thermal-recorder/testcamera.go",
        "cmd/leptond/service.go", "cmd/leptond/config.go", "cmd/thermal-writer/config.go", "leptondController/")
muts = [m for m in muts if not m["file"].startswith(SKIP)]
done = set()
if os.path.exists(out):
    for l in open(out):
        done.add(json.loads(l)["id"])
muts = [m for m in muts if m["id"] not in done]
env = dict(os.environ, GOFLAGS="-mod=mod", GOPROXY="off", GOSUMDB="off", GOTOOLCHAIN="local", GOWORK="off")
base = "/tmp/sweep"
os.makedirs(base, exist_ok=True)
q = queue.Queue()
for m in muts: q.put(m)
lock = threading.Lock()
fo = open(out, "a")
def sh(cmd, cwd, timeout):
    try:
        p = subprocess.run(cmd, cwd=cwd, env=env, stdout=subprocess.PIPE, stderr=subprocess.STDOUT, text=True, timeout=timeout)
        return p.returncode, p.stdout
    except subprocess.TimeoutExpired:
        return 124, "timeout"
def worker(k):
    w = os.path.join(base, "w%d" % k)
    if os.path.exists(w): shutil.rmtree(w)
    shutil.copytree("/repo", w, ignore=shutil.ignore_patterns(".git", "_mutant", "_refactor"))
    while True:
        try: m = q.get_nowait()
        except queue.Empty: break
        f = os.path.join(w, m["file"])
        src = open(f, "rb").read()
        new = src[:m["start"]] + m["repl"].encode() + src[m["end"]:]
        open(f, "wb").write(new)
        res = dict(m)
        rc, o = sh(["go", "build", "./..."], w, 120)
        if rc != 0:
            res["verdict"] = "nocompile"
        else:
            rc, o = sh(["go", "test", "-vet=off", "-count=1", "-timeout", "60s", "./..."], w, 150)
            if rc != 0:
                res["verdict"] = "tests"
            else:
                rc, o = sh(["/verif/bin/trsa", "-prop", "all", "-repo", w, "-verif", "/verif", "-no-evidence"], "/verif", 300)
                al = [l for l in o.splitlines() if l.startswith("VIOLATED") or l.startswith("NOT-ESTABLISHED")]
                rules = sorted(set(l.split()[1] for l in al if len(l.split()) > 1))
                if "type-check/load errors" in o or rc not in (0, 1):
                    res["verdict"] = "analyser-error"; res["detail"] = o[-400:]
                elif al:
                    res["verdict"] = "caught"; res["rules"] = rules[:12]; res["viol"] = sum(l.startswith("VIOLATED") for l in al); res["first"] = al[0][:200]
                else:
                    res["verdict"] = "SURVIVED"
        open(f, "wb").write(src)
        with lock:
            fo.write(json.dumps(res) + "\n"); fo.flush()
    shutil.rmtree(w, ignore_errors=True)
ts = [threading.Thread(target=worker, args=(k,)) for k in range(nw)]
t0 = time.time()
for t in ts: t.start()
for t in ts: t.join()
shutil.rmtree(base, ignore_errors=True)
print("done", len(muts), "mutants in", int(time.time() - t0), "s")
