#!/usr/bin/env python3
"""recheck.py [file-prefix ...] — re-runs the current analyser on the sweep's survivors (mutants that compile and leave
the suite green) as in-memory overlays on /repo and rewrites sweep/survivors.jsonl with what is still not reported."""
import json, os, subprocess, sys, tempfile, concurrent.futures
here = os.path.dirname(os.path.abspath(__file__))
R = [json.loads(l) for l in open(os.path.join(here, "results.jsonl"))]
S = [r for r in R if r["verdict"] == "SURVIVED"]
pref = tuple(sys.argv[1:])
def run(m):
    if pref and not m["file"].startswith(pref):
        return m, None
    f = "/repo/" + m["file"]; src = open(f, "rb").read()
    if src[m["start"]:m["end"]].decode() != m["orig"]:
        return m, "stale"
    new = src[:m["start"]] + m["repl"].encode() + src[m["end"]:]
    tf = tempfile.NamedTemporaryFile("wb", suffix=".go", delete=False); tf.write(new); tf.close()
    q = subprocess.run(["/verif/bin/trsa", "-prop", "all", "-repo", "/repo", "-verif", "/verif", "-no-evidence", "-overlay", f + "=" + tf.name], stdout=subprocess.PIPE, stderr=subprocess.STDOUT, text=True)
    os.unlink(tf.name)
    al = [l for l in q.stdout.splitlines() if l.startswith(("VIOLATED", "NOT-ESTABLISHED"))]
    return m, sorted(set(l.split()[1] for l in al))
with concurrent.futures.ThreadPoolExecutor(max_workers=10) as ex:
    res = list(ex.map(run, S))
caught = [(m, r) for m, r in res if r and r != "stale"]
still = [m for m, r in res if r == [] ]
skipped = [m for m, r in res if r is None]
print("survivors:", len(S), "now caught:", len(caught), "still surviving:", len(still), "not re-run:", len(skipped))
for m, r in caught:
    print("  caught", m["id"], m["file"], m["line"], m["op"], r[:4])
with open(os.path.join(here, "survivors.jsonl"), "w") as fo:
    for m in still + skipped:
        fo.write(json.dumps(m) + "\n")
