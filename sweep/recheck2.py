import json, os, subprocess, sys, tempfile, concurrent.futures
R=[json.loads(l) for l in open('/verif/sweep/results2.jsonl')]
S=[r for r in R if r['verdict']=='SURVIVED']
def run(m):
    f='/repo/'+m['file']; src=open(f,'rb').read()
    new=src[:m['start']]+m['repl'].encode()+src[m['end']:]
    tf=tempfile.NamedTemporaryFile('wb',suffix='.go',delete=False); tf.write(new); tf.close()
    q=subprocess.run(['/verif/bin/trsa','-prop','all','-repo','/repo','-verif','/verif','-no-evidence','-overlay',f+'='+tf.name],stdout=subprocess.PIPE,stderr=subprocess.STDOUT,text=True)
    os.unlink(tf.name)
    al=[l for l in q.stdout.splitlines() if l.startswith(('VIOLATED','NOT-ESTABLISHED'))]
    return m, sorted(set(l.split()[1] for l in al))
with concurrent.futures.ThreadPoolExecutor(max_workers=12) as ex:
    res=list(ex.map(run,S))
still=[m for m,r in res if not r]
print('survivors',len(S),'now caught',len(S)-len(still),'still',len(still))
with open('/verif/sweep/survivors2.jsonl','w') as fo:
    for m in still: fo.write(json.dumps(m)+'\n')
