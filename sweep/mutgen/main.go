// mutgen: mechanical mutation operators over the non-test sources of a thermal-recorder tree.
// Development tool of the sensitivity sweep (sweep/sweep.py); it decides nothing.
// Output: one JSON object per line {id, file, start, end, repl, op, line, fn, orig}.
package main

import (
	"encoding/json"
	"fmt"
	"go/ast"
	"go/token"
	"go/types"
	"os"
	"path/filepath"
	"strings"

	"golang.org/x/tools/go/packages"
)

type Mut struct {
	ID    string `json:"id"`
	File  string `json:"file"`
	Start int    `json:"start"`
	End   int    `json:"end"`
	Repl  string `json:"repl"`
	Op    string `json:"op"`
	Line  int    `json:"line"`
	Fn    string `json:"fn"`
	Orig  string `json:"orig"`
}

var swaps = map[token.Token][]string{
	token.LSS: {"<=", ">"}, token.LEQ: {"<", ">"}, token.GTR: {">=", "<"}, token.GEQ: {">", "<"},
	token.EQL: {"!="}, token.NEQ: {"=="}, token.LAND: {"||"}, token.LOR: {"&&"},
	token.ADD: {"-"}, token.SUB: {"+"}, token.MUL: {"/"}, token.QUO: {"*"}, token.REM: {"/"},
}

var v2 = false

var skipFns = map[string]bool{"logConfig": true, "main": true, "procArgs": true, "checkConfigChanges": true, "deleteExcessRecordings": true, "snapshotRecordingTriggers": true,
	"runMain": true, "startService": true, "startCamera": true, "cycleCameraPower": true, "installSPIDriver": true, "uninstallSPIDriver": true, "resetWatchdog": true}

func main() {
	root := os.Args[1]
	if len(os.Args) > 2 && os.Args[2] == "-v2" {
		v2 = true
	}
	cfg := &packages.Config{Mode: packages.NeedName | packages.NeedFiles | packages.NeedSyntax | packages.NeedTypes | packages.NeedTypesInfo | packages.NeedImports | packages.NeedDeps, Dir: root, Tests: false}
	pkgs, err := packages.Load(cfg, "./...")
	if err != nil {
		panic(err)
	}
	enc := json.NewEncoder(os.Stdout)
	n := 0
	for _, p := range pkgs {
		for i, f := range p.Syntax {
			_ = i
			fname := p.Fset.Position(f.Pos()).Filename
			rel, _ := filepath.Rel(root, fname)
			if strings.HasSuffix(rel, "_test.go") || strings.HasPrefix(rel, "..") {
				continue
			}
			src, _ := os.ReadFile(fname)
			fset := p.Fset
			off := func(pos token.Pos) int { return fset.Position(pos).Offset }
			emit := func(fn string, pos, end token.Pos, repl, op string) {
				n++
				s, e := off(pos), off(end)
				enc.Encode(Mut{ID: fmt.Sprintf(idfmt(), n), File: rel, Start: s, End: e, Repl: repl, Op: op, Line: fset.Position(pos).Line, Fn: fn, Orig: string(src[s:e])})
			}
			for _, d := range f.Decls {
				fd, ok := d.(*ast.FuncDecl)
				if !ok || fd.Body == nil {
					continue
				}
				fn := fd.Name.Name
				if v2 && skipFns[fn] {
					continue
				}
				if fd.Recv != nil && len(fd.Recv.List) > 0 {
					fn = types.ExprString(fd.Recv.List[0].Type) + "." + fn
				}
				if v2 {
					genV2(p, fd, fn, src, off, emit)
					continue
				}
				ast.Inspect(fd.Body, func(nd ast.Node) bool {
					switch x := nd.(type) {
					case *ast.BinaryExpr:
						for _, r := range swaps[x.Op] {
							if x.Op == token.ADD {
								if t := p.TypesInfo.TypeOf(x); t != nil {
									if b, ok := t.Underlying().(*types.Basic); ok && b.Info()&types.IsString != 0 {
										continue
									}
								}
							}
							emit(fn, x.OpPos, x.OpPos+token.Pos(len(x.Op.String())), r, "binop "+x.Op.String()+"->"+r)
						}
					case *ast.BasicLit:
						if x.Kind == token.INT {
							var v int64
							if _, err := fmt.Sscan(x.Value, &v); err == nil && !strings.HasPrefix(x.Value, "0x") {
								emit(fn, x.Pos(), x.End(), fmt.Sprint(v+1), "int+1")
								if v > 0 {
									emit(fn, x.Pos(), x.End(), fmt.Sprint(v-1), "int-1")
								}
							}
						}
					case *ast.Ident:
						if (x.Name == "true" || x.Name == "false") && p.TypesInfo.Uses[x] != nil && p.TypesInfo.Uses[x].Parent() == types.Universe {
							emit(fn, x.Pos(), x.End(), map[string]string{"true": "false", "false": "true"}[x.Name], "boolflip")
						}
					case *ast.UnaryExpr:
						if x.Op == token.NOT {
							emit(fn, x.OpPos, x.OpPos+1, "", "drop-not")
						}
					case *ast.IfStmt:
						emit(fn, x.Cond.Pos(), x.Cond.End(), "!("+string(src[off(x.Cond.Pos()):off(x.Cond.End())])+")", "negate-if")
						if x.Else == nil {
							// force the branch never / always
							emit(fn, x.Cond.Pos(), x.Cond.End(), "false && ("+string(src[off(x.Cond.Pos()):off(x.Cond.End())])+")", "if-never")
						}
					case *ast.ExprStmt:
						if _, ok := x.X.(*ast.CallExpr); ok {
							emit(fn, x.Pos(), x.End(), "", "del-call")
						}
					case *ast.AssignStmt:
						if x.Tok != token.DEFINE {
							emit(fn, x.Pos(), x.End(), "", "del-assign")
						}
					case *ast.IncDecStmt:
						emit(fn, x.Pos(), x.End(), "", "del-incdec")
					case *ast.DeferStmt:
						emit(fn, x.Pos(), x.End(), "", "del-defer")
					case *ast.GoStmt:
						emit(fn, x.Pos(), x.Pos()+2, "", "go->call")
					case *ast.BranchStmt:
						if x.Label == nil && (x.Tok == token.CONTINUE || x.Tok == token.BREAK) {
							emit(fn, x.Pos(), x.End(), map[token.Token]string{token.CONTINUE: "break", token.BREAK: "continue"}[x.Tok], "branch-swap")
						}
					case *ast.ReturnStmt:
						// return nil instead of the error in the last position
						if len(x.Results) > 0 {
							last := x.Results[len(x.Results)-1]
							if t := p.TypesInfo.TypeOf(last); t != nil && t.String() == "error" {
								if id, ok := last.(*ast.Ident); !ok || id.Name != "nil" {
									emit(fn, last.Pos(), last.End(), "nil", "ret-nil-err")
								}
							}
						}
					case *ast.SelectorExpr:
						// wrong field of the same type
						sel := p.TypesInfo.Selections[x]
						if sel == nil || sel.Kind() != types.FieldVal {
							return true
						}
						recv := sel.Recv()
						if ptr, ok := recv.Underlying().(*types.Pointer); ok {
							recv = ptr.Elem()
						}
						st, ok := recv.Underlying().(*types.Struct)
						if !ok {
							return true
						}
						named, _ := recv.(*types.Named)
						samePkg := named != nil && named.Obj().Pkg() == p.Types
						cnt := 0
						for i := 0; i < st.NumFields() && cnt < 3; i++ {
							f2 := st.Field(i)
							if f2.Name() == x.Sel.Name || f2.Embedded() || !types.Identical(f2.Type(), sel.Obj().Type()) {
								continue
							}
							if !f2.Exported() && !samePkg {
								continue
							}
							cnt++
							emit(fn, x.Sel.Pos(), x.Sel.End(), f2.Name(), "field "+x.Sel.Name+"->"+f2.Name())
						}
					case *ast.CallExpr:
						// swap two adjacent arguments of identical type
						for i := 0; i+1 < len(x.Args); i++ {
							t1, t2 := p.TypesInfo.TypeOf(x.Args[i]), p.TypesInfo.TypeOf(x.Args[i+1])
							if t1 != nil && t2 != nil && types.Identical(t1, t2) {
								a := string(src[off(x.Args[i].Pos()):off(x.Args[i].End())])
								b := string(src[off(x.Args[i+1].Pos()):off(x.Args[i+1].End())])
								if a != b {
									emit(fn, x.Args[i].Pos(), x.Args[i+1].End(), b+", "+a, "argswap")
								}
							}
						}
					}
					return true
				})
			}
		}
	}
	fmt.Fprintln(os.Stderr, n, "mutants")
}

func idfmt() string {
	if v2 {
		return "n%05d"
	}
	return "m%05d"
}

func isLogLine(src []byte, s int) bool {
	// the source line containing offset s mentions a logger
	b, e := s, s
	for b > 0 && src[b-1] != '\n' {
		b--
	}
	for e < len(src) && src[e] != '\n' {
		e++
	}
	l := string(src[b:e])
	return strings.Contains(l, "log.") || strings.Contains(l, ".Printf(") || strings.Contains(l, "debug.")
}

// genV2: the second operator set - wrong local of the same type, deleted return/continue/break, duplicated statement,
// two adjacent statements swapped, += <-> -=, slice bound off by one, else branch dropped, guard removed.
func genV2(p *packages.Package, fd *ast.FuncDecl, fn string, src []byte, off func(token.Pos) int, emit func(string, token.Pos, token.Pos, string, string)) {
	text := func(a, b token.Pos) string { return string(src[off(a):off(b)]) }
	// locals and parameters of the function, in declaration order
	var locals []*types.Var
	ast.Inspect(fd, func(nd ast.Node) bool {
		if id, ok := nd.(*ast.Ident); ok {
			if v, ok := p.TypesInfo.Defs[id].(*types.Var); ok && !v.IsField() && v.Name() != "_" {
				locals = append(locals, v)
			}
		}
		return true
	})
	simple := func(st ast.Stmt) bool {
		switch x := st.(type) {
		case *ast.ExprStmt:
			_, ok := x.X.(*ast.CallExpr)
			return ok
		case *ast.AssignStmt:
			return x.Tok != token.DEFINE
		case *ast.IncDecStmt:
			return true
		}
		return false
	}
	ast.Inspect(fd.Body, func(nd ast.Node) bool {
		switch x := nd.(type) {
		case *ast.Ident:
			v, ok := p.TypesInfo.Uses[x].(*types.Var)
			if !ok || v.IsField() || v.Pkg() != p.Types || v.Parent() == p.Types.Scope() || isLogLine(src, off(x.Pos())) {
				return true
			}
			cnt := 0
			for _, o := range locals {
				if o == v || o.Pos() >= x.Pos() || !types.Identical(o.Type(), v.Type()) || o.Name() == v.Name() {
					continue
				}
				// still in scope at the use?
				if sc := o.Parent(); sc == nil || !(sc.Pos() <= x.Pos() && x.Pos() < sc.End()) {
					continue
				}
				if o.Name() == "err" || v.Name() == "err" {
					continue
				}
				cnt++
				if cnt > 2 {
					break
				}
				emit(fn, x.Pos(), x.End(), o.Name(), "wrongvar "+v.Name()+"->"+o.Name())
			}
		case *ast.BranchStmt:
			if x.Label == nil && (x.Tok == token.CONTINUE || x.Tok == token.BREAK) {
				emit(fn, x.Pos(), x.End(), "", "del-"+x.Tok.String())
			}
		case *ast.ReturnStmt:
			if len(x.Results) == 0 {
				emit(fn, x.Pos(), x.End(), "", "del-return")
			}
		case *ast.BlockStmt:
			for i, st := range x.List {
				if simple(st) && !isLogLine(src, off(st.Pos())) {
					t := text(st.Pos(), st.End())
					emit(fn, st.Pos(), st.End(), t+"\n"+t, "dup-stmt")
					if i+1 < len(x.List) && simple(x.List[i+1]) && !isLogLine(src, off(x.List[i+1].Pos())) {
						t2 := text(x.List[i+1].Pos(), x.List[i+1].End())
						if t != t2 {
							emit(fn, st.Pos(), x.List[i+1].End(), t2+"\n"+t, "swap-stmts")
						}
					}
				}
			}
		case *ast.AssignStmt:
			switch x.Tok {
			case token.ADD_ASSIGN:
				emit(fn, x.TokPos, x.TokPos+2, "-=", "assignop +=->-=")
				emit(fn, x.TokPos, x.TokPos+2, "=", "assignop +=->=")
			case token.SUB_ASSIGN:
				emit(fn, x.TokPos, x.TokPos+2, "+=", "assignop -=->+=")
			case token.MUL_ASSIGN:
				emit(fn, x.TokPos, x.TokPos+2, "=", "assignop *=->=")
			}
		case *ast.SliceExpr:
			if x.High != nil {
				emit(fn, x.High.Pos(), x.High.End(), "("+text(x.High.Pos(), x.High.End())+")-1", "slice-high-1")
			}
			if x.Low != nil {
				emit(fn, x.Low.Pos(), x.Low.End(), "("+text(x.Low.Pos(), x.Low.End())+")+1", "slice-low+1")
			} else if x.High != nil {
				emit(fn, x.High.Pos(), x.High.Pos(), "1:", "slice-low+1")
			}
		case *ast.IfStmt:
			if isLogLine(src, off(x.Body.Lbrace)+2) {
				return true
			}
			if x.Else != nil {
				emit(fn, x.Body.End(), x.Else.End(), "", "else-dropped")
			}
			if x.Init == nil {
				emit(fn, x.Cond.Pos(), x.Cond.End(), "true || ("+text(x.Cond.Pos(), x.Cond.End())+")", "guard-removed")
			}
		}
		return true
	})
}
