// mutgen: mechanical mutation operators over the non-test sources of a thermal-recorder tree.
// Development tool of the sensitivity sweep (sweep/sweep.py); it decides nothing.
// Output: one JSON object per line {id, file, start, end, repl, op, line, fn, orig}.
package main

import (
	"encoding/json"
	"fmt"
	"go/ast"
	"go/token"
	"go/types"
	"os"
	"path/filepath"
	"strings"

	"golang.org/x/tools/go/packages"
)

type Mut struct {
	ID    string `json:"id"`
	File  string `json:"file"`
	Start int    `json:"start"`
	End   int    `json:"end"`
	Repl  string `json:"repl"`
	Op    string `json:"op"`
	Line  int    `json:"line"`
	Fn    string `json:"fn"`
	Orig  string `json:"orig"`
}

var swaps = map[token.Token][]string{
	token.LSS: {"<=", ">"}, token.LEQ: {"<", ">"}, token.GTR: {">=", "<"}, token.GEQ: {">", "<"},
	token.EQL: {"!="}, token.NEQ: {"=="}, token.LAND: {"||"}, token.LOR: {"&&"},
	token.ADD: {"-"}, token.SUB: {"+"}, token.MUL: {"/"}, token.QUO: {"*"}, token.REM: {"/"},
}

func main() {
	root := os.Args[1]
	cfg := &packages.Config{Mode: packages.NeedName | packages.NeedFiles | packages.NeedSyntax | packages.NeedTypes | packages.NeedTypesInfo | packages.NeedImports | packages.NeedDeps, Dir: root, Tests: false}
	pkgs, err := packages.Load(cfg, "./...")
	if err != nil {
		panic(err)
	}
	enc := json.NewEncoder(os.Stdout)
	n := 0
	for _, p := range pkgs {
		for i, f := range p.Syntax {
			_ = i
			fname := p.Fset.Position(f.Pos()).Filename
			rel, _ := filepath.Rel(root, fname)
			if strings.HasSuffix(rel, "_test.go") || strings.HasPrefix(rel, "..") {
				continue
			}
			src, _ := os.ReadFile(fname)
			fset := p.Fset
			off := func(pos token.Pos) int { return fset.Position(pos).Offset }
			emit := func(fn string, pos, end token.Pos, repl, op string) {
				n++
				s, e := off(pos), off(end)
				enc.Encode(Mut{ID: fmt.Sprintf("m%05d", n), File: rel, Start: s, End: e, Repl: repl, Op: op, Line: fset.Position(pos).Line, Fn: fn, Orig: string(src[s:e])})
			}
			for _, d := range f.Decls {
				fd, ok := d.(*ast.FuncDecl)
				if !ok || fd.Body == nil {
					continue
				}
				fn := fd.Name.Name
				if fd.Recv != nil && len(fd.Recv.List) > 0 {
					fn = types.ExprString(fd.Recv.List[0].Type) + "." + fn
				}
				ast.Inspect(fd.Body, func(nd ast.Node) bool {
					switch x := nd.(type) {
					case *ast.BinaryExpr:
						for _, r := range swaps[x.Op] {
							if x.Op == token.ADD {
								if t := p.TypesInfo.TypeOf(x); t != nil {
									if b, ok := t.Underlying().(*types.Basic); ok && b.Info()&types.IsString != 0 {
										continue
									}
								}
							}
							emit(fn, x.OpPos, x.OpPos+token.Pos(len(x.Op.String())), r, "binop "+x.Op.String()+"->"+r)
						}
					case *ast.BasicLit:
						if x.Kind == token.INT {
							var v int64
							if _, err := fmt.Sscan(x.Value, &v); err == nil && !strings.HasPrefix(x.Value, "0x") {
								emit(fn, x.Pos(), x.End(), fmt.Sprint(v+1), "int+1")
								if v > 0 {
									emit(fn, x.Pos(), x.End(), fmt.Sprint(v-1), "int-1")
								}
							}
						}
					case *ast.Ident:
						if (x.Name == "true" || x.Name == "false") && p.TypesInfo.Uses[x] != nil && p.TypesInfo.Uses[x].Parent() == types.Universe {
							emit(fn, x.Pos(), x.End(), map[string]string{"true": "false", "false": "true"}[x.Name], "boolflip")
						}
					case *ast.UnaryExpr:
						if x.Op == token.NOT {
							emit(fn, x.OpPos, x.OpPos+1, "", "drop-not")
						}
					case *ast.IfStmt:
						emit(fn, x.Cond.Pos(), x.Cond.End(), "!("+string(src[off(x.Cond.Pos()):off(x.Cond.End())])+")", "negate-if")
						if x.Else == nil {
							// force the branch never / always
							emit(fn, x.Cond.Pos(), x.Cond.End(), "false && ("+string(src[off(x.Cond.Pos()):off(x.Cond.End())])+")", "if-never")
						}
					case *ast.ExprStmt:
						if _, ok := x.X.(*ast.CallExpr); ok {
							emit(fn, x.Pos(), x.End(), "", "del-call")
						}
					case *ast.AssignStmt:
						if x.Tok != token.DEFINE {
							emit(fn, x.Pos(), x.End(), "", "del-assign")
						}
					case *ast.IncDecStmt:
						emit(fn, x.Pos(), x.End(), "", "del-incdec")
					case *ast.DeferStmt:
						emit(fn, x.Pos(), x.End(), "", "del-defer")
					case *ast.GoStmt:
						emit(fn, x.Pos(), x.Pos()+2, "", "go->call")
					case *ast.BranchStmt:
						if x.Label == nil && (x.Tok == token.CONTINUE || x.Tok == token.BREAK) {
							emit(fn, x.Pos(), x.End(), map[token.Token]string{token.CONTINUE: "break", token.BREAK: "continue"}[x.Tok], "branch-swap")
						}
					case *ast.ReturnStmt:
						// return nil instead of the error in the last position
						if len(x.Results) > 0 {
							last := x.Results[len(x.Results)-1]
							if t := p.TypesInfo.TypeOf(last); t != nil && t.String() == "error" {
								if id, ok := last.(*ast.Ident); !ok || id.Name != "nil" {
									emit(fn, last.Pos(), last.End(), "nil", "ret-nil-err")
								}
							}
						}
					case *ast.SelectorExpr:
						// wrong field of the same type
						sel := p.TypesInfo.Selections[x]
						if sel == nil || sel.Kind() != types.FieldVal {
							return true
						}
						recv := sel.Recv()
						if ptr, ok := recv.Underlying().(*types.Pointer); ok {
							recv = ptr.Elem()
						}
						st, ok := recv.Underlying().(*types.Struct)
						if !ok {
							return true
						}
						named, _ := recv.(*types.Named)
						samePkg := named != nil && named.Obj().Pkg() == p.Types
						cnt := 0
						for i := 0; i < st.NumFields() && cnt < 3; i++ {
							f2 := st.Field(i)
							if f2.Name() == x.Sel.Name || f2.Embedded() || !types.Identical(f2.Type(), sel.Obj().Type()) {
								continue
							}
							if !f2.Exported() && !samePkg {
								continue
							}
							cnt++
							emit(fn, x.Sel.Pos(), x.Sel.End(), f2.Name(), "field "+x.Sel.Name+"->"+f2.Name())
						}
					case *ast.CallExpr:
						// swap two adjacent arguments of identical type
						for i := 0; i+1 < len(x.Args); i++ {
							t1, t2 := p.TypesInfo.TypeOf(x.Args[i]), p.TypesInfo.TypeOf(x.Args[i+1])
							if t1 != nil && t2 != nil && types.Identical(t1, t2) {
								a := string(src[off(x.Args[i].Pos()):off(x.Args[i].End())])
								b := string(src[off(x.Args[i+1].Pos()):off(x.Args[i+1].End())])
								if a != b {
									emit(fn, x.Args[i].Pos(), x.Args[i+1].End(), b+", "+a, "argswap")
								}
							}
						}
					}
					return true
				})
			}
		}
	}
	fmt.Fprintln(os.Stderr, n, "mutants")
}
