#!/usr/bin/env python3
"""Generates MANIFEST.json from the table in checks.json (claimed checks + not applicable)."""
import json, os
here = os.path.dirname(os.path.abspath(__file__))
tbl = json.load(open(os.path.join(here, "checks.json")))
props = [json.loads(l)["id"] for l in open(os.path.join(here, "properties.jsonl"))]
checks = []
claimed = set()
for c in tbl["checks"]:
    pid = c["id"]
    claimed.add(pid)
    checks.append({
        "property_id": pid,
        "quick_cmd": "./run.sh %s quick" % pid,
        "thorough_cmd": "./run.sh %s thorough" % pid,
        "evidence_file": "evidence/%s.json" % pid,
        "replay_cmd_template": "./run.sh %s replay {path}" % pid,
        "engine": "trsa",
        "level_claimed": {"category": "other", "text": c["level_text"], "design_ref": c.get("design_ref", "DESIGN.md section 4, " + pid)},
        "level_note": c["level_note"],
        "technique": c["technique"],
    })
na = []
for p in props:
    if p not in claimed:
        na.append({"property_id": p, "reason": tbl["not_applicable"].get(p, "static check not built yet in this revision of /verif (work in progress); no other technique is substituted")})
m = {
    "version": 1,
    "setup_cmd": "./setup.sh",
    "hooks": {"guard": "verif", "enable": "none needed: static analysis reads the source; no hooks are compiled in", "baseline_off_cmd": "cd /repo && GOFLAGS=-mod=mod go test -vet=off -count=1 ./...", "source_commits": [], "add_only": True},
    "engines": [{"name": "trsa", "path": "sa", "serves_properties": sorted(claimed), "kind_free_text": "repository-specific static analyser over go/packages + go/ssa (typestate fix-point, guards/dominators, value normal forms, index ranges, locksets, cross-binary constants, file-name suffixes)"}],
    "checks": checks,
    "notes": tbl.get("notes", ""),
    "not_applicable": na,
}
json.dump(m, open(os.path.join(here, "MANIFEST.json"), "w"), indent=1)
print("claimed:", len(checks), "not applicable:", len(na))
