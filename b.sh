#!/bin/bash
# build the analyser
export GOFLAGS=-mod=mod GOPROXY=off GOSUMDB=off GOTOOLCHAIN=local GOWORK=off
cd /verif/sa && go build -o ../bin/trsa . 
